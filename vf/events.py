"""Process-wide logical clock and event log shared by every monitor.

Every boundary the harness owns (fake S3, file system, user streams,
subscribers, the scenario driver itself) appends records here.  ``n`` is the
only notion of time any oracle uses; wall-clock is recorded for humans only.
"""
import threading
import time


class EventLog:
    def __init__(self):
        self._lock = threading.Lock()
        self.events = []
        self.n = 0
        self.observers = []  # callables(event) run under the log lock

    def add(self, kind, **info):
        th = threading.current_thread()
        with self._lock:
            n = self.n
            self.n += 1
            ev = {
                'n': n,
                'kind': kind,
                'thread': th.name,
                'stage': getattr(th, 'vf_stage', None),
            }
            ev.update(info)
            self.events.append(ev)
            for ob in self.observers:
                ob(ev)
        return ev

    def counter(self):
        return self.n

    def snapshot(self):
        with self._lock:
            return list(self.events)

    def select(self, kind=None, **match):
        out = []
        for ev in self.snapshot():
            if kind is not None and ev['kind'] != kind:
                continue
            if all(ev.get(k) == v for k, v in match.items()):
                out.append(ev)
        return out


def trim(ev, maxlen=120):
    """JSON-able, shortened copy of an event for evidence/replay files."""
    out = {}
    for k, v in ev.items():
        if isinstance(v, (bytes, bytearray)):
            v = f'<{len(v)} bytes>'
        elif isinstance(v, BaseException):
            v = repr(v)
        elif not isinstance(v, (int, float, str, bool, type(None), list, dict, tuple)):
            v = repr(v)
        if isinstance(v, str) and len(v) > maxlen:
            v = v[:maxlen] + '...'
        out[k] = v
    return out


def jsonable(x, depth=0):
    if depth > 6:
        return repr(x)
    if isinstance(x, (int, float, str, bool, type(None))):
        return x
    if isinstance(x, (bytes, bytearray)):
        return f'<{len(x)} bytes>'
    if isinstance(x, dict):
        return {str(k): jsonable(v, depth + 1) for k, v in x.items()}
    if isinstance(x, (list, tuple, set, frozenset)):
        return [jsonable(v, depth + 1) for v in x]
    return repr(x)
