"""Check runner: shards cases over worker subprocesses, aggregates verdicts,
classifies violations against known_findings.json, writes evidence + replays.

A property module (vf/props/cNN.py) provides:
    PROPERTY = 'C01'; LEVEL = 'exploration'
    gen_cases(tier, seed) -> list of JSON-able case dicts
    run_case(case) -> dict with keys
        verdict: 'held' | 'violated' | 'inconclusive'
        key: str | None        nontrivial-case signature (None = trivial: the
                               deciding monitor did not evaluate)
        violations: [ {'what': str, 'mech': {...}} ]
        stats: {counter: int}   summed over cases ('max_*' keys are maxed)
        summary: short JSON-able description for evidence samples
        fatal: bool             worker must exit after this case (threads stuck)
    RULE: str  (how cases are generated, what makes one nontrivial)
    ASSUMPTIONS: [str]
"""
import importlib
import json
import os
import subprocess
import sys
import time
import hashlib

from . import VERIF_DIR
from .events import jsonable

NWORKERS = int(os.environ.get('VERIF_WORKERS', '16'))


def load_known():
    p = os.path.join(VERIF_DIR, 'known_findings.json')
    if not os.path.exists(p):
        return {'findings': [], 'fixed': []}
    with open(p) as f:
        return json.load(f)


def match_known(prop, mech, known):
    for kf in known.get('findings', []):
        if kf['property'] != prop:
            continue
        m = kf['match']
        if all(mech.get(k) == v for k, v in m.items()):
            return kf
    return None


def _spawn(modname, cases_path, out_path, env):
    return subprocess.Popen(
        [sys.executable, '-u', '-m', 'vf.worker', modname, cases_path, out_path],
        cwd=VERIF_DIR, env=env, stdout=subprocess.DEVNULL, stderr=open(out_path + '.err', 'ab'),
    )


def pool_run(modname, cases, nworkers=None, case_timeout=120.0, scratch=None):
    """Run cases across worker subprocesses; returns list of results by index."""
    from .scenario import scratch_root
    import tempfile
    import shutil

    nworkers = min(nworkers or NWORKERS, max(1, len(cases)))
    root = tempfile.mkdtemp(prefix='vf-run-', dir=scratch_root())
    env = dict(os.environ)
    env['PYTHONHASHSEED'] = '0'
    env['PYTHONPATH'] = VERIF_DIR + os.pathsep + env.get('PYTHONPATH', '')
    env['VF_SCRATCH'] = root
    results = [None] * len(cases)
    try:
        shards = [[] for _ in range(nworkers)]
        for i, c in enumerate(cases):
            shards[i % nworkers].append(i)
        workers = []
        for wi, idxs in enumerate(shards):
            workers.append({'wi': wi, 'pending': list(idxs), 'proc': None, 'gen': 0, 'out': None, 'pos': 0,
                            'cur': None, 'cur_t': None, 'restarts': 0})

        def start(wk):
            wk['gen'] += 1
            cp = os.path.join(root, f'cases-{wk["wi"]}-{wk["gen"]}.json')
            op = os.path.join(root, f'out-{wk["wi"]}-{wk["gen"]}.jsonl')
            with open(cp, 'w') as f:
                json.dump([{'idx': i, 'case': cases[i]} for i in wk['pending']], f)
            open(op, 'w').close()
            wk['out'] = op
            wk['pos'] = 0
            wk['cur'] = None
            wk['cur_t'] = time.monotonic()
            wk['proc'] = _spawn(modname, cp, op, env)

        for wk in workers:
            if wk['pending']:
                start(wk)
        active = [wk for wk in workers if wk['proc'] is not None]
        while active:
            time.sleep(0.05)
            for wk in list(active):
                with open(wk['out']) as f:
                    f.seek(wk['pos'])
                    while True:
                        line = f.readline()
                        if not line or not line.endswith('\n'):
                            break
                        wk['pos'] += len(line.encode())
                        rec = json.loads(line)
                        if rec.get('start') is not None:
                            wk['cur'] = rec['start']
                            wk['cur_t'] = time.monotonic()
                        else:
                            i = rec['idx']
                            results[i] = rec['result']
                            if i in wk['pending']:
                                wk['pending'].remove(i)
                            wk['cur'] = None
                            wk['cur_t'] = time.monotonic()
                rc = wk['proc'].poll()
                if rc is not None:
                    # drain once more happens next loop; decide restart
                    with open(wk['out']) as f:
                        f.seek(wk['pos'])
                        rest = f.read()
                    if rest and rest.endswith('\n'):
                        continue  # more complete lines to read first
                    if wk['pending']:
                        if wk['cur'] is not None and wk['cur'] in wk['pending'] and rc != 3:
                            i = wk['cur']
                            err = ''
                            try:
                                err = open(wk['out'] + '.err').read()[-2000:]
                            except OSError:
                                pass
                            results[i] = {'verdict': 'inconclusive', 'key': None, 'violations': [], 'stats': {'worker_died': 1},
                                          'summary': {'worker_exit': rc, 'stderr': err}}
                            wk['pending'].remove(i)
                        elif rc not in (0, 3) and wk['cur'] is None:
                            wk['restarts'] += 1
                            if wk['restarts'] > 3:
                                for i in wk['pending']:
                                    results[i] = {'verdict': 'inconclusive', 'key': None, 'violations': [],
                                                  'stats': {'worker_died': 1}, 'summary': {'worker_exit': rc}}
                                wk['pending'] = []
                        if wk['pending']:
                            start(wk)
                            continue
                    active.remove(wk)
                    continue
                if wk['cur_t'] is not None and time.monotonic() - wk['cur_t'] > case_timeout:
                    wk['proc'].kill()
                    wk['proc'].wait()
                    i = wk['cur'] if wk['cur'] is not None else (wk['pending'][0] if wk['pending'] else None)
                    if i is not None and i in wk['pending']:
                        results[i] = {'verdict': 'inconclusive', 'key': None, 'violations': [], 'stats': {'wall_timeout': 1},
                                      'summary': {'wall_timeout': case_timeout}}
                        wk['pending'].remove(i)
                    if wk['pending']:
                        start(wk)
                    else:
                        active.remove(wk)
    finally:
        shutil.rmtree(root, ignore_errors=True)
    for i, r in enumerate(results):
        if r is None:
            results[i] = {'verdict': 'inconclusive', 'key': None, 'violations': [], 'stats': {'lost': 1}, 'summary': 'lost'}
    return results


def aggregate_stats(results):
    agg = {}
    for r in results:
        for k, v in (r.get('stats') or {}).items():
            if not isinstance(v, (int, float)):
                continue
            if k.startswith('max_'):
                agg[k] = max(agg.get(k, v), v)
            elif k.startswith('min_'):
                agg[k] = min(agg.get(k, v), v)
            else:
                agg[k] = agg.get(k, 0) + v
    return agg


def run_check(mod, tier, seed, argv=None):
    t0 = time.monotonic()
    prop = mod.PROPERTY
    ev_dir = os.environ.get('VERIF_EVIDENCE_DIR') or os.path.join(VERIF_DIR, 'evidence')
    rp_dir = os.environ.get('VERIF_REPLAY_DIR') or os.path.join(VERIF_DIR, 'replays')
    os.makedirs(ev_dir, exist_ok=True)
    os.makedirs(rp_dir, exist_ok=True)
    cases = mod.gen_cases(tier, seed)
    inproc = getattr(mod, 'IN_PROCESS', False)
    if inproc:
        results = []
        for c in cases:
            results.append(jsonable(mod.run_case(c)))
    else:
        results = pool_run(mod.__name__, cases, case_timeout=getattr(mod, 'CASE_TIMEOUT', 120.0))
    known = load_known()
    n_viol = 0
    known_hits = {}
    viol_lines = []
    keys = set()
    n_inconc = 0
    n_held = 0
    for i, r in enumerate(results):
        v = r.get('verdict')
        if r.get('key') is not None and v != 'inconclusive':
            keys.add(r['key'])
        if v == 'inconclusive':
            n_inconc += 1
        elif v == 'held':
            n_held += 1
        for viol in r.get('violations') or []:
            kf = match_known(prop, viol.get('mech') or {}, known)
            if kf is not None:
                known_hits.setdefault(kf['id'], {'kf': kf, 'count': 0, 'example': viol['what']})
                known_hits[kf['id']]['count'] += 1
                continue
            n_viol += 1
            h = hashlib.sha1(json.dumps([prop, cases[i], viol.get('what')], sort_keys=True, default=repr).encode()).hexdigest()[:10]
            path = os.path.join(rp_dir, f'{prop}-{h}.json')
            with open(path, 'w') as f:
                json.dump({'property': prop, 'module': mod.__name__, 'case': cases[i], 'violation': jsonable(viol),
                           'result': jsonable(r), 'seed': seed, 'tier': tier}, f, indent=1, default=repr)
            if len(viol_lines) < 20:
                viol_lines.append((path, viol.get('what')))
    stats = aggregate_stats(results)
    samples = []
    step = max(1, len(cases) // 4)
    for i in range(0, len(cases), step):
        samples.append({'case': jsonable(cases[i]), 'verdict': results[i].get('verdict'), 'summary': jsonable(results[i].get('summary'))})
        if len(samples) >= 5:
            break
    wall = time.monotonic() - t0
    inconclusive_overall = (len(keys) < 2) or (n_inconc > max(2, 0.25 * len(cases)))
    ev = {
        'property_id': prop,
        'tier': tier,
        'seed': seed,
        'level': mod.LEVEL,
        'coverage': {
            'evaluations': len(cases),
            'distinct_nontrivial': len(keys),
            'rule': mod.RULE,
            'samples': samples,
            'held': n_held,
            'inconclusive': n_inconc,
            'monitor_counters': stats,
            'known_findings_hit': {k: {'count': v['count'], 'example': v['example']} for k, v in known_hits.items()},
            'exhaustive': bool(getattr(mod, 'EXHAUSTIVE', {}).get(tier, False)) if isinstance(getattr(mod, 'EXHAUSTIVE', None), dict) else False,
        },
        'assumptions': list(getattr(mod, 'ASSUMPTIONS', [])),
        'wall_s': round(wall, 2),
        'violations': n_viol,
        'verdict': 'violated' if n_viol else ('inconclusive' if inconclusive_overall else 'held'),
    }
    extra = getattr(mod, 'evidence_extra', None)
    if extra:
        ev['coverage'].update(jsonable(extra(cases, results)))
    tmp = os.path.join(ev_dir, f'.{prop}.json.tmp')
    with open(tmp, 'w') as f:
        json.dump(ev, f, indent=1, default=repr)
    os.replace(tmp, os.path.join(ev_dir, f'{prop}.json'))
    for kid, v in sorted(known_hits.items()):
        print(f'KNOWN-FINDING: property={prop} {kid}: {v["kf"]["what_fails"]} (seen {v["count"]}x; e.g. {v["example"][:160]})')
    print(f'{prop} tier={tier} seed={seed} cases={len(cases)} nontrivial={len(keys)} held={n_held} '
          f'inconclusive={n_inconc} violations={n_viol} wall={wall:.1f}s')
    print('monitors:', json.dumps(stats, sort_keys=True))
    if n_viol:
        for path, what in viol_lines:
            print(f'VIOLATION property={prop} replay={path}')
            print(f'  {str(what)[:300]}')
        return 1
    if inconclusive_overall:
        print(f'INCONCLUSIVE property={prop}: deciding monitors observed too little '
              f'(nontrivial={len(keys)}, inconclusive cases={n_inconc}/{len(cases)})')
        return 2
    return 0
