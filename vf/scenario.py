"""Scenario = one run of the real TransferManager against the fake world.

``run(spec)`` builds the world from a JSON-able spec, drives the transfers,
and returns an Observation that the per-property oracles (vf/oracles.py) read.
"""
import os
import re
import shutil
import signal
import stat
import sys
import tempfile
import threading
import time

import s3transfer.utils as s3utils
from s3transfer.exceptions import CancelledError, FatalError
from s3transfer.manager import TransferConfig, TransferManager

from . import watchdog
from .director import Director, find_tags
from .events import EventLog
from .fakes3 import FakeS3, payload
from .io import (
    NONSEEKABLE_FLAVORS,
    SEEKABLE_FLAVORS,
    DeclaredNonSeekableSink,
    HookedOSUtils,
    NonSeekableSink,
    NonSeekableSource,
    FalsySubscriber,
    SharedSubscriber,
    InheritedSubscriber,
    MixinSubscriber,
    RecordingSubscriber,
    partial_subscriber,
    SeekableSink,
    SeekableSource,
    StageExecutorFactory,
)

BUCKET = 'bkt'
SRC_BUCKET = 'srcbkt'
TEMP_RE = re.compile(r'\.[0-9a-fA-F]{8}$')


def dest_path(tmpdir, x):
    """Destination path of a path download; ``name_len`` pads the base name (255 = the file-system maximum)."""
    name = x.spec.get('dest_name') or f'dst-{x.idx}'
    n = x.spec.get('name_len')
    if n:
        name = name + '-' + 'n' * (n - len(name) - 1)
    return os.path.join(tmpdir, name)


def make_dir_destination(path):
    """The destination name is an existing, non-empty directory: requests can succeed, publishing (a rename onto it) cannot."""
    os.mkdir(path)
    with open(os.path.join(path, 'keep'), 'wb') as f:
        f.write(b'k')


def temp_leftovers(dest):
    """Files beside ``dest`` that look like the library's temporary names for it (base name, possibly truncated to make
    room, plus '.' and 8 hex digits)."""
    d = os.path.dirname(dest)
    base = os.path.basename(dest)
    stem = base[:255 - 9]
    return [n for n in os.listdir(d) if n != base and n.startswith(stem) and TEMP_RE.search(n)]


def scratch_root():
    for base in ('/dev/shm', os.environ.get('TMPDIR') or tempfile.gettempdir()):
        if os.path.isdir(base) and os.access(base, os.W_OK):
            return base
    return tempfile.gettempdir()


class World:
    def __init__(self, spec):
        self.spec = spec
        self.log = EventLog()
        self.director = Director(self.log, seed=spec.get('seed', 0), plan=spec.get('plan'))
        self.s3 = FakeS3(
            self.log,
            self.director,
            body_read_sizes=spec.get('body_read_sizes', (8192,)),
            get_read_caps=spec.get('get_read_caps'),
        )


class Xfer:
    """Harness-side record of one transfer."""

    def __init__(self, idx, tspec):
        self.idx = idx
        self.spec = tspec
        self.label = f't{idx}'
        self.kind = tspec['kind']
        self.key = f'key-{idx}'
        self.data = None  # expected bytes (source bytes / object bytes)
        self.future = None
        self.subs = []
        self.dest = None  # sink object or path
        self.src = None
        self.prev = None  # previous destination content (path downloads)
        self.outcome = None
        self.exc = None
        self.result_ob = None
        self.fifo_reader = None
        self.submit_exc = None


def _patch_min_part(min_part):
    init = s3utils.ChunksizeAdjuster.__init__
    old = init.__defaults__
    if min_part is not None:
        init.__defaults__ = (old[0], min_part, old[2])
    return old


def _unpatch_min_part(old):
    s3utils.ChunksizeAdjuster.__init__.__defaults__ = old


class FifoReader(threading.Thread):
    def __init__(self, path):
        super().__init__(name='vf-fifo-reader', daemon=True)
        self.path = path
        self.chunks = []
        self.opened = threading.Event()

    def run(self):
        fd = os.open(self.path, os.O_RDONLY)
        self.opened.set()
        try:
            while True:
                b = os.read(fd, 65536)
                if not b:
                    break
                self.chunks.append(b)
        finally:
            os.close(fd)

    def value(self):
        return b''.join(self.chunks)


class Observation:
    pass


def prepare_xfer(obs, x):
    w, spec, tmpdir, osu = obs.world, obs.spec, obs.tmpdir, obs.osutil
    t = x.spec
    size = t.get('size', 0)
    x.data = payload(spec.get('seed', 0) * 1000 + x.idx, size)
    subs = []
    # 'subs': None -> the call is made with subscribers=None; a subscriber with 'only': [...] is a plain object that offers
    # just those callbacks (subscribers are duck-typed: whatever on_* methods exist are called)
    for si, b in enumerate(t['subs'] or [] if 'subs' in t else [{}]):
        if b.get('only'):
            subs.append(partial_subscriber(b['only'])(w, x.label, f's{si}', b))
        elif b.get('flavor') == 'inherited':
            subs.append(InheritedSubscriber(w, x.label, f's{si}', b))  # all callbacks inherited from a base class
        elif b.get('flavor') == 'mixin':
            subs.append(MixinSubscriber(w, x.label, f's{si}', b))  # callbacks provided by a mixin
        elif b.get('flavor') == 'shared':
            subs.append(SharedSubscriber(w, x.label, f's{si}', b))  # one object for several transfers (see 'share_subs_with')
        elif b.get('flavor') == 'falsy':
            subs.append(FalsySubscriber(w, x.label, f's{si}', b))  # bool(subscriber) is False (len() == 0)
        else:
            subs.append(RecordingSubscriber(w, x.label, f's{si}', b))
    x.subs = subs
    if t.get('share_subs_with') is not None:
        x.subs = obs.xfers[t['share_subs_with']].subs  # the very same subscriber objects as an earlier transfer of this manager
    w.s3.labels[(BUCKET, x.key)] = x.label
    if x.kind == 'upload':
        src = t.get('src', 'path')
        if src == 'path' and t.get('same_source_as') is not None:
            # the same path string as an earlier (already finished) upload of this manager; the file is rewritten with this
            # transfer's content - another length - just before this upload is submitted (sequential histories)
            x.src = obs.xfers[t['same_source_as']].src
            x.rewrite_source = True
        elif src == 'path':
            path = os.path.join(tmpdir, f'src-{x.idx}')
            real = path + '-target' if t.get('symlink') else path
            with open(real, 'wb') as f:
                f.write(x.data)
            if t.get('symlink'):
                os.symlink(real, path)  # the caller names the file through a symbolic link
                osu.labels[real] = x.label
            osu.labels[path] = x.label
            x.src = path
        elif src == 'seekable':
            start = t.get('start', 0)
            full = payload(7777 + x.idx, start) + x.data
            x.src = SEEKABLE_FLAVORS[t.get('flavor', 'declared')](w, x.label, full, start=start, read_caps=t.get('src_caps'))
        else:
            x.src = NONSEEKABLE_FLAVORS[t.get('flavor', 'bare')](w, x.label, x.data, read_caps=t.get('src_caps'))
    elif x.kind == 'download':
        w.s3.objects[(BUCKET, x.key)] = x.data
        if t.get('versioned'):
            # an older version is asked for (extra_args VersionId); the current version is other, longer data
            w.s3.versions[(BUCKET, x.key)] = {'v1': x.data}
            w.s3.objects[(BUCKET, x.key)] = payload(4343 + x.idx, len(x.data) + 3)
        dst = t.get('dst', 'path')
        if dst == 'path':
            path = dest_path(tmpdir, x)
            if t.get('same_dest_as') is not None:
                # several downloads (of different objects) aimed at ONE destination name
                path = obs.xfers[t['same_dest_as']].dest
                x.prev = obs.xfers[t['same_dest_as']].prev
            osu.labels[path] = x.label
            if t.get('dst_is_dir'):
                make_dir_destination(path)
            elif t.get('preexisting'):
                x.prev = b'previous-content-' + str(x.idx).encode()
                real = path
                if t.get('symlink') and t.get('same_dest_as') is None:
                    # the destination name is a symbolic link to an ordinary file holding the previous content
                    real = os.path.join(tmpdir, f'linktarget-{x.idx}')
                    os.symlink(real, path)
                with open(real, 'wb') as f:
                    f.write(x.prev)
            x.dest = path
        elif dst == 'seekable':
            x.dest = SeekableSink(w, x.label)
        elif dst == 'nonseekable':
            x.dest = DeclaredNonSeekableSink(w, x.label) if t.get('flavor') == 'declared' else NonSeekableSink(w, x.label)
        if dst in ('seekable', 'nonseekable') and t.get('write_ret'):
            x.dest.write_ret = t['write_ret']
        elif dst == 'fifo':
            path = os.path.join(tmpdir, t.get('dest_name') or f'fifo-{x.idx}')
            real = path + '-target' if t.get('symlink') else path
            os.mkfifo(real)
            if t.get('symlink'):
                os.symlink(real, path)  # like /dev/stdout: a symbolic link to the special file
                osu.labels[real] = x.label
            osu.labels[path] = x.label
            x.dest = path
            x.fifo_reader = FifoReader(real)
            x.fifo_reader.start()
    elif x.kind == 'copy':
        w.s3.objects[(SRC_BUCKET, 'src-' + x.key)] = x.data
        w.s3.labels[(SRC_BUCKET, 'src-' + x.key)] = x.label
        if t.get('versioned'):
            # the caller asks for an OLDER version of the source: the key's current version is other data (a bit longer, so that
            # every range of the requested version also exists in it)
            w.s3.versions[(SRC_BUCKET, 'src-' + x.key)] = {'v1': x.data}
            w.s3.objects[(SRC_BUCKET, 'src-' + x.key)] = payload(4242 + x.idx, len(x.data) + 3)
    elif x.kind == 'delete':
        w.s3.objects[(BUCKET, x.key)] = x.data


def build_config(cfg):
    return TransferConfig(**cfg)


def run(spec, hang_ok=False):
    """Run one scenario.  Returns an Observation."""
    obs = Observation()
    obs.spec = spec
    w = World(spec)
    obs.world = w
    log, d = w.log, w.director
    if spec.get('tmpdir_name'):
        # (a directory with a GIVEN name: a later scenario of the same process can use the very same path strings again)
        tmpdir = os.path.join(scratch_root(), spec['tmpdir_name'])
        shutil.rmtree(tmpdir, ignore_errors=True)
        os.makedirs(tmpdir)
    else:
        tmpdir = tempfile.mkdtemp(prefix='vf-', dir=scratch_root())
    obs.tmpdir = tmpdir
    if any(isinstance(t, dict) and t.get('relative') for t in spec.get('transfers', ())):
        # the caller names files RELATIVE to the working directory ('name', './name'); the harness keeps absolute paths for itself
        # (a worker process runs one case at a time, so the process-wide working directory is this case's alone)
        obs.prev_cwd = os.getcwd()
        os.chdir(tmpdir)
    ccfg = spec.get('client', {})
    client = w.s3.make_client(ccfg.get('checksum', 'when_supported'), ccfg.get('scheme', 'https'))
    obs.client = client
    osu = HookedOSUtils(w)
    obs.osutil = osu
    exf = StageExecutorFactory(w)
    obs.execs = exf
    old_defaults = _patch_min_part(spec.get('min_part'))
    cfg = build_config(spec.get('config', {}))
    obs.config = cfg
    xfers = [Xfer(i, t) for i, t in enumerate(spec['transfers'])]
    obs.xfers = xfers
    obs.hang = None
    obs.stacks = None
    obs.shutdown_exc = None
    obs.unraisable = []
    obs.thread_exc = []

    old_excepthook = threading.excepthook
    old_unraisable = sys.unraisablehook

    def th_hook(args):
        obs.thread_exc.append({'thread': getattr(args.thread, 'name', None), 'exc': repr(args.exc_value)})
        log.add('thread.exc', exc=repr(args.exc_value))

    def un_hook(args):
        obs.unraisable.append(repr(args.exc_value))

    threading.excepthook = th_hook
    sys.unraisablehook = un_hook

    # ---- prepare transfers -------------------------------------------------
    for x in xfers:
        prepare_xfer(obs, x)

    if spec.get('dirwatch'):
        from .oracles import DirWatch

        obs.dirwatch = DirWatch(obs)
        d.hooks.append(obs.dirwatch.hook)
    else:
        obs.dirwatch = None

    for h in spec.get('_hooks', ()):  # in-process only (not JSON): extra point hooks
        d.hooks.append(h)

    if spec.get('prior_use') and spec['prior_use'] != 'overlap':
        # the client has a history: another front-end / an earlier manager has already been used on it (boto3 builds a new manager
        # on the same client for every call), which leaves event handlers registered on the client
        try:
            _prior_use(client, spec['prior_use'], obs.tmpdir, cfg)
        except Exception as e:  # noqa
            w.s3.harness_errors.append(f'prior use of the client failed: {e!r}')
        log.add('prior_use.end', how=spec['prior_use'])
    if spec.get('executor') == 'nonthreaded':
        # everything runs inline in the submitting thread (what boto3's use_threads=False selects)
        from s3transfer.futures import NonThreadedExecutor

        mgr = TransferManager(client, cfg, osutil=osu, executor_cls=NonThreadedExecutor)
    else:
        mgr = TransferManager(client, cfg, osutil=osu, executor_cls=exf)
    obs.manager = mgr
    if spec.get('prior_use') == 'overlap':
        # another manager on the same client whose life overlaps this one's: created after it, used and shut down before this
        # one's transfers start (what several threads calling client.upload_file at once produce)
        try:
            _prior_use(client, 'manager', obs.tmpdir, cfg)
        except Exception as e:  # noqa
            w.s3.harness_errors.append(f'overlapping use of the client failed: {e!r}')
        log.add('prior_use.end', how='overlap')
    # lockset monitors on the manager's sliding-window semaphores (the in-memory download window): their state may only be written
    # under their own lock.  They hang off private attributes, so this engages only where those are found.
    obs.locksets = []
    try:
        from s3transfer.utils import SlidingWindowSemaphore
        from . import lockset as _ls

        for ex_name in ('_request_executor', '_submission_executor', '_io_executor'):
            tags = getattr(getattr(mgr, ex_name, None), '_tag_semaphores', None) or {}
            for sem in tags.values():
                if type(sem) is SlidingWindowSemaphore:
                    st = _ls.attach_to_sliding_semaphore(sem)
                    if st is not None:
                        obs.locksets.append(st)
    except Exception:  # noqa - the monitor is optional
        pass
    obs.gate = None
    gate = (spec.get('plan') or {}).get('gate')
    if gate:
        from .director import GateController

        obs.gate = GateController(d, gate)
        obs.gate.start()

    # ---- cancel wiring -------------------------------------------------------
    cancel_done = threading.Event()
    obs.cancel_events = []

    def do_cancel(cp):
        how = cp.get('how', 'future.cancel')
        target = cp.get('target', 0)
        ev = log.add('cancel.begin', how=how, target=target)
        obs.cancel_events.append(ev)
        d.cancel_began = True
        if how == 'future.cancel':
            for _ in range(4000):  # the submitting call may not have returned the future yet
                if xfers[target].future is not None or xfers[target].submit_exc is not None:
                    break
                time.sleep(0.0005)
            xfers[target].future.cancel()
        elif how == 'manager_cancel':
            # the manager as a whole is told to stop, from another user thread, while transfers are being started
            m = getattr(w, 'mgr', None)
            if m is not None:
                me = threading.get_ident()
                d.cancel_applied = lambda: _past_cancel_pass(me)
                try:
                    m.shutdown(cancel=True, cancel_msg=cp.get('msg', 'bye'))
                except BaseException as e:  # noqa
                    log.add('cancel.raised', exc=repr(e))
        log.add('cancel.end', how=how, target=target)
        cancel_done.set()

    def on_cancel_point(cp):
        how = cp.get('how', 'future.cancel')
        if how == 'future.cancel' and cp.get('from', 'event') == 'event':
            # wait until the future object exists (submission may still be returning)
            x = xfers[cp.get('target', 0)]
            for _ in range(2000):
                if x.future is not None:
                    break
                time.sleep(0.0005)
            if x.future is not None:
                do_cancel(cp)
        else:
            obs.main_cancel_request.set()
            # let the main thread's cancel land while this call is still in flight
            x = xfers[cp.get('target', 0)]
            for _ in range(400):
                if x.future is not None and x.future.done():
                    break
                time.sleep(0.0005)

    obs.main_cancel_request = threading.Event()
    d.on_cancel_point = on_cancel_point

    # ---- yield injection / race windows -------------------------------------
    obs.injector = None
    obs.window_found = None
    ycfg = spec.get('yield')
    old_switch = sys.getswitchinterval()
    if ycfg:
        from . import yieldinj

        windows = []
        # (further pause windows, e.g. a second preemption inside the action the first window starts)
        for w2 in ycfg.get('more_windows', ()):
            l2 = w2['lineno'] if 'lineno' in w2 else yieldinj.find_line(w2['file'], w2['text'], w2.get('occ', 0))
            if l2 is not None:
                windows.append({'file': w2['file'], 'line': l2 + w2.get('line_offset', 0), 'nth': w2.get('nth', 0), 'action': 'pause',
                                'name': w2.get('name') or str(w2.get('text', ''))[:40], 'wait': w2.get('wait', 0.3), 'rmw': False})
        wspec = ycfg.get('window')
        if wspec:
            if 'lineno' in wspec:
                line = wspec['lineno']
            else:
                line = yieldinj.find_line(wspec['file'], wspec['text'], wspec.get('occ', 0))
            obs.window_found = line is not None
            if line is not None:
                def action(wspec=wspec):
                    do_cancel({'how': wspec.get('how', 'future.cancel'), 'target': wspec.get('target', 0)})
                if wspec.get('action') == 'pause':
                    action = 'pause'
                elif wspec.get('action') == 'let_start':
                    # the thread that reached the line (a canceller inside cancel()) is held while everything parked under
                    # ``release_prefix`` is let go and the transfer ``until_label`` gets as far as beginning a request (or the
                    # bounded wait runs out); other gates stay shut meanwhile (gate option hold_while_paused)
                    def action(wspec=wspec):
                        end = time.monotonic() + wspec.get('action_wait', 1.5)
                        pref = wspec.get('release_prefix', 't0/')
                        lab = wspec.get('until_label', 't1')
                        while time.monotonic() < end:
                            for kp in d.parked_keys():
                                if kp[0].startswith(pref):
                                    try:
                                        d.release(kp)
                                    except KeyError:
                                        pass
                            if any(kp[0].startswith(lab + '/s3:') for kp in d.parked_keys()):
                                log.add('window.let_start', reached=True)
                                return
                            time.sleep(0.0005)
                        log.add('window.let_start', reached=False)
                windows.append({'file': wspec['file'], 'line': line + wspec.get('line_offset', 0), 'nth': wspec.get('nth', 0),
                                'action': action, 'name': wspec.get('name') or str(wspec.get('text', ''))[:40], 'wait': wspec.get('wait', 0.3),
                                'rmw': bool(wspec.get('rmw'))})
        obs.injector = yieldinj.Injector(p=ycfg.get('p', 0.0), seed=spec.get('seed', 0), windows=windows,
                                         files=ycfg.get('files')).install()
        if ycfg.get('switch'):
            sys.setswitchinterval(ycfg['switch'])

    # ---- submit --------------------------------------------------------------
    mode = spec.get('mode', 'plain')  # plain | with_exc | with_kbi | shutdown_cancel
    t_start = time.monotonic()
    try:
        _drive(obs, mgr, xfers, spec, mode, do_cancel)
    finally:
        if obs.injector is not None:
            obs.injector.uninstall()
        sys.setswitchinterval(old_switch)
        if obs.gate is not None:
            obs.gate.stop_flag = True
        d.stop()
        threading.excepthook = old_excepthook
        sys.unraisablehook = old_unraisable
        _unpatch_min_part(old_defaults)
    obs.wall = time.monotonic() - t_start
    if obs.hang is None:
        for x in xfers:
            if x.fifo_reader is not None:
                x.fifo_reader.join(2)
    obs.events = log.snapshot()
    return obs


def _prior_use(client, how, tmpdir, cfg):
    path = os.path.join(tmpdir, 'prior-src')
    with open(path, 'wb') as f:
        f.write(b'prior-data')
    if how == 'legacy':
        import s3transfer

        s3transfer.S3Transfer(client).upload_file(path, BUCKET, 'prior-legacy')
    else:
        # an earlier manager with the same configuration (limits, bandwidth), used and shut down
        with TransferManager(client, cfg) as m:
            m.upload(path, BUCKET, 'prior-mgr').result()
    os.remove(path)


def submit_one(mgr, x):
    t = x.spec
    extra = dict(t.get('extra_args') or {})
    subs = None if ('subs' in t and t['subs'] is None) else x.subs
    bucket = t.get('bucket', BUCKET)  # e.g. an S3 Object Lambda access-point ARN, which the manager rejects at call time
    try:
        if x.kind == 'upload':
            x.future = mgr.upload(lib_path(x, x.src), bucket, x.key, extra_args=extra or None, subscribers=subs)
        elif x.kind == 'download':
            if t.get('versioned'):
                extra['VersionId'] = 'v1'
            x.future = mgr.download(bucket, x.key, lib_path(x, x.dest), extra_args=extra or None, subscribers=subs)
        elif x.kind == 'copy':
            src = {'Bucket': SRC_BUCKET, 'Key': 'src-' + x.key}
            if t.get('versioned'):
                src['VersionId'] = 'v1'
            x.future = mgr.copy(src, bucket, x.key, extra_args=extra or None, subscribers=subs)
        elif x.kind == 'delete':
            x.future = mgr.delete(bucket, x.key, extra_args=extra or None, subscribers=subs)
    except BaseException as e:  # noqa
        x.submit_exc = e


def _collect(x, log=None):
    try:
        r = x.future.result()
        if log is not None:
            log.add('result.ret', label=x.label, outcome='success')
        first = ('success', r)
    except BaseException as e:  # noqa
        if log is not None:
            log.add('result.ret', label=x.label, outcome='raised', exc=repr(e))
        first = ('raised', e)
    # the outcome is asked for once more (the future is done: this cannot block): it is the same outcome every time
    try:
        x.second_outcome = ('success', x.future.result())
    except BaseException as e:  # noqa
        x.second_outcome = ('raised', e)
    return first


def _await(obs, is_done, what, wall=None):
    w = obs.world
    wall = wall or obs.spec.get('wall_timeout', 30.0)
    r = watchdog.await_or_deadlock(is_done, w.director, w.log, wall_timeout=wall)
    if r != 'done':
        obs.hang = r
        obs.hang_what = what
        obs.stacks = watchdog.all_stacks()
        w.log.add('hang', what=what, verdict=r)
    return r == 'done'


def _drive(obs, mgr, xfers, spec, mode, do_cancel):
    w = obs.world
    log = w.log
    w.mgr, w.xfers, w.chained = mgr, xfers, []  # for subscribers that act on sibling transfers / start new ones from a callback
    obs.chained = w.chained
    submit_obs = []
    # Submission may block (queue limits), so it runs on its own thread and is
    # itself an obligation.
    sub_done = threading.Event()

    def submit_all():
        try:
            if spec.get('concurrent_submit') and not spec.get('sequential'):
                # the manager used from several user threads at once
                def one(x):
                    log.add('submit.begin', label=x.label)
                    submit_one(mgr, x)
                    log.add('submit.end', label=x.label, error=repr(x.submit_exc) if x.submit_exc else None)
                ths = [threading.Thread(target=one, args=(x,), name=f'vf-submit-{x.label}', daemon=True) for x in xfers]
                for th in ths:
                    th.start()
                for th in ths:
                    while th.is_alive():
                        th.join(0.05)
                return
            for x in xfers:
                if getattr(x, 'rewrite_source', False):
                    with open(x.src, 'wb') as f:
                        f.write(x.data)
                    obs.osutil.labels[x.src] = x.label
                log.add('submit.begin', label=x.label)
                submit_one(mgr, x)
                log.add('submit.end', label=x.label, error=repr(x.submit_exc) if x.submit_exc else None)
                if spec.get('sequential') and x.future is not None:
                    # one transfer after the other on the same manager
                    try:
                        x.future.result()
                    except BaseException:  # noqa - the outcome is collected as usual below
                        pass
        finally:
            sub_done.set()

    cp = (spec.get('plan') or {}).get('cancel')
    th = threading.Thread(target=submit_all, name='vf-submit', daemon=True)
    th.start()
    if spec.get('poll_done'):
        # a user thread that keeps asking future.done(): the moment it first sees True is logged ('done.seen'); whatever the
        # transfer reports in the end must not stem from something that happened only after that
        stop_poll = obs.stop_poll = threading.Event()

        def poll_done():
            seen = set()
            with watchdog.polling():
                while not stop_poll.is_set() and len(seen) < len(xfers):
                    for x in xfers:
                        f = x.future
                        if f is not None and x.label not in seen:
                            try:
                                d = f.done()
                            except Exception:  # noqa
                                d = False
                            if d:
                                seen.add(x.label)
                                log.add('done.seen', label=x.label)
                    time.sleep(0.0002)

        threading.Thread(target=poll_done, name='vf-done-poller', daemon=True).start()

    def start_results():
        obl = []
        for x in xfers:
            if x.future is None:
                continue
            o = watchdog.Obligation(lambda x=x: _collect(x, log), name=f'result-{x.label}').start()
            x.result_ob = o
            obl.append(o)
        return obl

    def cancel_obligation(cpl, what):
        # the cancel call itself is an obligation: it must return
        ob = watchdog.Obligation(lambda: do_cancel(cpl), name=what).start()
        return _await(obs, ob.done.is_set, what)

    if cp and cp.get('at') == '@after_submit':
        # cancel immediately after submission returns, from the user thread
        if not _await(obs, sub_done.is_set, 'submit'):
            return
        if not cancel_obligation(cp, 'cancel()'):
            return
    if not _await(obs, sub_done.is_set, 'submit'):
        return

    if mode == 'plain':
        obl = start_results()
        main_cancelled = [False]

        cancel_ob = []

        def done_or_cancel():
            if cp and obs.main_cancel_request.is_set() and not main_cancelled[0]:
                main_cancelled[0] = True
                cancel_ob.append(watchdog.Obligation(lambda: do_cancel(cp), name='cancel()').start())
            return all(o.done.is_set() for o in obl) and all(o.done.is_set() for o in cancel_ob)

        if not _await(obs, done_or_cancel, 'result'):
            _record_outcomes(xfers)
            return
        _record_outcomes(xfers)
        if cp and cp.get('at') == '@after_done':
            if not cancel_obligation(cp, 'cancel()-after-done'):
                return
            # a finished transfer keeps its result: collect again
            for x in xfers:
                if x.future is not None:
                    x.outcome_after = _collect(x)
        if spec.get('chained'):
            # subscribers that start a fresh transfer / cancel siblings from inside on_done: the callbacks run just after result()
            # is unblocked, so let them run as far as they can, then everything they started has to finish as well
            _settle(w)
            chained = list(w.chained)
            co = [watchdog.Obligation(lambda f=f: f.result(), name=f'chained-{k}').start() for (k, f, e) in chained if f is not None]
            if not _await(obs, lambda: all(o.done.is_set() for o in co), 'chained-result'):
                return
            it = iter(co)
            obs.chained_outcomes = []
            for (k, f, e) in chained:
                if f is None:
                    obs.chained_outcomes.append((k, 'submit-raised', repr(e)))
                else:
                    o = next(it)
                    obs.chained_outcomes.append((k, 'raised', repr(o.exc)) if o.exc is not None else (k, 'success', None))
        if spec.get('probe'):
            # permits are returned by done-callbacks of the executor futures, which run just
            # after result() is unblocked: probe at quiescence, as the statement says
            obs.probe_quiescent = _settle(w)
            pr = watchdog.Obligation(lambda: capacity_probe(mgr, obs.config), name='probe').start()
            if not _await(obs, pr.done.is_set, 'probe'):
                return
            obs.probe = pr.result
            obs.probe_exc = pr.exc
        if spec.get('fresh'):
            fx = Xfer(len(xfers), dict(spec['fresh']))
            fx.fresh = True
            prepare_xfer(obs, fx)
            xfers.append(fx)
            log.add('submit.begin', label=fx.label, fresh=True)
            so = watchdog.Obligation(lambda: submit_one(mgr, fx), name='submit-fresh').start()
            if not _await(obs, so.done.is_set, 'submit-fresh'):
                return
            if fx.future is not None:
                fo = watchdog.Obligation(lambda: _collect(fx, log), name='result-fresh').start()
                fx.result_ob = fo
                if not _await(obs, fo.done.is_set, 'result-fresh'):
                    return
                _record_outcomes([fx])
        log.add('shutdown.begin')
        sh = watchdog.Obligation(lambda: mgr.shutdown(), name='shutdown').start()
        if not _await(obs, sh.done.is_set, 'shutdown'):
            return
        obs.shutdown_exc = sh.exc
        log.add('shutdown.end', error=repr(sh.exc) if sh.exc else None)
        _post_shutdown(obs)
    elif mode in ('kbi_result', 'kbi_shutdown', 'kbi_exit'):
        _drive_kbi(obs, mgr, xfers, spec, mode, start_results)
    elif mode in ('shutdown_cancel', 'with_exc', 'with_kbi', 'shutdown_plain'):
        # wait for the trigger (a director cancel point signalling the main
        # thread) or, without one, go straight away
        trig = spec.get('trigger', 'immediate')
        if trig == 'event':
            def trig_or_done():
                return obs.main_cancel_request.is_set() or all(
                    x.future is None or x.future.done() for x in xfers)
            if not _await(obs, trig_or_done, 'trigger'):
                return
        msg = spec.get('cancel_msg', 'bye')
        if mode != 'shutdown_plain':
            ev = log.add('cancel.begin', how=mode, msg=msg)
            obs.cancel_events.append(ev)
        w.director.cancel_began = True

        def leave():
            if mode == 'shutdown_cancel':
                mgr.shutdown(cancel=True, cancel_msg=msg)
            elif mode == 'shutdown_plain':
                mgr.shutdown()
            elif mode == 'with_exc':
                cls = with_exc_class(spec)
                exc = with_exc_instance(spec, msg)
                try:
                    with mgr:
                        raise exc
                except BaseException as e:  # noqa
                    if type(e) is not cls:
                        raise
            elif mode == 'with_kbi':
                try:
                    with mgr:
                        raise KeyboardInterrupt()
                except KeyboardInterrupt:
                    pass

        log.add('shutdown.begin')
        sh = watchdog.Obligation(leave, name='shutdown').start()
        ok = _await(obs, sh.done.is_set, 'shutdown')
        if not ok:
            return
        obs.shutdown_exc = sh.exc
        obs.done_at_barrier = {x.label: (x.future.done() if x.future is not None else None) for x in xfers}
        log.add('shutdown.end', error=repr(sh.exc) if sh.exc else None)
        if mode != 'shutdown_plain':
            log.add('cancel.end', how=mode)
        _post_shutdown(obs)
        # after the barrier every future must already be done: result() must not block
        obl = start_results()
        if not _await(obs, lambda: all(o.done.is_set() for o in obl), 'result-after-shutdown'):
            _record_outcomes(xfers)
            return
        _record_outcomes(xfers)


class VfBaseException(BaseException):
    """A BaseException that is neither an Exception nor a KeyboardInterrupt (like asyncio.CancelledError or a framework's own)."""


def with_exc_instance(spec, msg):
    """The exception object a 'with_exc' run raises inside the with-block.  Its MESSAGE is str(exception) - not necessarily its first
    argument: OSError(errno, text, filename), KeyError (quotes its key), exceptions with several arguments."""
    t = spec.get('with_exc_type')
    if t == 'oserror3':
        return FileNotFoundError(2, msg or 'No such file or directory', 'some-file')
    if t == 'keyerror':
        return KeyError(msg)
    if t == 'multiarg':
        return ValueError(msg, 42)
    return with_exc_class(spec)(msg)


def with_exc_class(spec):
    """The exception type a 'with_exc' run raises inside the with-block: a non-interrupt exception of any kind."""
    from s3transfer.exceptions import CancelledError as _C, FatalError as _F

    # ('cancelled' / 'fatal': the library's own exception classes leaving the block - result() of a cancelled transfer re-raised by the
    # caller, concurrent.futures.CancelledError from user code, a FatalError of another manager's future)
    return {'systemexit': SystemExit, 'generatorexit': GeneratorExit, 'base': VfBaseException, 'cancelled': _C, 'fatal': _F,
            'oserror3': FileNotFoundError, 'keyerror': KeyError, 'multiarg': ValueError}.get(
        spec.get('with_exc_type'), ValueError)


class _ProbeTask:
    transfer_id = 'vf-probe'

    def __init__(self, gate):
        self.gate = gate

    def __call__(self, ctx=None):
        self.gate.wait()


def capacity_probe(mgr, cfg):
    """Behavioural permit-conservation probe: each stage / tag semaphore must
    accept exactly its configured number of gate-blocked no-op tasks with
    block=False and refuse the next one."""
    from s3transfer.futures import IN_MEMORY_DOWNLOAD_TAG, IN_MEMORY_UPLOAD_TAG
    from s3transfer.utils import NoResourcesAvailable

    plan = [
        ('request', mgr._request_executor, None, cfg.max_request_queue_size),
        ('submission', mgr._submission_executor, None, cfg.max_submission_queue_size),
        ('io', mgr._io_executor, None, cfg.max_io_queue_size),
        ('in_memory_upload', mgr._request_executor, IN_MEMORY_UPLOAD_TAG, cfg.max_in_memory_upload_chunks),
        ('in_memory_download', mgr._request_executor, IN_MEMORY_DOWNLOAD_TAG, cfg.max_in_memory_download_chunks),
    ]
    out = {}
    for name, ex, tag, expected in plan:
        gate = threading.Event()
        futs = []
        accepted = 0
        try:
            while accepted <= expected + 2:
                try:
                    futs.append(ex.submit(_ProbeTask(gate), tag=tag, block=False))
                    accepted += 1
                except NoResourcesAvailable:
                    break
        finally:
            gate.set()
            for f in futs:
                f.result()
        out[name] = (accepted, expected)
    return out


def _settle(w, budget=10.0):
    """Let everything that can still run, run: quiescent AND nothing held by the harness itself.  (A thread parked at a gate that the
    - possibly starved - gate thread has not opened yet, or at a pause window, is not "everything has run".)  Returns whether that
    state was reached within the (wall-clock, generous) budget; False means inconclusive for whatever is judged afterwards."""
    ok = False
    with watchdog.polling():
        end = time.monotonic() + budget
        while True:
            ok = watchdog.wait_quiescent(5.0, director=w.director, need=3)
            held = bool(w.director.parked_keys() or watchdog.PAUSED[0])
            if not held or time.monotonic() > end:
                return ok and not held
            time.sleep(0.002)


def _post_shutdown(obs):
    """After the barrier: let anything still alive run, then record what threads remain."""
    w = obs.world
    obs.post_quiescent = _settle(w)
    w.log.add('post.check')
    # the worker threads of THIS manager's executors (an earlier case of the same worker process that timed out may have left
    # threads with the same names behind)
    mine = [t for ex in getattr(obs.execs, 'made', ()) for t in list(getattr(ex, '_threads', ()))]
    obs.live_stage_threads = [t.name for t in mine if t.is_alive()]


def _main_thread_asleep(tid):
    try:
        with open(f'/proc/self/task/{tid}/stat', 'rb') as f:
            st = f.read().decode('ascii', 'replace')
        return st[st.rfind(')') + 2:].split()[0] == 'S'
    except OSError:
        return False


def _main_waiting_for_transfers(main_ident):
    """True while the main thread is inside TransferCoordinatorController.wait() (the part of shutdown that waits for the transfers),
    as opposed to the joins of the executors that follow it."""
    fr = sys._current_frames().get(main_ident)
    while fr is not None:
        if fr.f_code.co_name == 'wait' and fr.f_code.co_filename.endswith('manager.py'):
            return True
        fr = fr.f_back
    return False


def _past_cancel_pass(ident):
    """True once the thread running shutdown(cancel=True) has gone through the cancel pass: it is inside the wait for the transfers, or
    already in the joins of the executors that follow it."""
    fr = sys._current_frames().get(ident)
    while fr is not None:
        name, fn = fr.f_code.co_name, fr.f_code.co_filename
        if (name == 'wait' and fn.endswith('manager.py')) or (name == 'shutdown' and fn.endswith('futures.py')):
            return True
        fr = fr.f_back
    return False


def _drive_kbi(obs, mgr, xfers, spec, mode, start_results):
    """Ctrl-C while the user (this process' main thread) is blocked in result() / shutdown(): a real SIGINT is
    delivered with pthread_kill once the main thread is asleep inside the call.  Must run on the main thread."""
    import vf

    w = obs.world
    log = w.log
    if threading.current_thread() is not threading.main_thread():
        obs.kbi = {'skipped': 'not on the main thread'}
        return
    main_tid = threading.get_native_id()
    main_ident = threading.main_thread().ident
    state = {'in_call': False, 'returned': False, 'sent': False}
    lock = threading.Lock()
    stop = threading.Event()

    def sender():
        trig = spec.get('trigger', 'immediate')
        with watchdog.polling():
            while not stop.is_set():
                if trig == 'event' and not obs.main_cancel_request.is_set() and not all(
                        x.future is None or x.future.done() for x in xfers):
                    time.sleep(0.0005)
                    continue
                if state['in_call'] and _main_thread_asleep(main_tid):
                    time.sleep(0.002)
                    if spec.get('kbi_only_in_wait') and not _main_waiting_for_transfers(main_ident):
                        # the interrupt is only delivered while the exit is waiting for the transfers themselves; the main thread
                        # is past that (in the joins): no interrupt in this run, and gates waiting for one are opened
                        w.director.cancel_began = True
                        state['skipped'] = True
                        return
                    if ((spec.get('plan') or {}).get('gate') or {}).get('after_cancel_begin') and not state.get('all_parked'):
                        # the gates open only once the interrupt has begun: wait until every thread has run as far as it can (parked
                        # at a gate or blocked), so that "no request begins after the interrupt" can be judged
                        state['all_parked'] = bool(watchdog.wait_quiescent(5.0, director=w.director, need=3))
                    if _main_thread_asleep(main_tid):
                        with lock:
                            if not state['returned'] and not state['sent']:
                                state['sent'] = True
                                ev = log.add('cancel.begin', how=mode)
                                obs.cancel_events.append(ev)
                                w.director.cancel_began = True
                                signal.pthread_kill(main_ident, signal.SIGINT)
                        return
                time.sleep(0.0005)

    def guard():
        # the main thread itself is the obligation here: if it deadlocks nobody else can report it
        r = watchdog.await_or_deadlock(lambda: state['returned'], w.director, log, wall_timeout=spec.get('wall_timeout', 30.0))
        if r != 'done':
            obs.hang = r
            obs.hang_what = mode
            obs.stacks = watchdog.all_stacks()
            obs.events = log.snapshot()
            from . import e2e

            res = e2e.hang_result(obs, True)
            if r == 'deadlock':
                from .oracles import V

                res['verdict'] = 'violated'
                res['violations'] = [V(f'deadlock: Ctrl-C while blocked in {mode.split("_")[1]}() never returned; blocked in '
                                       f'{e2e.lib_frames(obs.stacks)}', sym='deadlock', blocked_call=mode, entry=mode)]
            vf.fatal_emit(res)

    threading.Thread(target=sender, name='vf-sigint-sender', daemon=True).start()
    threading.Thread(target=guard, name='vf-kbi-guard', daemon=True).start()
    got = {'kbi': False, 'exc': None, 'late_kbi': False}
    try:
        try:
            state['in_call'] = True
            if mode == 'kbi_result':
                log.add('result.call', label=xfers[0].label)
                xfers[0].future.result()
            elif mode == 'kbi_exit':
                # the with-block ended normally; Ctrl-C arrives while __exit__ waits for the unfinished transfers
                log.add('shutdown.begin')
                mgr.__exit__(None, None, None)
            else:
                log.add('shutdown.begin')
                mgr.shutdown()
        except KeyboardInterrupt as ke:
            got['kbi'] = True
            # where the interrupt found the main thread: inside the wait for the transfers, or already in the joins of the
            # executors that follow it (an interrupt there aborts the joins by nature)
            names = []
            tb = ke.__traceback__
            while tb is not None:
                names.append((os.path.basename(tb.tb_frame.f_code.co_filename), tb.tb_frame.f_code.co_name))
                tb = tb.tb_next
            got['where'] = 'wait' if ('manager.py', 'wait') in names else ('result' if ('futures.py', 'result') in names else 'joins')
        except BaseException as e:  # noqa
            got['exc'] = e
        with lock:
            state['returned'] = True
    except KeyboardInterrupt:
        got['late_kbi'] = True
        state['returned'] = True
    stop.set()
    log.add('cancel.end', how=mode, kbi=got['kbi'])
    obs.kbi = dict(got, sent=state['sent'], all_parked=bool(state.get('all_parked')))
    if mode in ('kbi_shutdown', 'kbi_exit'):
        obs.done_at_barrier = {x.label: (x.future.done() if x.future is not None else None) for x in xfers}
        log.add('shutdown.end', error='KeyboardInterrupt' if got['kbi'] else None)
        _post_shutdown(obs)
    obl = start_results()
    if not _await(obs, lambda: all(o.done.is_set() for o in obl), 'result-after-kbi'):
        _record_outcomes(xfers)
        return
    _record_outcomes(xfers)
    if mode == 'kbi_result':
        log.add('shutdown.begin')
        sh = watchdog.Obligation(lambda: mgr.shutdown(), name='shutdown').start()
        if not _await(obs, sh.done.is_set, 'shutdown'):
            return
        obs.shutdown_exc = sh.exc
        log.add('shutdown.end', error=repr(sh.exc) if sh.exc else None)
        _post_shutdown(obs)


def _record_outcomes(xfers):
    for x in xfers:
        o = x.result_ob
        if o is not None and o.done.is_set():
            kind, val = o.result
            x.outcome = kind
            if kind == 'raised':
                x.exc = val
            else:
                x.result = val


def cleanup(obs):
    if getattr(obs, 'stop_poll', None) is not None:
        obs.stop_poll.set()
    if getattr(obs, 'dirwatch', None) is not None:
        obs.dirwatch.close()
    if getattr(obs, 'prev_cwd', None) is not None:
        try:
            os.chdir(obs.prev_cwd)
        except OSError:
            os.chdir('/')
        obs.prev_cwd = None
    shutil.rmtree(obs.tmpdir, ignore_errors=True)


def lib_path(x, p):
    """The path string handed to the library for the harness's absolute path `p`."""
    rel = x.spec.get('relative')
    if not rel or not isinstance(p, str):
        return p
    r = os.path.relpath(p)
    return os.path.join(os.curdir, r) if rel == 'dot' else r


def describe_outcome(x):
    if x.submit_exc is not None:
        return f'submit-raised:{x.submit_exc!r}'
    if x.outcome == 'raised':
        return f'raised:{type(x.exc).__name__}:{str(x.exc)[:80]}'
    return str(x.outcome)
