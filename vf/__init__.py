"""Runtime-monitoring framework for boto/s3transfer (see /verif/DESIGN.md).

The code under test is imported from the repository's working tree.  By default
that is /repo (installed editable into /venv); the self-test and seeded-change
runs point VERIF_REPO at a scratch copy instead.
"""
import os
import sys

REPO = os.environ.get('VERIF_REPO', '/repo')
if REPO not in sys.path[:1]:
    sys.path.insert(0, REPO)

VERIF_DIR = os.path.dirname(os.path.dirname(os.path.abspath(__file__)))


def check_repo_import():
    import s3transfer

    got = os.path.realpath(os.path.dirname(os.path.dirname(s3transfer.__file__)))
    want = os.path.realpath(REPO)
    if got != want:
        raise RuntimeError(f's3transfer imported from {got}, expected {want}')
    return got
