"""Runtime-monitoring framework for boto/s3transfer (see /verif/DESIGN.md).

The code under test is imported from the repository's working tree.  By default
that is /repo (installed editable into /venv); the self-test and seeded-change
runs point VERIF_REPO at a scratch copy instead.
"""
import os
import sys

REPO = os.environ.get('VERIF_REPO', '/repo')
if REPO not in sys.path[:1]:
    sys.path.insert(0, REPO)

VERIF_DIR = os.path.dirname(os.path.dirname(os.path.abspath(__file__)))


def check_repo_import():
    import s3transfer

    got = os.path.realpath(os.path.dirname(os.path.dirname(s3transfer.__file__)))
    want = os.path.realpath(REPO)
    if got != want:
        raise RuntimeError(f's3transfer imported from {got}, expected {want}')
    return got

CURRENT = None  # set by vf.worker: lets a watchdog thread report a fatal verdict when the main thread itself is stuck


def fatal_emit(result):
    """Report ``result`` for the current case from any thread and end the worker (threads cannot be killed)."""
    import json

    from .events import jsonable

    if CURRENT is None:
        print('FATAL', json.dumps(jsonable(result), default=repr)[:2000])
        os._exit(3)
    result = dict(result)
    result.pop('fatal', None)
    CURRENT['emit']({'idx': CURRENT['idx'], 'result': jsonable(result)})
    try:
        CURRENT['out'].close()
    except Exception:
        pass
    os._exit(3)
