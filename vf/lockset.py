"""Lockset monitor (Eraser-style, restricted to one lock): state that an object only ever touches while holding ITS OWN lock must
not be written by a thread that does not hold that lock - whether or not the threads happen to collide in this run.  The check runs
at the write itself, with the lock the code itself uses; it engages only where that lock is found under the expected (private) name
and is a plain lock, otherwise the monitor does not apply and says so (applied=False)."""
import threading


class OwnerLock:
    """A lock that knows which thread holds it."""

    def __init__(self):
        self._l = threading.Lock()
        self.owner = None

    def acquire(self, *a, **k):
        r = self._l.acquire(*a, **k)
        if r:
            self.owner = threading.get_ident()
        return r

    def release(self):
        self.owner = None
        self._l.release()

    def __enter__(self):
        self.acquire()
        return self

    def __exit__(self, *a):
        self.release()

    def locked(self):
        return self._l.locked()

    def held_by_me(self):
        return self.owner == threading.get_ident()


class _GuardedDict(dict):
    def _chk(self, op):
        g = self._vf_guard
        if not g['held']():
            g['violations'].append((g['what'], f'{self._vf_name}[{op}]', threading.current_thread().name))
        g['count'][0] += 1

    def __setitem__(self, k, v):
        self._chk('set')
        dict.__setitem__(self, k, v)

    def __delitem__(self, k):
        self._chk('del')
        dict.__delitem__(self, k)

    def pop(self, *a):
        self._chk('pop')
        return dict.pop(self, *a)


def guard(obj, held, violations, what, count):
    """From now on every attribute assignment on obj (and every store into / removal from its plain-dict attributes) is checked:
    ``held()`` must be true in the writing thread."""
    base = obj.__class__
    g = {'held': held, 'violations': violations, 'what': what, 'count': count}

    def __setattr__(self, name, value):
        if not held():
            violations.append((what, name, threading.current_thread().name))
        count[0] += 1
        base.__setattr__(self, name, value)

    obj.__class__ = type(base.__name__, (base,), {'__setattr__': __setattr__})
    for k, v in list(vars(obj).items()):
        if type(v) is dict:
            d = _GuardedDict(v)
            d._vf_guard = g
            d._vf_name = k
            base.__setattr__(obj, k, d)


def is_plain_lock(x):
    return isinstance(x, (type(threading.Lock()), type(threading.RLock())))


def attach_to_sliding_semaphore(sem):
    """Lockset monitor for a SlidingWindowSemaphore: its counters and per-tag tables may only be written by the thread holding the
    semaphore's lock.  Engages only where the lock is found as ``_lock`` (a plain lock) with the condition ``_condition`` built on
    it; returns the monitor's state ({'violations': [...], 'count': [n]}) or None."""
    if not is_plain_lock(getattr(sem, '_lock', None)) or not isinstance(getattr(sem, '_condition', None), threading.Condition):
        return None
    ol = OwnerLock()
    st = {'violations': [], 'count': [0]}
    sem._lock = ol
    sem._condition = threading.Condition(ol)
    guard(sem, ol.held_by_me, st['violations'], 'semaphore', st['count'])
    return st
