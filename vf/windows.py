"""Line-level race windows: every statement line of the concurrency-relevant functions of
s3transfer is a place where a thread can be preempted.  A window case pauses the nth thread
that reaches the line until every other thread has run as far as it can ('pause'), or runs
a cancel concurrently while the thread sits there ('cancel')."""
import re

FILES = ['futures.py', 'tasks.py', 'utils.py', 'download.py', 'upload.py', 'manager.py', 'copies.py', 'delete.py']
INCLUDE = [
    r'^TransferCoordinator\.(?!__init__|__repr__)', r'^BoundedExecutor\.submit', r'^TransferFuture\.', r'^ExecutorFuture\.',
    r'^Task\.(__call__|_execute_main|_wait|_get_all_main_kwargs|_log_and_set_exception)', r'^SubmissionTask\.', r'^CreateMultipartUploadTask\._main',
    r'^CompleteMultipartUploadTask\._main', r'^CountCallbackInvoker\.(?!__init__)', r'^SlidingWindowSemaphore\.(?!__init__)', r'^TaskSemaphore\.(?!__init__)',
    r'^ReadFileChunk\.(read|seek|close|signal|enable|disable)', r'^DeferredOpenFile\.(?!__init__)', r'^DownloadNonSeekableOutputManager\.(?!__init__)',
    r'^DownloadOutputManager\.(?!__init__)', r'^DownloadSubmissionTask\._submit', r'^GetObjectTask\._', r'^ImmediatelyWriteIOGetObjectTask\._',
    r'^DeferQueue\.(?!__init__)', r'^IO\w+Task\._main', r'^DownloadChunkIterator\.__next__', r'^DownloadFilenameOutputManager\.(?!__init__)',
    r'^UploadSubmissionTask\._submit', r'^Upload\w+InputManager\.(yield_upload_part_bodies|_read|get_put_object_body|_wrap)', r'^AggregatedProgressCallback\.(?!__init__)',
    r'^PutObjectTask\._main', r'^UploadPartTask\._main', r'^InterruptReader\.read', r'^TransferManager\.(_submit_transfer|_shutdown|shutdown|__exit__)',
    r'^TransferCoordinatorController\.(?!__init__)', r'^CopySubmissionTask\._submit', r'^CopyObjectTask\._main', r'^CopyPartTask\._main',
    r'^DeleteSubmissionTask\._submit', r'^DeleteObjectTask\._main', r'^StreamReaderProgress\.read', r'^invoke_progress_callbacks',
]
_cache = {}


def candidate_lines(files=None):
    from . import yieldinj
    import s3transfer.manager  # noqa: F401  (loads the modules)
    import s3transfer.delete  # noqa: F401

    key = tuple(files or FILES)
    if key not in _cache:
        pats = [re.compile(p) for p in INCLUDE]
        _cache[key] = [(f, ln, q) for (f, ln, q) in yieldinj.all_lines(list(key)) if any(p.search(q) for p in pats)]
    return _cache[key]


def sample(rng, n, action='pause', files=None, nth_max=3, quals=None):
    lines = candidate_lines(files)
    if quals:
        qp = [re.compile(q) for q in quals]
        lines = [l for l in lines if any(p.search(l[2]) for p in qp)]
    out = []
    for _ in range(n):
        f, ln, q = rng.choice(lines)
        w = {'file': f, 'lineno': ln, 'name': f'{f}:{ln}:{q}', 'nth': rng.randrange(0, nth_max), 'wait': 0.05 if action != 'pause' else 0.2}
        if action == 'pause':
            w['action'] = 'pause'
        out.append(w)
    return out


CORE = [r'^TransferCoordinator\.(?!__init__|__repr__)', r'^Task\.(__call__|_execute_main)', r'^SubmissionTask\._main', r'^CountCallbackInvoker\.(?!__init__)',
        r'^SlidingWindowSemaphore\.(?!__init__)', r'^BoundedExecutor\.submit', r'^DeferQueue\.(?!__init__)',
        r'^DownloadNonSeekableOutputManager\.(?!__init__)', r'^AggregatedProgressCallback\.(?!__init__)',
        r'^TransferCoordinatorController\.(?!__init__)']

DL = [('download', {'dst': 'path'}), ('download', {'dst': 'seekable'}), ('download', {'dst': 'nonseekable'}), ('download', {'dst': 'fifo'})]
NS = [('download', {'dst': 'nonseekable'}), ('download', {'dst': 'fifo'})]
UP = [('upload', {'src': 'path'}), ('upload', {'src': 'seekable'}), ('upload', {'src': 'nonseekable'})]
CP = [('copy', {})]


def kinds_for(f, qual):
    """Transfer kinds (and whether multipart is needed) that can reach a line of this function."""
    from .gen import KINDS

    if qual.startswith(('CountCallbackInvoker', )):
        return DL, True
    if qual.startswith(('SlidingWindowSemaphore', 'DeferQueue', 'DownloadNonSeekableOutputManager')):
        return NS, True
    if qual.startswith('AggregatedProgressCallback'):
        return UP, None
    if f == 'download.py':
        return DL, None
    if f == 'upload.py':
        return UP, None
    if f == 'copies.py':
        return CP, None
    if f == 'delete.py':
        return [('delete', {})], None
    return KINDS, None


def core_lines():
    pats = [re.compile(p) for p in CORE]
    return [l for l in candidate_lines() if any(p.search(l[2]) for p in pats)]


def make_case(rng, line, action, nth=None):
    """A single-transfer scenario spec aimed at one line."""
    f, ln, q = line
    kinds, multi = kinds_for(f, q)
    kind, extra = rng.choice(kinds)
    if multi is None:
        multi = rng.random() < 0.7
    size = rng.choice([20, 27, 33]) if multi else 5
    t = dict({'kind': kind, 'size': size}, **extra)
    cfg = dict(multipart_threshold=16, multipart_chunksize=8, io_chunksize=4, max_request_concurrency=rng.choice([1, 2, 3]),
               max_in_memory_download_chunks=rng.choice([1, 2]), max_io_queue_size=rng.choice([1, 1000]))
    w = {'file': f, 'lineno': ln, 'name': f'{f}:{ln}:{q}', 'nth': rng.randrange(0, 3) if nth is None else nth,
         'wait': 0.2 if action == 'pause' else 0.05, 'target': 0}
    if action == 'pause':
        w['action'] = 'pause'
    return {'seed': rng.randrange(1 << 30), 'min_part': 8, 'config': cfg, 'transfers': [t], 'yield': {'p': rng.choice([0.0, 0.05]), 'window': w}}


def cases(rng, action, n_random, core_reps=1, nths=(0, 1), all_lines=False):
    out = []
    if all_lines:
        # every statement line of every concurrency-relevant function x every nth: a systematic one-preemption sweep at line
        # granularity (core lines get extra repetitions with different kinds / configurations)
        core = set(core_lines())
        for line in candidate_lines():
            for nth in nths:
                for _ in range(core_reps if line in core else 1):
                    out.append(make_case(rng, line, action, nth))
        return out
    for line in core_lines():
        for nth in nths:
            for _ in range(core_reps):
                out.append(make_case(rng, line, action, nth))
    rest = candidate_lines()
    for _ in range(n_random):
        out.append(make_case(rng, rng.choice(rest), action))
    return out


def rmw_cases(rng, nths=(0, 1, 2), reps=1, files=None):
    """One preemption INSIDE every read-modify-write statement on shared state (``self._count -= 1`` ...): the nth thread to execute
    the statement is held after it has read the old value and before it stores the new one, until every other thread has run as
    far as it can.  Where the statement is protected by its lock nothing happens; where it is not, an update is lost."""
    from . import yieldinj
    import s3transfer.manager  # noqa: F401
    import s3transfer.delete  # noqa: F401

    out = []
    for site in yieldinj.rmw_sites(list(files or FILES)):
        f, ln, q = site
        if q.startswith(('ReadFileChunk.', 'DownloadChunkIterator.', 'AggregatedProgressCallback.')):
            continue  # per-request objects used by one thread at a time
        for nth in nths:
            for _ in range(reps):
                sp = make_case(rng, site, 'pause', nth)
                sp['yield']['window']['rmw'] = True
                sp['yield']['window']['name'] = 'rmw:' + sp['yield']['window']['name']
                sp['yield']['p'] = 0.0
                sp['config']['max_request_concurrency'] = rng.choice([2, 3, 4])
                if q.startswith('TransferManager.'):
                    # the id counter: several user threads submitting at once
                    sp['transfers'] = [dict(sp['transfers'][0]) for _ in range(3)]
                    sp['concurrent_submit'] = True
                out.append(sp)
    return out
