"""Offline bound monitors over the event log (C10, C11).

Every measured quantity is a lower bound of the quantity the code bounds
(intervals are observed inside the true call intervals; the counting
executor decrements before the permit is returned), so an alarm means the
real quantity exceeded the limit too."""
from .oracles import V

DATA_OPS = {'PutObject', 'GetObject', 'CopyObject', 'DeleteObject', 'UploadPart', 'UploadPartCopy', 'CreateMultipartUpload',
            'CompleteMultipartUpload'}


def call_intervals(obs):
    """call_id -> dict(op, label, begin, end, thread, stage).  end = api.ret, or the last body event for GetObject."""
    calls = {}
    for e in obs.events:
        k = e['kind']
        cid = e.get('call_id')
        if cid is None:
            continue
        if k == 'api.begin':
            calls[cid] = {'op': e['op'], 'label': e['label'], 'begin': e['n'], 'end': None, 'thread': e['thread'], 'stage': e['stage'],
                          'disc': e.get('disc')}
        elif cid in calls:
            if k == 'api.ret':
                c = calls[cid]
                c['end'] = max(c['end'] or 0, e['n'])
            elif k in ('body.read', 'body.end'):
                c = calls[cid]
                c['end'] = max(c['end'] or 0, e['n'])
    return calls


def max_overlap(intervals):
    pts = []
    for (b, e) in intervals:
        if e is None:
            e = 10 ** 12
        pts.append((b, 1))
        pts.append((e, -1))
    pts.sort(key=lambda p: (p[0], p[1]))
    cur = best = 0
    for _, d in pts:
        cur += d
        best = max(best, cur)
    return best


def concurrency_oracle(obs):
    viol = []
    cfg = obs.config
    calls = call_intervals(obs)
    data = [c for c in calls.values() if c['op'] in DATA_OPS]
    heads = [c for c in calls.values() if c['op'] == 'HeadObject']
    m_data = max_overlap([(c['begin'], c['end']) for c in data])
    m_head = max_overlap([(c['begin'], c['end']) for c in heads])
    stats = {'max_inflight_data': m_data, 'max_inflight_head': m_head,
             'reached_request_concurrency': int(m_data >= cfg.max_request_concurrency),
             'reached_submission_concurrency': int(m_head >= cfg.max_submission_concurrency),
             'data_requests': len(data), 'head_requests': len(heads)}
    if m_data > cfg.max_request_concurrency:
        viol.append(V(f'{m_data} transfer requests in flight at once; max_request_concurrency={cfg.max_request_concurrency}',
                      sym='request-concurrency', limit='max_request_concurrency'))
    if m_head > cfg.max_submission_concurrency:
        viol.append(V(f'{m_head} size-discovery requests in flight at once; max_submission_concurrency={cfg.max_submission_concurrency}',
                      sym='submission-concurrency', limit='max_submission_concurrency'))
    for c in data:
        if c['stage'] != 'request':
            viol.append(V(f'{c["op"]} for {c["label"]} issued from thread {c["thread"]} (stage {c["stage"]}), not a request-stage worker',
                          sym='wrong-stage', op=c['op'], stage=c['stage']))
            break
    for c in heads:
        if c['stage'] != 'submission':
            viol.append(V(f'HeadObject for {c["label"]} issued from thread {c["thread"]} (stage {c["stage"]}), not the submission stage',
                          sym='wrong-stage', op='HeadObject', stage=c['stage']))
            break
    return viol, stats


def write_order_oracle(obs):
    viol = []
    stats = {'writes': 0, 'io_tasks': 0}
    for x in obs.xfers:
        if x.kind != 'download':
            continue
        sink = x.dest if not isinstance(x.dest, str) else None
        if sink is not None and sink.overlap:
            viol.append(V(f'{x.label}: two threads inside the destination\'s write() at once ({sink.overlap[:3]})', sym='concurrent-writers'))
        threads = {e['thread'] for e in obs.events if e.get('label') == x.label and e['kind'] in ('dst.write', 'fs.write')}
        stats['writes'] += len([e for e in obs.events if e.get('label') == x.label and e['kind'] in ('dst.write', 'fs.write')])
        stages = {e['stage'] for e in obs.events if e.get('label') == x.label and e['kind'] in ('dst.write', 'fs.write')}
        bad = stages - {'io', 'request'}
        if bad:
            viol.append(V(f'{x.label}: destination written from stage(s) {sorted(map(str, bad))}', sym='write-wrong-stage'))
        if 'request' in stages and x.spec.get('size', 0) >= obs.config.multipart_threshold:
            viol.append(V(f'{x.label}: ranged download wrote to its destination from a request thread', sym='write-wrong-stage'))
    if getattr(obs.osutil, 'overlap', None):
        viol.append(V(f'two threads inside a destination file\'s write() at once ({obs.osutil.overlap[:3]})', sym='concurrent-writers'))
    # the IO stage runs one task at a time, in the order tasks were queued
    starts = [e for e in obs.events if e['kind'] == 'exec.start' and e.get('stage_of') == 'io']
    fins = {e['seq']: e['n'] for e in obs.events if e['kind'] == 'exec.finish' and e.get('stage_of') == 'io'}
    stats['io_tasks'] = len(starts)
    for a, b in zip(starts, starts[1:]):
        if b['seq'] < a['seq']:
            viol.append(V(f'IO task {b["seq"]} ran before IO task {a["seq"]} queued earlier', sym='io-out-of-order'))
            break
        if fins.get(a['seq'], 10 ** 12) > b['n']:
            viol.append(V(f'IO tasks {a["seq"]} and {b["seq"]} ran concurrently', sym='io-concurrent'))
            break
    return viol, stats


def occupancy_oracle(obs):
    viol = []
    cfg = obs.config
    stats = {}
    limits = {
        'request': cfg.max_request_queue_size + cfg.max_in_memory_upload_chunks + cfg.max_in_memory_download_chunks,
        'submission': cfg.max_submission_queue_size,
        'io': cfg.max_io_queue_size,
    }
    for ex in obs.execs.made:
        lim = limits.get(ex.stage)
        stats[f'max_outstanding_{ex.stage}'] = ex.max_outstanding
        if lim is None:
            continue
        stats[f'reached_{ex.stage}_queue'] = int(ex.max_outstanding >= lim)
        if ex.max_outstanding > lim:
            viol.append(V(f'{ex.max_outstanding} queued-or-running tasks in the {ex.stage} stage; limit {lim}', sym='queue-overrun',
                          stage=ex.stage))
        if ex.max_workers_cfg is not None:
            want = {'request': cfg.max_request_concurrency, 'submission': cfg.max_submission_concurrency, 'io': 1}[ex.stage]
            if ex.max_workers_cfg != want:
                viol.append(V(f'{ex.stage} stage built with {ex.max_workers_cfg} worker threads; configured {want}', sym='wrong-pool-size',
                              stage=ex.stage))
    # tasks governed by an in-memory limit: when every download goes to a non-seekable destination all GetObjectTasks are
    # window-limited; when every upload reads from a stream all UploadPartTasks are limited by max_in_memory_upload_chunks
    req = [ex for ex in obs.execs.made if ex.stage == 'request']
    if req:
        ex = req[0]
        dls = [x for x in obs.xfers if x.kind == 'download']
        if dls and all(x.spec.get('dst') in ('nonseekable', 'fifo') for x in dls):
            m = ex.max_by_type.get('GetObjectTask', 0)
            stats['max_tagged_get_tasks'] = m
            if m > cfg.max_in_memory_download_chunks:
                viol.append(V(f'{m} window-limited GetObject tasks queued-or-running at once; max_in_memory_download_chunks='
                              f'{cfg.max_in_memory_download_chunks}', sym='tag-overrun', tag='in_memory_download'))
        ups = [x for x in obs.xfers if x.kind == 'upload']
        if ups and all(x.spec.get('src') in ('seekable', 'nonseekable') for x in ups):
            m = ex.max_by_type.get('UploadPartTask', 0)
            stats['max_tagged_part_tasks'] = m
            if m > cfg.max_in_memory_upload_chunks:
                viol.append(V(f'{m} in-memory UploadPart tasks queued-or-running at once; max_in_memory_upload_chunks='
                              f'{cfg.max_in_memory_upload_chunks}', sym='tag-overrun', tag='in_memory_upload'))
    # "a submitter blocks, rather than fails ..., while a stage is full": a hand-over refused for lack of room shows as
    # NoResourcesAvailable escaping the task that tried it
    for e in obs.events:
        if e['kind'] == 'exec.finish' and e.get('escaped') and 'NoResourcesAvailable' in e['escaped']:
            viol.append(V(f'a {e.get("task")} of the {e.get("stage_of")} stage was refused a hand-over to a full stage ({e["escaped"]}) instead of '
                          f'waiting for room', sym='submit-refused', stage=e.get('stage_of')))
            break
    # untagged request tasks alone must respect max_request_queue_size: count by task type
    for x in obs.xfers:
        e = x.submit_exc or (x.exc if x.outcome == 'raised' else None)
        if e is not None and type(e).__name__ == 'NoResourcesAvailable':
            viol.append(V(f'{x.label}: NoResourcesAvailable surfaced to the user', sym='no-resources-surfaced'))
    return viol, stats


# ------------------------------------------------------------------------ C11
def pending_io_bytes_oracle(obs):
    """Data sitting in destination writes that are queued or running: at most max_io_queue_size chunks of io_chunksize (whole run)."""
    viol = []
    cfg = obs.config
    bound = cfg.max_io_queue_size * cfg.io_chunksize
    stats = {'io_write_tasks_sized': 0, 'max_pending_io_bytes': 0, 'max_io_task_bytes': 0}
    pending = {}
    cur = 0
    for e in obs.events:
        if e.get('stage_of') != 'io':
            continue
        if e['kind'] == 'exec.submit' and e.get('nbytes') is not None:
            stats['io_write_tasks_sized'] += 1
            pending[e['seq']] = e['nbytes']
            cur += e['nbytes']
            stats['max_io_task_bytes'] = max(stats['max_io_task_bytes'], e['nbytes'])
            if cur > stats['max_pending_io_bytes']:
                stats['max_pending_io_bytes'] = cur
                if cur > bound and not viol:
                    viol.append(V(f'{cur} bytes sit in {len(pending)} queued-or-running destination writes (largest single write {max(pending.values())} bytes); '
                                  f'documented bound max_io_queue_size x io_chunksize = {cfg.max_io_queue_size} x {cfg.io_chunksize} = {bound}',
                                  sym='pending-io-bytes-overrun', oversized_write=max(pending.values()) > cfg.io_chunksize))
        elif e['kind'] == 'exec.finish' and e.get('seq') in pending:
            cur -= pending.pop(e['seq'])
    stats['reached_io_bytes_bound'] = int(stats['max_pending_io_bytes'] >= bound)
    return viol, stats


def upload_buffer_oracle(obs):
    """bytes read from user streams by the submission stage minus bytes whose
    part / put request has returned."""
    viol = []
    cfg = obs.config
    unit = max(cfg.multipart_chunksize, cfg.multipart_threshold)
    bound = (cfg.max_in_memory_upload_chunks + cfg.max_submission_concurrency) * unit
    stream_labels = {x.label for x in obs.xfers if x.kind == 'upload' and x.spec.get('src') in ('seekable', 'nonseekable')}
    stats = {'max_buffered_upload_bytes': 0, 'upload_bound': bound, 'max_single_read': 0, 'stream_uploads': len(stream_labels)}
    if not stream_labels:
        return viol, stats
    calls = call_intervals(obs)
    size_of = {}
    for c in obs.world.s3.calls.values():
        if c['op'] in ('PutObject', 'UploadPart') and c.get('received') is not None:
            size_of[c['call_id']] = len(c['received'])
    first_trouble = min([e['n'] for e in obs.events if e['kind'] in ('fault', 'cancel.begin')], default=10 ** 12)
    cur = 0
    for e in obs.events:
        if e['n'] >= first_trouble:
            break
        if e['kind'] == 'src.read' and e.get('label') in stream_labels:
            stats['max_single_read'] = max(stats['max_single_read'], e['nbytes'])
            if e['nbytes'] > unit:
                viol.append(V(f'{e["label"]}: a single read of {e["nbytes"]} bytes from the user stream exceeds '
                              f'max(chunksize, threshold)={unit}', sym='oversized-read'))
            # (whichever thread does the reading: what was read from the stream sits in memory until its request has returned)
            cur += e['nbytes']
            if cur > stats['max_buffered_upload_bytes']:
                stats['max_buffered_upload_bytes'] = cur
            if e['stage'] != 'submission':
                stats['stream_reads_outside_submission'] = stats.get('stream_reads_outside_submission', 0) + 1
        elif e['kind'] == 'api.begin' and e.get('label') in stream_labels and e['op'] == 'UploadPart':
            pass
        elif e['kind'] == 'api.ret' and e.get('label') in stream_labels and e['op'] in ('PutObject', 'UploadPart'):
            c = calls.get(e['call_id'])
            if c is not None and c['stage'] == 'request' and e['call_id'] in size_of:
                # only buffered bodies count: seekable put_object bodies are read lazily by the request thread
                x = [x for x in obs.xfers if x.label == e['label']][0]
                if e['op'] == 'UploadPart' or x.spec.get('src') == 'nonseekable':
                    cur -= size_of[e['call_id']]
    # every part body of a stream upload IS one of the buffers: none larger than max(chunksize, threshold)  (whole run)
    stats['max_part_body'] = 0
    flagged_body = False
    for c in obs.world.s3.calls.values():
        if c['op'] == 'UploadPart' and c.get('label') in stream_labels and c.get('received') is not None:
            n = len(c['received'])
            stats['max_part_body'] = max(stats['max_part_body'], n)
            if n > unit and not flagged_body:
                flagged_body = True
                viol.append(V(f'{c["label"]}: a part body of {n} bytes was built in memory from the user stream; buffers are documented to be no larger '
                              f'than max(chunksize, threshold)={unit}', sym='oversized-part-buffer'))
    # over the WHOLE run (also after a failure or cancel, while the submission thread keeps reading): every request-stage task that
    # carries a body held in memory (UploadPartTask of stream uploads, PutObjectTask of non-seekable ones) occupies one of the
    # max_in_memory_upload_chunks slots from the moment it is handed to the stage until it has finished
    mem_tids = {}
    owners = {}
    for x in obs.xfers:
        if x.future is not None:
            owners.setdefault(x.future.meta.transfer_id, []).append(x)
    for x in obs.xfers:
        if x.label in stream_labels and x.future is not None:
            # (the manager's own id of the transfer: submission order need not be the order of the spec; calls made from several
            # threads at once can even be given the SAME id - the counter is not locked - and then the id says nothing)
            if len(owners[x.future.meta.transfer_id]) > 1:
                stats['shared_transfer_ids'] = stats.get('shared_transfer_ids', 0) + 1
                continue
            mem_tids[x.future.meta.transfer_id] = ('UploadPartTask', 'PutObjectTask') if x.spec.get('src') == 'nonseekable' else ('UploadPartTask',)
    out_now = 0
    stats['max_in_memory_body_tasks'] = 0
    flagged = False
    for e in obs.events:
        if e['kind'] in ('exec.submit', 'exec.finish') and e.get('stage_of') == 'request' and e.get('task') in mem_tids.get(e.get('tid'), ()):
            out_now += 1 if e['kind'] == 'exec.submit' else -1
            stats['max_in_memory_body_tasks'] = max(stats['max_in_memory_body_tasks'], out_now)
            if out_now > cfg.max_in_memory_upload_chunks and not flagged:
                flagged = True
                viol.append(V(f'{out_now} request-stage tasks holding an in-memory upload body are queued or running at once; '
                              f'max_in_memory_upload_chunks={cfg.max_in_memory_upload_chunks}', sym='in-memory-body-tasks-overrun',
                              after_trouble=e['n'] > first_trouble))
    stats['max_upload_bound_pct'] = int(100 * stats['max_buffered_upload_bytes'] / bound) if bound else 0
    if stats['max_buffered_upload_bytes'] > bound:
        viol.append(V(f'{stats["max_buffered_upload_bytes"]} bytes read from user streams were buffered awaiting upload; documented bound '
                      f'(max_in_memory_upload_chunks + max_submission_concurrency) * max(chunksize, threshold) = {bound}',
                      sym='upload-buffer-overrun'))
    return viol, stats


def download_window_oracle(obs):
    viol = []
    for st in getattr(obs, 'locksets', ()) or ():
        if st['violations']:
            what, name, th = st['violations'][0]
            viol.append(V(f'the in-memory download window (sliding-window semaphore) had its state ({name}) written by thread {th} without the '
                          f'semaphore\'s lock: an update lost there leaves the window one slot too wide (or too narrow) for good', sym='lockset'))
    cfg = obs.config
    win = cfg.max_in_memory_download_chunks
    C = cfg.multipart_chunksize
    stats = {'max_lookahead': 0, 'nonseekable_ranged': 0, 'reached_window': 0, 'max_alive_body_bytes': 0, 'alive_samples': 0,
             'alive_at_window': 0, 'lockset_writes_checked': sum(st['count'][0] for st in (getattr(obs, 'locksets', ()) or ()))}
    io_chunk = cfg.io_chunksize
    # response data alive inside the library: at most the window's worth of parts awaiting their turn, the pending destination
    # writes, and one chunk in the hands of each request thread and of the IO thread
    alive_bound = win * C + (cfg.max_io_queue_size + cfg.max_request_concurrency + 1) * io_chunk
    for x in obs.xfers:
        if x.kind != 'download' or x.spec.get('dst') not in ('nonseekable', 'fifo'):
            continue
        if x.spec.get('size', 0) < cfg.multipart_threshold:
            continue
        stats['nonseekable_ranged'] += 1
        finished = set()
        over = False
        superseded = 0
        retried_ranges = set()
        first_trouble = min([e['n'] for e in obs.events if e['kind'] in ('cancel.begin',)], default=10 ** 12)
        hard_fault = min([e['n'] for e in obs.events if e['kind'] == 'fault' and e.get('fkind') not in
                          ('timeout', 'connreset', 'readtimeout', 'protocol', 'incomplete')], default=10 ** 12)
        stop = min(first_trouble, hard_fault)
        for e in obs.events:
            if e['n'] >= stop:
                continue
            if e['kind'] == 'fault' and e.get('phase') == 'body' and e.get('delivered') and str(e.get('key', '')).startswith(x.label + '/'):
                # an attempt cut in the middle of a chunk leaves its short last block queued beside the full block of the retry
                # (superseded, dropped when its turn comes): one such fragment per cut is tolerated
                superseded += e['delivered'] % io_chunk
                rk = e['key'].rsplit('#', 1)[0]
                if rk not in retried_ranges:
                    # ... and the task of a range that is being retried keeps the last chunk of the failed attempt reachable
                    # through the exception it remembers (one chunk per such task, however often it retries)
                    retried_ranges.add(rk)
                    superseded += io_chunk
            if e.get('label') != x.label:
                continue
            if e['kind'] == 'body.read' and e.get('alive') is not None:
                stats['alive_samples'] += 1
                stats['max_alive_body_bytes'] = max(stats['max_alive_body_bytes'], e['alive'])
                if e['alive'] >= win * C:
                    stats['alive_at_window'] = 1
                if e['alive'] > alive_bound + superseded and not over:
                    over = True
                    viol.append(V(f'{x.label}: {e["alive"]} bytes of response data are held by the library (after {e["key"]}); the window '
                                  f'allows {win} parts of {C} (+ {alive_bound - win * C} for pending writes and chunks in hand)',
                                  sym='held-data-overrun', retried=bool([f for f in obs.events if f['kind'] == 'fault' and f['n'] < e['n']])))
            if e['kind'] == 'body.end' and e.get('how') == 'eof':
                finished.add(int(e['key'].split('GetObject:')[1].split('#')[0]) // C)
            elif e['kind'] == 'api.begin' and e['op'] == 'GetObject' and e.get('disc') not in (None, 'all'):
                i = int(e['disc']) // C
                L = 0
                while L in finished:
                    L += 1
                look = i - L
                stats['max_lookahead'] = max(stats['max_lookahead'], look)
                if look >= win:
                    viol.append(V(f'{x.label}: GetObject for part {i} began while part {L} (lowest unfinished) had not finished: '
                                  f'{look} parts ahead, max_in_memory_download_chunks={win}', sym='window-overrun'))
                    break
        if stats['max_lookahead'] >= win - 1:
            stats['reached_window'] = 1
    return viol, stats
