"""Wire-level fake S3 behind a *real* botocore client.

A ``before-send.s3`` handler fabricates the ``AWSResponse`` for every request,
so parameter validation, ``request-created`` handlers, aws-chunked trailer
checksums, ``reset_stream`` rewinds, botocore's retry loop and response parsing
all run for real.  What s3transfer passed to the client is captured at
``provide-client-params`` (exact keyword arguments).
"""
import base64
import hashlib
import io
import itertools
import random
import threading
import time
import zlib
from xml.sax.saxutils import escape

import botocore.session
from botocore.awsrequest import AWSResponse
from botocore.config import Config

from .director import (
    STREAM_KINDS,
    InjectedBase,
    InjectedError,
    InjectedOSError,
    TaggedConnClosed,
    TaggedConnReset,
    make_stream_exc,
)

WRAPPED_OPS = {'PutObject', 'GetObject', 'HeadObject', 'DeleteObject', 'CopyObject', 'CreateMultipartUpload',
               'UploadPart', 'UploadPartCopy', 'CompleteMultipartUpload', 'AbortMultipartUpload'}
_session = None
_session_lock = threading.Lock()


def get_session():
    global _session
    with _session_lock:
        if _session is None:
            _session = botocore.session.Session()
        return _session


def payload(seed, size):
    """Position-revealing pseudo-random bytes."""
    return random.Random(seed).randbytes(size)


def b64(b):
    return base64.b64encode(b).decode()


def checksum_of(algo, data):
    algo = algo.upper()
    if algo == 'CRC32':
        return b64((zlib.crc32(data) & 0xFFFFFFFF).to_bytes(4, 'big'))
    if algo == 'SHA1':
        return b64(hashlib.sha1(data).digest())
    if algo == 'SHA256':
        return b64(hashlib.sha256(data).digest())
    return None


def etag_of(data):
    return '"' + hashlib.md5(data).hexdigest() + '"'


def decode_aws_chunked(raw):
    """Return (payload, trailers dict) of an aws-chunked body."""
    pos = 0
    out = []
    while True:
        nl = raw.index(b'\r\n', pos)
        size_line = raw[pos:nl].split(b';')[0]
        size = int(size_line, 16)
        pos = nl + 2
        if size == 0:
            break
        out.append(raw[pos:pos + size])
        pos += size
        if raw[pos:pos + 2] != b'\r\n':
            raise ValueError('bad chunk terminator')
        pos += 2
    trailers = {}
    for line in raw[pos:].split(b'\r\n'):
        if line:
            k, _, v = line.partition(b':')
            trailers[k.decode().strip().lower()] = v.decode().strip()
    return b''.join(out), trailers


class _Raw(io.BytesIO):
    """Non-streaming response body."""

    def stream(self, amt=1024, decode_content=None):
        while True:
            chunk = self.read(amt)
            if not chunk:
                break
            yield chunk

    def release_conn(self):
        pass


class TrackedChunk(bytes):
    """Body data handed to the library; its lifetime (reference counting) is how long the library holds that data."""

    def __del__(self):
        tr = getattr(self, '_tr', None)
        if tr is not None:
            tr.dropped(self._label, len(self))


class ChunkTracker:
    """Bytes of response-body data currently alive inside the library, per transfer label (a lower bound of what it buffers:
    data the library copies or re-slices is no longer seen)."""

    def __init__(self):
        self.lock = threading.RLock()
        self.alive = {}
        self.peak = {}

    def wrap(self, chunk, label):
        t = TrackedChunk(chunk)
        t._label = label
        with self.lock:
            a = self.alive[label] = self.alive.get(label, 0) + len(t)
            if a > self.peak.get(label, 0):
                self.peak[label] = a
        t._tr = self
        return t, a

    def dropped(self, label, n):
        with self.lock:
            self.alive[label] = self.alive.get(label, 0) - n


class RawBody:
    """Streaming GetObject body: scripted short reads and a fault after b bytes."""

    def __init__(self, world, data, callkey, label, call_id, fault, read_caps):
        self.world = world
        self.data = data
        self.pos = 0
        self.callkey = callkey
        self.label = label
        self.call_id = call_id
        if fault is not None and fault['kind'] == 'incomplete' and fault.get('bytes', 0) >= len(data):
            fault['done'] = True  # delivering everything and then EOF is not a fault
            fault = None
        self.fault = fault
        self.read_caps = read_caps or []
        self.nreads = 0
        self.ended = False

    def _end(self, how):
        if not self.ended:
            self.ended = True
            self.world.log.add('body.end', key=self.callkey, label=self.label, call_id=self.call_id, how=how, delivered=self.pos)

    def read(self, amt=None, decode_content=None, cache_content=False):
        w = self.world
        k = self.nreads
        self.nreads += 1
        w.director.point(f'{self.callkey}.read#{k}', 'before')
        remaining = len(self.data) - self.pos
        want = remaining if amt is None else min(amt, remaining)
        if self.read_caps and want > 0:
            want = max(1, min(want, self.read_caps[k % len(self.read_caps)]))
        f = self.fault
        if f is not None and not f.get('fired'):
            cut = f.get('bytes', 0)
            if self.pos + want > cut or remaining == 0:
                want = max(0, cut - self.pos)
                if want == 0:
                    f['fired'] = True
                    w.director.note_raised(f, self.callkey, 'body', delivered=self.pos)
                    self._end('fault:' + f['kind'])
                    if f['kind'] == 'incomplete':
                        w.log.add('body.read', key=self.callkey, label=self.label, call_id=self.call_id, nbytes=0, pos=self.pos)
                        return b''
                    if f['kind'] in STREAM_KINDS:
                        raise make_stream_exc(f['kind'], f['tag'])
                    if f['kind'] == 'base':
                        raise InjectedBase(f['tag'])
                    if f['kind'] == 'oserror':
                        raise InjectedOSError(f['tag'])
                    from .director import make_special_exc

                    sp = make_special_exc(f['kind'], f['tag'])
                    if sp is not None:
                        raise sp
                    raise InjectedError(f['tag'])
        chunk = self.data[self.pos:self.pos + want]
        self.pos += len(chunk)
        alive = None
        if chunk and getattr(w, 'chunks', None) is not None:
            chunk, alive = w.chunks.wrap(chunk, self.label)
        w.log.add('body.read', key=self.callkey, label=self.label, call_id=self.call_id, nbytes=len(chunk), pos=self.pos, alive=alive)
        if not chunk and (amt is None or amt > 0):
            self._end('eof')
        w.director.point(f'{self.callkey}.read#{k}', 'after')
        return chunk

    def stream(self, amt=1024, decode_content=None):
        while True:
            c = self.read(amt)
            if not c:
                return
            yield c

    def close(self):
        self._end('close')

    def release_conn(self):
        pass


class S3Error(Exception):
    def __init__(self, status, code, msg=''):
        self.status, self.code, self.msg = status, code, msg


class FakeS3:
    def __init__(self, log, director, body_read_sizes=(8192,), get_read_caps=None):
        self.log = log
        self.director = director
        self.lock = threading.Lock()
        self.objects = {}  # (bucket, key) -> bytes  (the current version)
        self.versions = {}  # (bucket, key) -> {version id: bytes}  (older versions that can be asked for by VersionId)
        self.uploads = {}  # upload_id -> dict
        self.labels = {}  # (bucket, key) -> transfer label
        self.body_read_sizes = list(body_read_sizes)
        self.get_read_caps = get_read_caps  # list of caps, rotated per attempt
        self._ids = itertools.count(1)
        self._call_ids = itertools.count(1)
        self.tls = threading.local()
        self.calls = {}  # call_id -> record (op, params, label, thread, stage, attempts)
        self.harness_errors = []
        self.wire_errors = []  # protocol-level inconsistencies seen on uploads
        self.api_only = False  # True: short-circuit at before-call (no bodies)
        self.chunks = ChunkTracker()

    # ------------------------------------------------------------------ client
    def make_client(self, checksum_calc='when_supported', scheme='https', checksum_validation='when_supported'):
        cfg = Config(
            retries={'max_attempts': 10},
            request_checksum_calculation=checksum_calc,
            response_checksum_validation=checksum_validation,
            s3={'addressing_style': 'path'},
            parameter_validation=True,
        )
        client = get_session().create_client(
            's3',
            region_name='us-east-1',
            endpoint_url=f'{scheme}://fake-s3.invalid',
            aws_access_key_id='AKIAFAKE',
            aws_secret_access_key='secret',
            config=cfg,
        )
        self.attach(client)
        return client

    def attach(self, client):
        ev = client.meta.events
        ev.register_first('provide-client-params.s3.*', self._on_params)
        ev.register_first('before-call.s3.*', self._on_before_call)
        ev.register('before-send.s3.*', self._on_before_send)
        ev.register_first('needs-retry.s3.*', self._on_needs_retry)
        # client boundary: log the return (or raise) of every API call
        for pyname, opname in client.meta.method_to_api_mapping.items():
            if opname in WRAPPED_OPS:
                setattr(client, pyname, self._wrap_api(getattr(client, pyname), opname))

    def _wrap_api(self, fn, opname):
        def api_call(*a, **kw):
            self.tls.call = None
            try:
                r = fn(*a, **kw)
            except BaseException as e:
                rec = getattr(self.tls, 'call', None)
                if rec is not None:
                    self.log.add('api.ret', op=opname, label=rec['label'], call_id=rec['call_id'], key=rec['key'],
                                 error=repr(e)[:200], upload_id=rec['params'].get('UploadId'))
                raise
            rec = getattr(self.tls, 'call', None)
            if rec is not None:
                self.log.add('api.ret', op=opname, label=rec['label'], call_id=rec['call_id'], key=rec['key'], error=None,
                             upload_id=rec['params'].get('UploadId'))
            return r

        api_call.__name__ = getattr(fn, '__name__', opname)
        return api_call

    def label_for(self, bucket, key):
        return self.labels.get((bucket, key), key)

    # ---------------------------------------------------------------- handlers
    def _on_params(self, params, model, context, **kw):
        op = model.name
        p = dict(params)
        if isinstance(p.get('CopySource'), dict):
            p['CopySource'] = dict(p['CopySource'])  # what was passed at call time, not what the dict becomes later
        label = self.label_for(p.get('Bucket'), p.get('Key'))
        th = threading.current_thread()
        call_id = next(self._call_ids)
        rec = {
            'call_id': call_id,
            'op': op,
            'params': p,
            'label': label,
            'thread': th.name,
            'stage': getattr(th, 'vf_stage', None),
            'attempts': 0,
            'force_retry': False,
            'key': None,
        }
        self.tls.call = rec
        with self.lock:
            self.calls[call_id] = rec
        disc = self._disc(op, p)
        base = f'{label}/s3:{op}' + (f':{disc}' if disc is not None else '')
        rec['disc'] = disc
        rec['key'] = self.director.occurrence(base)
        self.log.add('api.begin', op=op, label=label, disc=disc, call_id=call_id, key=rec['key'],
                     upload_id=p.get('UploadId'), args=sorted(k for k in p if k not in ('Body',)))
        return None

    @staticmethod
    def _disc(op, p):
        if op in ('UploadPart', 'UploadPartCopy'):
            return p.get('PartNumber')
        if op == 'GetObject':
            r = p.get('Range')
            if r is None:
                return 'all'
            return r.split('=')[1].split('-')[0]
        return None

    def _on_before_call(self, model, params, context, **kw):
        if not self.api_only:
            return None
        rec = self.tls.call
        return self._api_level(rec)

    def _on_needs_retry(self, **kw):
        rec = getattr(self.tls, 'call', None)
        if rec is not None and rec.get('force_retry'):
            rec['force_retry'] = False
            self.director.retries_forced.append(rec['key'])
            self.log.add('s3.retry', key=rec['key'], call_id=rec['call_id'], label=rec['label'])
            return 0
        return None

    def _on_before_send(self, request, event_name=None, **kw):
        rec = self.tls.call
        rec['attempts'] += 1
        attempt = rec['attempts']
        op, label, key = rec['op'], rec['label'], rec['key']
        d = self.director
        akey = key if attempt == 1 else f'{key}.retry{attempt - 1}'
        self.log.add('s3.begin', op=op, label=label, disc=rec['disc'], call_id=rec['call_id'], key=akey,
                     attempt=attempt, upload_id=rec['params'].get('UploadId'))
        try:
            f = d.point(akey, 'before', op=op, label=label)
            if f is not None:
                self._raise_fault(f, akey, 'before', rec, request)
            body = None
            if op in ('PutObject', 'UploadPart'):
                body = self._read_request_body(request, rec, akey)
            resp = self._apply(op, rec, request, body, akey)
            f = d.point(akey, 'after', op=op, label=label)
            if f is not None:
                self._raise_fault(f, akey, 'after', rec, request)
            if rec.get('created_upload'):
                self.uploads[rec['created_upload']]['delivered'] = True
        except S3Error as e:
            self.log.add('s3.end', op=op, label=label, call_id=rec['call_id'], key=akey, status=e.status, error=e.code,
                         upload_id=rec['params'].get('UploadId'))
            return self._error_response(request, e)
        except BaseException as e:
            if not hasattr(e, 'tag') and not getattr(e, '_vf_from_library', False):
                import traceback
                self.harness_errors.append(traceback.format_exc()[-1200:])
            self.log.add('s3.end', op=op, label=label, call_id=rec['call_id'], key=akey, status=None, error=repr(e),
                         upload_id=rec['params'].get('UploadId'))
            raise
        self.log.add('s3.end', op=op, label=label, call_id=rec['call_id'], key=akey, status=resp.status_code,
                     upload_id=rec['params'].get('UploadId'), streaming=(op == 'GetObject'))
        return resp

    # ------------------------------------------------------------------ faults
    def _raise_fault(self, f, key, phase, rec, request, **extra):
        kind = f['kind']
        self.director.note_raised(f, key, phase, **extra)
        if kind == 'stall':
            # a request that simply takes long (seconds of real time) and then goes on normally: nothing fails
            d = self.director
            with d._lock:
                d.sleeping += 1
            try:
                time.sleep(f.get('secs', 2.5))
            finally:
                with d._lock:
                    d.sleeping -= 1
            return
        if kind == 'client4xx':
            raise S3Error(403, 'AccessDenied', f['tag'])
        if kind.startswith('code:'):
            # a specific service error code (and status), e.g. code:NoSuchUpload:404 - the library must not give any of them a
            # meaning of its own
            _, code, status = kind.split(':')
            raise S3Error(int(status), code, f['tag'])
        if kind == 'retry500':
            rec['force_retry'] = True
            raise S3Error(500, 'InternalError', f['tag'])
        if kind == 'retryconn':
            rec['force_retry'] = True
            raise TaggedConnClosed(f['tag'])
        if kind == 'connreset':
            raise TaggedConnReset(f['tag'])
        if kind == 'base':
            raise InjectedBase(f['tag'])
        if kind == 'oserror':
            raise InjectedOSError(f['tag'])
        from .director import make_special_exc

        sp = make_special_exc(kind, f['tag'])
        if sp is not None:
            raise sp
        raise InjectedError(f['tag'])

    def _error_response(self, request, e):
        xml = (f'<?xml version="1.0" encoding="UTF-8"?>\n<Error><Code>{e.code}</Code>'
               f'<Message>{escape(e.msg)}</Message><RequestId>r</RequestId></Error>').encode()
        return AWSResponse(request.url, e.status, {'content-type': 'application/xml', 'content-length': str(len(xml))}, _Raw(xml))

    # ------------------------------------------------------------ request body
    def _read_request_body(self, request, rec, akey):
        body = request.body
        d = self.director
        mid = d.match_fault(akey, 'mid')
        limit = mid.get('bytes', 0) if mid is not None else None
        if body is None:
            raw = b''
        elif isinstance(body, (bytes, bytearray)):
            raw = bytes(body)
        else:
            parts = []
            got = 0
            sizes = self.body_read_sizes
            i = 0
            enc0 = request.headers.get('Content-Encoding') or b''
            chunked = 'aws-chunked' in (enc0.decode() if isinstance(enc0, bytes) else enc0)
            while True:
                n = sizes[i % len(sizes)]
                d.cancel_only_point(f'{akey}.send#{i}', 'before')
                i += 1
                if limit is not None and got + n > limit:
                    n = limit - got
                    if n <= 0:
                        break
                try:
                    chunk = body.read(n)
                except BaseException as e:  # raised by library / user code under the body, not by the harness
                    try:
                        e._vf_from_library = True
                    except Exception:
                        pass
                    raise
                if not chunk:
                    break
                parts.append(chunk)
                got += len(chunk)
                self.log.add('wire.read', key=akey, label=rec['label'], call_id=rec['call_id'], nbytes=len(chunk), chunked=chunked)
            raw = b''.join(parts)
        if mid is not None:
            mid['done'] = True
            self._raise_fault(mid, akey, 'mid', rec, request, consumed=len(raw))
        headers = request.headers
        enc = (headers.get('Content-Encoding') or b'')
        if isinstance(enc, bytes):
            enc = enc.decode()
        trailers = {}
        if 'aws-chunked' in enc:
            data, trailers = decode_aws_chunked(raw)
            declared = headers.get('X-Amz-Decoded-Content-Length')
        else:
            data = raw
            declared = headers.get('Content-Length')
        if declared is not None:
            if isinstance(declared, bytes):
                declared = declared.decode()
            if int(declared) != len(data):
                self.wire_errors.append({'key': akey, 'declared': int(declared), 'sent': len(data)})
                raise S3Error(400, 'IncompleteBody', f'declared {declared} sent {len(data)}')
        rec['trailers'] = trailers
        for name, val in trailers.items():
            if name.startswith('x-amz-checksum-'):
                algo = name[len('x-amz-checksum-'):]
                want = checksum_of(algo, data)
                if want is not None and want != val:
                    self.wire_errors.append({'key': akey, 'trailer': name, 'got': val, 'want': want})
                    raise S3Error(400, 'BadDigest', 'trailer checksum mismatch')
        return data

    # ----------------------------------------------------------------- effects
    def _xml(self, request, status, xml, headers=None):
        data = xml.encode()
        h = {'content-type': 'application/xml', 'content-length': str(len(data))}
        h.update(headers or {})
        return AWSResponse(request.url, status, h, _Raw(data))

    def _empty(self, request, status, headers=None):
        h = {'content-length': '0'}
        h.update(headers or {})
        return AWSResponse(request.url, status, h, _Raw(b''))

    def _req_checksum_headers(self, request, rec, data):
        """Checksums the client supplied (header or trailer) -> response headers."""
        out = {}
        for algo in ('crc32', 'sha1', 'sha256'):
            name = f'x-amz-checksum-{algo}'
            val = rec.get('trailers', {}).get(name) or request.headers.get(name)
            if isinstance(val, bytes):
                val = val.decode()
            if val:
                want = checksum_of(algo, data)
                if want != val:
                    self.wire_errors.append({'key': rec['key'], 'header': name, 'got': val, 'want': want})
                    raise S3Error(400, 'BadDigest', 'checksum mismatch')
                out[name] = val
        return out

    def _get_upload(self, p):
        up = self.uploads.get(p.get('UploadId'))
        if up is None or up['state'] != 'open' or up['bucket'] != p['Bucket'] or up['key'] != p['Key']:
            raise S3Error(404, 'NoSuchUpload', str(p.get('UploadId')))
        return up

    def _source_bytes(self, p):
        src = p['CopySource']
        if isinstance(src, dict):
            sb, sk = src['Bucket'], src['Key']
        else:
            sb, _, sk = src.lstrip('/').partition('/')
        vid = None
        if isinstance(src, dict):
            vid = src.get('VersionId')
        elif '?versionId=' in sk:
            sk, _, vid = sk.partition('?versionId=')
        data = self._object(sb, sk, vid)
        if data is None:
            raise S3Error(404, 'NoSuchKey', sk)
        return data

    def _object(self, bucket, key, version_id=None):
        """The bytes of an object: the current version, or the one named by VersionId."""
        if version_id is not None:
            return self.versions.get((bucket, key), {}).get(version_id)
        return self.objects.get((bucket, key))

    def _apply(self, op, rec, request, body, akey):
        p = rec['params']
        with self.lock:
            if op == 'PutObject':
                hdrs = self._req_checksum_headers(request, rec, body)
                self.objects[(p['Bucket'], p['Key'])] = body
                rec['received'] = body
                hdrs['ETag'] = etag_of(body)
                return self._empty(request, 200, hdrs)
            if op == 'HeadObject':
                data = self._object(p['Bucket'], p['Key'], p.get('VersionId'))
                if data is None:
                    raise S3Error(404, 'NoSuchKey', p['Key'])
                return self._empty(request, 200, {'content-length': str(len(data)), 'ETag': etag_of(data)})
            if op == 'DeleteObject':
                self.objects.pop((p['Bucket'], p['Key']), None)
                return self._empty(request, 204)
            if op == 'GetObject':
                return self._get_object(rec, request, akey)
            if op == 'CreateMultipartUpload':
                uid = f'upload-{next(self._ids)}'
                self.uploads[uid] = {
                    'id': uid, 'bucket': p['Bucket'], 'key': p['Key'], 'label': rec['label'],
                    'parts': {}, 'state': 'open', 'algo': p.get('ChecksumAlgorithm'),
                    'ctype': p.get('ChecksumType'), 'completes': 0, 'aborts': 0, 'create_args': dict(p),
                    'delivered': False,
                }
                rec['created_upload'] = uid
                return self._xml(request, 200,
                                 f'<?xml version="1.0" encoding="UTF-8"?>\n<InitiateMultipartUploadResult>'
                                 f'<Bucket>{p["Bucket"]}</Bucket><Key>{escape(p["Key"])}</Key><UploadId>{uid}</UploadId>'
                                 f'</InitiateMultipartUploadResult>')
            if op == 'UploadPart':
                up = self._get_upload(p)
                hdrs = self._req_checksum_headers(request, rec, body)
                part = {'data': body, 'etag': etag_of(body), 'checksums': {}}
                for name, val in hdrs.items():
                    part['checksums']['Checksum' + name[len('x-amz-checksum-'):].upper()] = val
                up['parts'][p['PartNumber']] = part
                rec['received'] = body
                hdrs['ETag'] = part['etag']
                return self._empty(request, 200, hdrs)
            if op == 'UploadPartCopy':
                up = self._get_upload(p)
                src = self._source_bytes(p)
                rng = p.get('CopySourceRange')
                if rng:
                    a, _, b = rng.split('=')[1].partition('-')
                    a, b = int(a), int(b)
                    if a > b or b >= len(src):
                        raise S3Error(400, 'InvalidArgument', f'range {rng} for source of {len(src)}')
                    data = src[a:b + 1]
                else:
                    data = src
                part = {'data': data, 'etag': etag_of(data), 'checksums': {}, 'range': rng}
                xml_ck = ''
                if up['algo']:
                    ck = checksum_of(up['algo'], data)
                    if ck:
                        name = 'Checksum' + up['algo'].upper()
                        part['checksums'][name] = ck
                        xml_ck = f'<{name}>{ck}</{name}>'
                up['parts'][p['PartNumber']] = part
                return self._xml(request, 200,
                                 f'<?xml version="1.0" encoding="UTF-8"?>\n<CopyPartResult><ETag>{escape(part["etag"])}</ETag>'
                                 f'{xml_ck}</CopyPartResult>')
            if op == 'CompleteMultipartUpload':
                up = self._get_upload(p)
                plist = (p.get('MultipartUpload') or {}).get('Parts') or []
                rec['parts_arg'] = [dict(x) for x in plist]
                nums = [x.get('PartNumber') for x in plist]
                if not plist:
                    raise S3Error(400, 'MalformedXML', 'no parts')
                if nums != sorted(nums) or len(set(nums)) != len(nums):
                    raise S3Error(400, 'InvalidPartOrder', str(nums))
                for x in plist:
                    part = up['parts'].get(x.get('PartNumber'))
                    if part is None or part['etag'] != x.get('ETag'):
                        raise S3Error(400, 'InvalidPart', f'part {x.get("PartNumber")}')
                    for name, val in part['checksums'].items():
                        if up.get('ctype') == 'FULL_OBJECT' or not up.get('algo'):
                            continue
                        if name != 'Checksum' + up['algo'].upper():
                            continue
                        if x.get(name) != val:
                            raise S3Error(400, 'InvalidPart', f'part {x.get("PartNumber")} checksum {name}')
                data = b''.join(up['parts'][n]['data'] for n in nums)
                if p.get('MpuObjectSize') is not None and int(p['MpuObjectSize']) != len(data):
                    raise S3Error(400, 'InvalidRequest', 'MpuObjectSize mismatch')
                self.objects[(p['Bucket'], p['Key'])] = data
                up['state'] = 'completed'
                up['completes'] += 1
                up['completed_parts'] = nums
                return self._xml(request, 200,
                                 f'<?xml version="1.0" encoding="UTF-8"?>\n<CompleteMultipartUploadResult>'
                                 f'<Bucket>{p["Bucket"]}</Bucket><Key>{escape(p["Key"])}</Key><ETag>{escape(etag_of(data))}</ETag>'
                                 f'</CompleteMultipartUploadResult>')
            if op == 'AbortMultipartUpload':
                up = self._get_upload(p)
                up['state'] = 'aborted'
                up['aborts'] += 1
                return self._empty(request, 204)
            if op == 'CopyObject':
                src = self._source_bytes(p)
                self.objects[(p['Bucket'], p['Key'])] = src
                return self._xml(request, 200,
                                 f'<?xml version="1.0" encoding="UTF-8"?>\n<CopyObjectResult><ETag>{escape(etag_of(src))}</ETag>'
                                 f'</CopyObjectResult>')
        raise S3Error(501, 'NotImplemented', op)

    def _get_object(self, rec, request, akey):
        p = rec['params']
        data = self._object(p['Bucket'], p['Key'], p.get('VersionId'))
        if data is None:
            raise S3Error(404, 'NoSuchKey', p['Key'])
        rng = p.get('Range')
        status = 200
        hdrs = {'ETag': etag_of(data)}
        if rng:
            a, _, b = rng.split('=')[1].partition('-')
            a = int(a)
            b = int(b) if b != '' else len(data) - 1
            if a >= len(data) and len(data) > 0:
                raise S3Error(416, 'InvalidRange', rng)
            b = min(b, len(data) - 1)
            chunk = data[a:b + 1]
            status = 206
            hdrs['content-range'] = f'bytes {a}-{b}/{len(data)}'
        else:
            chunk = data
        hdrs['content-length'] = str(len(chunk))
        fault = self.director.match_fault(rec['key'], 'body')
        caps = None
        if self.get_read_caps:
            # rotate per call occurrence so chunk boundaries differ between attempts
            occ = int(rec['key'].rsplit('#', 1)[1])
            caps = self.get_read_caps[occ % len(self.get_read_caps)]
        raw = RawBody(self, chunk, rec['key'], rec['label'], rec['call_id'], fault, caps)
        rec['body'] = raw
        return AWSResponse(request.url, status, hdrs, raw)

    # --------------------------------------------------------------- API level
    def _api_level(self, rec):
        """Short-circuit at before-call: no wire, no bodies.  Used by the
        planning (C14) and argument-routing (C15) sweeps only."""
        op, p = rec['op'], rec['params']
        rec['attempts'] += 1
        self.log.add('s3.begin', op=op, label=rec['label'], disc=rec['disc'], call_id=rec['call_id'], key=rec['key'], attempt=1,
                     upload_id=p.get('UploadId'))
        if op in getattr(self, 'api_fail_ops', ()):
            raise RuntimeError('vf-forced-failure-' + op)
        parsed = {'ResponseMetadata': {'HTTPStatusCode': 200}}
        size = self.api_sizes.get((p.get('Bucket'), p.get('Key')), 0) if hasattr(self, 'api_sizes') else 0
        if op in ('PutObject', 'UploadPart'):
            try:
                rec['body_len'] = len(p.get('Body'))
            except TypeError:
                rec['body_len'] = None
        if op == 'HeadObject':
            parsed['ContentLength'] = size
        elif op == 'CreateMultipartUpload':
            parsed['UploadId'] = f'upload-{next(self._ids)}'
        elif op == 'UploadPart':
            parsed['ETag'] = f'"etag-{p["PartNumber"]}"'
            if p.get('ChecksumAlgorithm'):
                parsed['Checksum' + p['ChecksumAlgorithm'].upper()] = f'ck-{p["PartNumber"]}'
        elif op == 'UploadPartCopy':
            parsed['CopyPartResult'] = {'ETag': f'"etag-{p["PartNumber"]}"'}
        elif op == 'GetObject':
            parsed['Body'] = io.BytesIO(b'')
        elif op == 'PutObject':
            parsed['ETag'] = '"etag"'

        class _H:
            status_code = 200

        self.log.add('s3.end', op=op, label=rec['label'], call_id=rec['call_id'], key=rec['key'], status=200,
                     upload_id=p.get('UploadId'))
        return (_H(), parsed)
