"""Director: injects faults, delays, parks and cancels at boundary events.

Every boundary the harness owns calls ``director.point(key, phase)`` before and
after its effect.  ``key`` names the event ("t0/s3:UploadPart:2#0",
"t0/src:read#3", "t0/cb:on_progress#1", "t0/fs:rename#0", ...); the ``#k``
suffix is the occurrence number of that (transfer, event) pair, counted here.
Keys — not raw positions in the interleaved log — are what fault plans match
on, so a plan names the same logical event whatever the thread schedule was.
"""
import random
import socket
import threading
import time

from botocore.exceptions import ConnectionClosedError as _BotoConnClosed
from urllib3.exceptions import ProtocolError as U3ProtocolError
from urllib3.exceptions import ReadTimeoutError as U3ReadTimeoutError


class InjectedError(Exception):
    """Non-retryable fault raised by the harness; ``tag`` identifies it."""

    def __init__(self, tag):
        super().__init__(tag)
        self.tag = tag


class InjectedOSError(OSError):
    def __init__(self, tag):
        super().__init__(5, tag)
        self.tag = tag


class InjectedBase(BaseException):
    """A BaseException that is not an Exception (own family, see F9)."""

    def __init__(self, tag):
        super().__init__(tag)
        self.tag = tag


class TaggedConnReset(ConnectionResetError):
    def __init__(self, tag):
        super().__init__(104, tag)
        self.tag = tag


class TaggedConnClosed(_BotoConnClosed):
    """A connection error botocore's own retry handler recognises (used for
    forced client-level retries)."""

    def __init__(self, tag):
        super().__init__(endpoint_url='https://fake-s3.invalid/' + tag)
        self.tag = tag


class TaggedBrokenPipe(BrokenPipeError):
    def __init__(self, tag):
        super().__init__(32, tag)
        self.tag = tag


class TaggedBlockingIO(BlockingIOError):
    """What a buffered writer over a non-blocking pipe raises when the reader falls behind: part of the data WAS accepted
    (characters_written), the rest was not."""

    def __init__(self, tag, written):
        super().__init__(11, tag, written)
        self.tag = tag


class TaggedTimeout(socket.timeout):
    def __init__(self, tag):
        super().__init__(tag)
        self.tag = tag


def make_special_exc(kind, tag):
    """Exception types the library itself gives a meaning to, raised by a step of a transfer that was NOT cancelled (e.g. a
    source stream fed by another, cancelled, future): concurrent.futures.CancelledError (= s3transfer's CancelledError) and
    FatalError.  They are failures like any other."""
    if kind not in ('cancelled_exc', 'fatal_exc', 'systemexit', 'generatorexit'):
        return None
    from s3transfer.exceptions import CancelledError, FatalError

    # (SystemExit - a callback or signal handler calling sys.exit() - and GeneratorExit: BaseExceptions that are neither an Exception
    # nor a KeyboardInterrupt)
    base = {'cancelled_exc': CancelledError, 'fatal_exc': FatalError, 'systemexit': SystemExit, 'generatorexit': GeneratorExit}[kind]
    cls = type('Tagged' + base.__name__, (base,), {})
    e = cls(tag)
    e.tag = tag
    return e


STREAM_KINDS = ('timeout', 'connreset', 'readtimeout', 'protocol', 'incomplete')


def make_stream_exc(kind, tag):
    if kind == 'timeout':
        return TaggedTimeout(tag)
    if kind == 'connreset':
        return TaggedConnReset(tag)
    if kind == 'readtimeout':
        e = U3ReadTimeoutError(None, None, tag)
        e.tag = tag
        return e
    if kind == 'protocol':
        e = U3ProtocolError(tag)
        e.tag = tag
        return e
    raise ValueError(kind)


def find_tags(exc, _depth=0, _seen=None):
    """All injected-fault tags reachable from an exception (causes, wrappers)."""
    tags = set()
    if exc is None or _depth > 8:
        return tags
    if _seen is None:
        _seen = set()
    if id(exc) in _seen:
        return tags
    _seen.add(id(exc))
    t = getattr(exc, 'tag', None)
    if isinstance(t, str):
        tags.add(t)
    s = str(exc)
    for tok in s.replace("'", ' ').replace('"', ' ').replace(')', ' ').replace('(', ' ').replace(',', ' ').replace(':', ' ').split():
        if tok.startswith('FAULT-'):
            tags.add(tok.rstrip('.'))
    for attr in ('__cause__', '__context__', 'last_exception'):
        tags |= find_tags(getattr(exc, attr, None), _depth + 1, _seen)
    kw = getattr(exc, 'kwargs', None)
    if isinstance(kw, dict):
        for v in kw.values():
            if isinstance(v, BaseException):
                tags |= find_tags(v, _depth + 1, _seen)
    for a in getattr(exc, 'args', ()) or ():
        if isinstance(a, BaseException):
            tags |= find_tags(a, _depth + 1, _seen)
    return tags


class Director:
    def __init__(self, log, seed=0, plan=None):
        self.log = log
        self.plan = plan or {}
        self.rng = random.Random(seed)
        self._lock = threading.Lock()
        self._occ = {}
        self.faults = list(self.plan.get('faults', ()))
        self.raised = []  # faults actually raised into library code
        self.retries_forced = []
        self.delay_p = self.plan.get('delay_p', 0.0)
        self.delay_max = self.plan.get('delay_max', 0.002)
        self.sleeping = 0
        self.parked = {}  # key -> (Event, info)
        self.park_pred = None  # callable(key, phase) -> bool
        self.hooks = []  # callables(key, phase, info) run at every point
        self.cancel_plan = self.plan.get('cancel')
        self.cancel_fired = None
        self.cancel_began = False
        self.on_cancel_point = None  # callable(plan) installed by the scenario
        self.points = 0
        self.keys_seen = []
        self.cancel_applied = None  # callable: has the manager-wide cancelling call finished its cancel pass?
        self.send_gate = False
        self.key_stage = {}  # boundary key -> stage of the thread that reached it first (submission / request / io / None = a user thread)
        self.disabled = False

    # ------------------------------------------------------------------
    def occurrence(self, base):
        """Return ``base#k`` with k the number of earlier uses of base."""
        with self._lock:
            k = self._occ.get(base, 0)
            self._occ[base] = k + 1
        return f'{base}#{k}'

    def match_fault(self, key, phase):
        for f in self.faults:
            if f.get('done'):
                continue
            if f['at'] == key and f.get('phase', 'before') == phase:
                return f
        return None

    def note_raised(self, f, key, phase, **extra):
        rec = {'tag': f['tag'], 'key': key, 'phase': phase, 'kind': f['kind'], 'n': self.log.counter(),
               'stage': getattr(threading.current_thread(), 'vf_stage', None)}
        rec.update(extra)
        with self._lock:
            self.raised.append(rec)
        self.log.add('fault', **{('fkind' if k == 'kind' else k): v for k, v in rec.items() if k != 'n'})

    def point(self, key, phase, **info):
        """Called at a boundary.  May sleep, park, fire the cancel, or return a
        fault record that the *caller* turns into the right exception for its
        boundary (after logging it with note_raised)."""
        if self.disabled:
            return None
        with self._lock:
            self.points += 1
            if phase == 'before':
                self.keys_seen.append(key)
            self.key_stage.setdefault(key, getattr(threading.current_thread(), 'vf_stage', None))
        for h in self.hooks:
            h(key, phase, info)
        cp = self.cancel_plan
        if cp and self.cancel_fired is None and cp['at'] == key and cp.get('phase', 'before') == phase:
            with self._lock:
                fire = self.cancel_fired is None
                if fire:
                    self.cancel_fired = {'key': key, 'phase': phase}
            if fire and self.on_cancel_point:
                self.on_cancel_point(cp)
        if self.park_pred is not None and self.park_pred(key, phase):
            ev = threading.Event()
            with self._lock:
                self.parked[(key, phase)] = (ev, info)
            self.log.add('park', key=key, phase=phase)
            ev.wait()
            self.log.add('unpark', key=key, phase=phase)
        if self.delay_p and self.rng.random() < self.delay_p:
            d = self.rng.random() * self.delay_max
            with self._lock:
                self.sleeping += 1
            try:
                time.sleep(d)
            finally:
                with self._lock:
                    self.sleeping -= 1
        f = self.match_fault(key, phase)
        if f is not None:
            f['done'] = True
            return f
        return None

    def cancel_only_point(self, key, phase='before'):
        """A place where only the planned cancel can fire (not listed among the boundary keys, no faults, gates or delays): the
        individual reads of a request body by the transport."""
        cp = self.cancel_plan
        if cp and self.cancel_fired is None and cp['at'] == key and cp.get('phase', 'before') == phase:
            with self._lock:
                fire = self.cancel_fired is None
                if fire:
                    self.cancel_fired = {'key': key, 'phase': phase}
            if fire and self.on_cancel_point:
                self.on_cancel_point(cp)
        # a gate that names these places explicitly ('.send#' in its match) holds the transport between two reads of the body
        if self.park_pred is not None and '.send#' in key and self.send_gate and self.park_pred(key, phase):
            ev = threading.Event()
            with self._lock:
                self.parked[(key, phase)] = (ev, {})
            self.log.add('park', key=key, phase=phase)
            ev.wait()
            self.log.add('unpark', key=key, phase=phase)

    # -- parking -----------------------------------------------------------
    def parked_keys(self):
        with self._lock:
            return list(self.parked)

    def release(self, keyphase):
        with self._lock:
            ev, _ = self.parked.pop(keyphase)
        ev.set()

    def release_all(self):
        with self._lock:
            items = list(self.parked.items())
            self.parked.clear()
        for _, (ev, _) in items:
            ev.set()

    def stop(self):
        """Disable all further injection and free every parked thread."""
        self.disabled = True
        self.park_pred = None
        self.release_all()


def key_disc(key):
    """'t0/s3:UploadPart:3#0' -> '3'; 't0/s3:GetObject:16#1.read#2' -> '16'."""
    try:
        body = key.split('/s3:')[1]
        head = body.split('#')[0]
        parts = head.split(':')
        return parts[1] if len(parts) > 1 else ''
    except IndexError:
        return ''


class GateController(threading.Thread):
    """Releases parked calls one at a time, each time the process is quiescent
    (i.e. everything that can reach the gate under the configured concurrency
    limits has reached it), in an order chosen by ``policy``:

      'reverse'      highest discriminator (part number / range start) first
      'lowest_last'  the lowest one is released only when nothing else is parked
      'seeded'       pseudo-random choice from the director's seed
      [d1, d2, ...]  explicit priority list of discriminators
    """

    def __init__(self, director, gate):
        super().__init__(name='vf-gate', daemon=True)
        self.d = director
        self.gate = gate
        self.match = gate['match']
        self.phase = gate.get('phase', 'before')
        self.policy = gate.get('policy', 'seeded')
        self.limit = gate.get('count')  # stop gating after this many releases
        self.released = []
        self.max_parked = 0
        self.stop_flag = False
        self.rng = random.Random(director.rng.random())
        director.park_pred = self._pred
        ms = self.match if isinstance(self.match, (list, tuple)) else [self.match]
        director.send_gate = any('.send#' in m for m in ms)

    def _pred(self, key, phase):
        matches = self.match if isinstance(self.match, (list, tuple)) else [self.match]  # any of several substrings
        if phase != self.phase or not any(m in key for m in matches):
            return False
        if '.read#' in key and not any('.read#' in m for m in matches):
            return False
        if self.limit is not None and len(self.released) + len(self.d.parked) >= self.limit:
            return False
        return True

    def _choose(self, parked):
        def disc(kp):
            v = key_disc(kp[0])
            try:
                return int(v)
            except ValueError:
                return -1
        if isinstance(self.policy, list):
            pri = {str(v): i for i, v in enumerate(self.policy)}
            return min(parked, key=lambda kp: (pri.get(key_disc(kp[0]), len(pri)), disc(kp)))
        if self.policy == 'reverse':
            return max(parked, key=disc)
        if self.policy == 'lowest_last':
            if len(parked) == 1:
                return parked[0]
            lo = min(parked, key=disc)
            rest = [p for p in parked if p != lo]
            return self.rng.choice(sorted(rest))
        return self.rng.choice(sorted(parked))

    def run(self):
        from . import watchdog

        with watchdog.polling():
            self._loop(watchdog)

    def _loop(self, watchdog):
        while not self.stop_flag and not self.d.disabled:
            parked = self.d.parked_keys()
            if parked:
                if self.gate.get('after_cancel_begin') and not self.d.cancel_began:
                    time.sleep(0.0005)
                    continue
                if self.gate.get('after_cancel_applied') and not (self.d.cancel_applied is not None and self.d.cancel_applied()):
                    # (not merely begun: the cancelling call has gone through its cancel pass and is now waiting for the transfers)
                    time.sleep(0.0005)
                    continue
                if self.gate.get('hold_while_paused') and watchdog.PAUSED[0]:
                    # a window action is orchestrating the order itself: nothing is let go behind its back
                    time.sleep(0.0005)
                    continue
                if watchdog.quiescent(director=self.d):
                    parked = self.d.parked_keys()
                    if not parked:
                        continue
                    self.max_parked = max(self.max_parked, len(parked))
                    kp = self._choose(parked)
                    self.released.append(kp[0])
                    self.d.log.add('gate.release', key=kp[0], parked=len(parked))
                    try:
                        self.d.release(kp)
                    except KeyError:
                        pass
            else:
                time.sleep(0.0005)
