"""Quiescence detection and the deadlock verdict.

Quiescent <=> in two scans of /proc/self/task/* a little apart, every thread
other than the scanner is in state S (sleeping) and none of its CPU-time or
context-switch counters moved, and the director has no injected sleep pending.
The library itself uses no timed waits (MAXINT = None), so a quiescent process
with unfinished obligations and nothing parked by the harness cannot make
progress: that is a logical deadlock verdict, not a wall-clock one.
"""
import faulthandler
import io
import os
import sys
import threading
import time
import traceback


def _scan(skip_tids):
    out = {}
    try:
        tids = os.listdir('/proc/self/task')
    except OSError:
        return None
    for tid in tids:
        if int(tid) in skip_tids:
            continue
        try:
            with open(f'/proc/self/task/{tid}/stat', 'rb') as f:
                st = f.read().decode('ascii', 'replace')
            with open(f'/proc/self/task/{tid}/status', 'rb') as f:
                status = f.read().decode('ascii', 'replace')
        except OSError:
            continue
        rp = st.rfind(')')
        fields = st[rp + 2:].split()
        state = fields[0]
        utime, stime = fields[11], fields[12]
        vol = nonvol = '0'
        for line in status.splitlines():
            if line.startswith('voluntary_ctxt_switches'):
                vol = line.split()[1]
            elif line.startswith('nonvoluntary_ctxt_switches'):
                nonvol = line.split()[1]
        out[tid] = (state, utime, stime, vol, nonvol)
    return out


POLLERS = set()  # native ids of harness threads that poll (they are never part of the verdict)
PAUSED = [0]     # number of library threads the yield injector is holding at a window right now (bounded holds): no verdict meanwhile
_PAUSED_LOCK = threading.Lock()


class paused:
    """Context manager: the current (library) thread is being held by the harness for a bounded time."""

    def __enter__(self):
        with _PAUSED_LOCK:
            PAUSED[0] += 1

    def __exit__(self, *a):
        with _PAUSED_LOCK:
            PAUSED[0] -= 1


class polling:
    """Context manager: the current thread is a harness poller."""

    def __enter__(self):
        self.tid = threading.get_native_id()
        self.added = self.tid not in POLLERS
        POLLERS.add(self.tid)

    def __exit__(self, *a):
        if self.added:
            POLLERS.discard(self.tid)


def quiescent(extra_skip=(), gap=0.002, director=None):
    """One double scan.  True iff nobody else is runnable or moved."""
    skip = {threading.get_native_id()} | set(extra_skip) | set(POLLERS)
    a = _scan(skip)
    time.sleep(gap)
    b = _scan(skip)
    if a is None or b is None:
        return False
    if director is not None and director.sleeping:
        return False
    if a.keys() != b.keys():
        return False
    for tid, va in a.items():
        if va[0] != 'S' or b[tid] != va:
            return False
    return True


def wait_quiescent(timeout=5.0, director=None, extra_skip=(), need=2, gap=0.002):
    """Wait until ``need`` consecutive double scans are quiescent.
    Returns True on quiescence, False on (wall-clock) timeout = inconclusive."""
    end = time.monotonic() + timeout
    ok = 0
    while time.monotonic() < end:
        if quiescent(extra_skip, gap, director):
            ok += 1
            if ok >= need:
                return True
        else:
            ok = 0
    return False


def all_stacks():
    out = {}
    frames = sys._current_frames()
    names = {t.ident: t.name for t in threading.enumerate()}
    for ident, frame in frames.items():
        out[names.get(ident, str(ident))] = [
            f'{fs.filename}:{fs.lineno} {fs.name}' for fs in traceback.extract_stack(frame)
        ][-14:]
    return out


class Obligation:
    """Runs ``fn`` on a helper thread and decides, without wall-clock verdicts,
    whether it returned or the process deadlocked first."""

    def __init__(self, fn, name='obligation'):
        self.fn = fn
        self.name = name
        self.done = threading.Event()
        self.result = None
        self.exc = None
        self.thread = None

    def _run(self):
        try:
            self.result = self.fn()
        except BaseException as e:  # noqa
            self.exc = e
        finally:
            self.done.set()

    def start(self):
        self.thread = threading.Thread(target=self._run, name=f'vf-{self.name}', daemon=True)
        self.thread.start()
        return self


def await_or_deadlock(is_done, director, log, wall_timeout=30.0, checks=3, check_gap=0.05, poll=0.005, harness_busy=None):
    """Wait until ``is_done()``.  Returns 'done', 'deadlock' or 'timeout'.

    deadlock: not done, nothing parked by the director, and the process is
    quiescent on ``checks`` consecutive checks ``check_gap`` apart with the
    event counter frozen.
    """
    with polling():
        return _await_or_deadlock(is_done, director, log, wall_timeout, checks, check_gap, poll, harness_busy)


def _await_or_deadlock(is_done, director, log, wall_timeout, checks, check_gap, poll, harness_busy=None):
    # harness_busy(): the harness itself still owes the library a step (e.g. a stub completion not delivered yet): no verdict then
    end = time.monotonic() + wall_timeout
    while time.monotonic() < end:
        if is_done():
            return 'done'
        time.sleep(poll)
        if is_done():
            return 'done'
        if director is not None and (director.parked_keys() or director.sleeping):
            continue
        if PAUSED[0] or (harness_busy is not None and harness_busy()):
            continue
        if not quiescent(director=director):
            continue
        # candidate: confirm
        n0 = log.counter() if log is not None else 0
        confirmed = True
        for _ in range(checks):
            time.sleep(check_gap)
            if is_done():
                return 'done'
            if (log is not None and log.counter() != n0) or PAUSED[0] or not quiescent(director=director) or PAUSED[0] or (
                harness_busy is not None and harness_busy()) or (
                director is not None and (director.parked_keys() or director.sleeping)
            ):
                confirmed = False
                break
        if confirmed and not is_done():
            return 'deadlock'
    return 'timeout'
