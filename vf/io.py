"""Harness-owned user objects: sources, sinks, OSUtils, subscribers, executors."""
import io
import os
import threading
import time
from concurrent.futures import ThreadPoolExecutor

from s3transfer.subscribers import BaseSubscriber
from s3transfer.utils import OSUtils

from .director import InjectedBase, InjectedError, InjectedOSError


def raise_for(f, director, key, phase, oserr=False, **extra):
    director.note_raised(f, key, phase, **extra)
    from .director import make_special_exc

    sp = make_special_exc(f['kind'], f['tag'])
    if sp is not None:
        raise sp
    if f['kind'] == 'base':
        raise InjectedBase(f['tag'])
    if f['kind'] == 'brokenpipe':
        from .director import TaggedBrokenPipe

        raise TaggedBrokenPipe(f['tag'])
    if f['kind'] == 'timeouterr':
        from .director import TaggedTimeout

        raise TaggedTimeout(f['tag'])
    if oserr or f['kind'] == 'oserror':
        raise InjectedOSError(f['tag'])
    raise InjectedError(f['tag'])


# ---------------------------------------------------------------- sources
class DuckSeekableSource:
    """Seekable, readable user stream with logging and scripted faults.  This flavour has read/seek/tell only (no seekable()
    or readable() methods), like wrapper classes and pre-3.11 SpooledTemporaryFile: the library has to probe it."""

    def __init__(self, world, label, data, start=0, read_caps=None):
        self.w, self.label = world, label
        self._b = io.BytesIO(data)
        self._b.seek(start)
        self.read_caps = read_caps
        self.nreads = 0
        self.bytes_read = 0
        self.max_read_req = 0

    def read(self, amt=None):
        d = self.w.director
        key = d.occurrence(f'{self.label}/src:read')
        f = d.point(key, 'before')
        if f is not None:
            raise_for(f, d, key, 'before')
        n = amt
        if self.read_caps and (n is None or n < 0 or n > 0):
            cap = self.read_caps[self.nreads % len(self.read_caps)]
            n = cap if n is None or n < 0 else min(n, cap)
        self.nreads += 1
        data = self._b.read() if n is None else self._b.read(n)
        self.bytes_read += len(data)
        if amt is not None and amt > self.max_read_req:
            self.max_read_req = amt
        self.w.log.add('src.read', label=self.label, req=amt, nbytes=len(data), pos=self._b.tell())
        f = d.point(key, 'after')
        if f is not None:
            raise_for(f, d, key, 'after')
        return data

    def seek(self, where, whence=0):
        # (a boundary like the reads: a planned fault makes the stream's own seek fail - EIO from a flaky file system, a wrapper that
        # refuses to go back)
        d = self.w.director
        key = d.occurrence(f'{self.label}/src:seek')
        f = d.point(key, 'before')
        if f is not None:
            raise_for(f, d, key, 'before', oserr=True)
        r = self._b.seek(where, whence)
        self.w.log.add('src.seek', label=self.label, where=where, whence=whence, pos=self._b.tell())
        return r

    def tell(self):
        return self._b.tell()

    def close(self):
        self.w.log.add('src.close', label=self.label)


class SeekableSource(DuckSeekableSource):
    """The io.IOBase-like flavour: declares itself through readable()/seekable()."""

    def readable(self):
        return True

    def seekable(self):
        return True


class FilenoSeekableSource(SeekableSource):
    """A seekable stream whose fileno() belongs to a file of a DIFFERENT length than the logical stream (gzip.open, bz2 / lzma
    readers, file-slice wrappers): the stream's own seek/tell are the only truth about its size."""

    def __init__(self, world, label, data, start=0, read_caps=None):
        super().__init__(world, label, data, start=start, read_caps=read_caps)
        import tempfile

        self._backing = tempfile.TemporaryFile()
        self._backing.write(b'z' * (len(data) // 3 if len(data) % 2 else 2 * len(data) + 7))
        self._backing.flush()

    def fileno(self):
        return self._backing.fileno()


class NonSeekableSource:
    """Readable stream without seek/tell (pipe-like).  ``read(n)`` returns up to
    n bytes; short reads only when scripted, because s3transfer documents that
    it relies on read(n) returning n bytes unless at EOF (as BufferedReader does)."""

    def __init__(self, world, label, data, read_caps=None):
        self.w, self.label = world, label
        self._b = io.BytesIO(data)
        self.bytes_read = 0
        self.max_read_req = 0
        self.nreads = 0
        self.read_caps = read_caps

    def readable(self):
        return True

    def read(self, amt=None):
        d = self.w.director
        key = d.occurrence(f'{self.label}/src:read')
        f = d.point(key, 'before')
        if f is not None:
            raise_for(f, d, key, 'before')
        n = amt
        if self.read_caps and amt is not None and amt > 0:
            # a raw pipe / socket may return fewer bytes than asked for before EOF
            n = min(amt, self.read_caps[self.nreads % len(self.read_caps)])
        data = self._b.read() if n is None else self._b.read(n)
        self.nreads += 1
        self.bytes_read += len(data)
        if amt is not None and amt > self.max_read_req:
            self.max_read_req = amt
        self.w.log.add('src.read', label=self.label, req=amt, nbytes=len(data), pos=self._b.tell())
        f = d.point(key, 'after')
        if f is not None:
            raise_for(f, d, key, 'after')
        return data


class DeclaredNonSeekableSource(NonSeekableSource):
    """Pipe-like io.IOBase flavour: seekable() says False; seek/tell exist and raise, as on a real pipe."""

    def seekable(self):
        return False

    def seek(self, where, whence=0):
        raise io.UnsupportedOperation('underlying stream is not seekable')

    def tell(self):
        raise io.UnsupportedOperation('underlying stream is not seekable')


class RaisingSeekSource(NonSeekableSource):
    """Has seek/tell but no seekable(): the library's probe (a relative seek by 0) fails with OSError."""

    def seek(self, where, whence=0):
        raise OSError(29, 'Illegal seek')

    def tell(self):
        raise OSError(29, 'Illegal seek')


class SeekReturnsNoneSource(DuckSeekableSource):
    """seek() returns None (file-likes written before seek() was expected to return the position; some wrappers)."""

    def seek(self, where, whence=0):
        DuckSeekableSource.seek(self, where, whence)
        return None


class SeekReturnsArgSource(DuckSeekableSource):
    """seek() returns its offset ARGUMENT rather than the new absolute position (a sloppy wrapper): only tell() is reliable."""

    def seek(self, where, whence=0):
        DuckSeekableSource.seek(self, where, whence)
        return where


def _payload_bytes(x, depth=0):
    """Total size of the bytes-like objects held (directly or in plain containers) by `x`; None when there are none."""
    if isinstance(x, (bytes, bytearray, memoryview)):
        return len(x)
    if depth > 4:
        return None
    if isinstance(x, dict):
        x = list(x.values())
    if isinstance(x, (list, tuple, set, frozenset)) or type(x).__name__ == 'deque':
        tot, seen = 0, False
        for y in list(x):
            n = _payload_bytes(y, depth + 1)
            if n is not None:
                tot, seen = tot + n, True
        return tot if seen else None
    return None


SEEKABLE_FLAVORS = {'declared': SeekableSource, 'duck': DuckSeekableSource, 'fileno': FilenoSeekableSource, 'seek_none': SeekReturnsNoneSource,
                    'seek_arg': SeekReturnsArgSource}
NONSEEKABLE_FLAVORS = {'bare': NonSeekableSource, 'declared': DeclaredNonSeekableSource, 'raising': RaisingSeekSource}


# ------------------------------------------------------------------ sinks
class _SinkBase:
    write_ret = 'len'  # what write() returns although it has taken ALL the data: 'len' | 'none' | 'half' | 'zero' | 'true'

    def _ret(self, n):
        # (a compressing / encrypting / record-counting wrapper returns what ITS underlying write returned; old-style file-likes
        # return None; the value says nothing about how much of the data was taken)
        return {'len': n, 'none': None, 'half': n // 2, 'zero': 0, 'true': True}[self.write_ret]

    def __init__(self, world, label):
        self.w, self.label = world, label
        self.writes = []  # (n, thread, offset, len)
        self._in_write = 0
        self._guard = threading.Lock()
        self.overlap = []  # concurrent writers detected

    def _enter(self):
        with self._guard:
            self._in_write += 1
            if self._in_write > 1:
                self.overlap.append(threading.current_thread().name)

    def _exit(self):
        with self._guard:
            self._in_write -= 1


class SeekableSink(_SinkBase):
    def __init__(self, world, label, initial=b''):
        super().__init__(world, label)
        self._b = io.BytesIO(initial)

    def seekable(self):
        return True

    def seek(self, where, whence=0):
        return self._b.seek(where, whence)

    def tell(self):
        return self._b.tell()

    def write(self, data):
        d = self.w.director
        key = d.occurrence(f'{self.label}/dst:write')
        self._enter()
        try:
            f = d.point(key, 'before')
            if f is not None:
                raise_for(f, d, key, 'before')
            off = self._b.tell()
            self._b.write(data)
            ev = self.w.log.add('dst.write', label=self.label, offset=off, nbytes=len(data))
            self.writes.append((ev['n'], ev['thread'], off, len(data)))
            f = d.point(key, 'after')
            if f is not None:
                raise_for(f, d, key, 'after')
        finally:
            self._exit()
        return self._ret(len(data))

    def getvalue(self):
        return self._b.getvalue()


class NonSeekableSink(_SinkBase):
    """write()-only destination; records the concatenation and per-write info."""

    def __init__(self, world, label):
        super().__init__(world, label)
        self.chunks = []
        self.total = 0

    def write(self, data):
        d = self.w.director
        key = d.occurrence(f'{self.label}/dst:write')
        self._enter()
        try:
            f = d.point(key, 'before')
            if f is not None:
                if f['kind'] == 'blockingio':
                    # a non-blocking destination whose reader fell behind: the first part of the data is taken, then the write
                    # "could not complete without blocking"
                    k = len(data) // 2
                    if k:
                        self.chunks.append(bytes(data[:k]))
                        ev = self.w.log.add('dst.write', label=self.label, offset=self.total, nbytes=k, partial=True)
                        self.writes.append((ev['n'], ev['thread'], self.total, k))
                        self.total += k
                    d.note_raised(f, key, 'before')
                    from .director import TaggedBlockingIO

                    raise TaggedBlockingIO(f['tag'], k)
                if f['kind'] == 'stall':
                    # the reader of the stream is busy for a while: the write simply takes seconds (nothing fails)
                    d.note_raised(f, key, 'before', stalled=f.get('secs', 2.5))
                    with d._lock:
                        d.sleeping += 1
                    try:
                        time.sleep(f.get('secs', 2.5))
                    finally:
                        with d._lock:
                            d.sleeping -= 1
                else:
                    raise_for(f, d, key, 'before')
            off = self.total
            self.chunks.append(bytes(data))
            self.total += len(data)
            ev = self.w.log.add('dst.write', label=self.label, offset=off, nbytes=len(data))
            self.writes.append((ev['n'], ev['thread'], off, len(data)))
            f = d.point(key, 'after')
            if f is not None:
                raise_for(f, d, key, 'after')
        finally:
            self._exit()
        return self._ret(len(data))

    def getvalue(self):
        return b''.join(self.chunks)


class DeclaredNonSeekableSink(NonSeekableSink):
    """A destination that SAYS it cannot seek (seekable() -> False) although seek() / tell() are there and work on a scratch
    position - a tee, a running-hash or a compressing sink wrapped around a file.  What counts is the sequence of write() calls:
    the library has to take the stream at its word and deliver every byte once, in order, without seeking."""

    def __init__(self, world, label):
        super().__init__(world, label)
        self._pos = 0
        self.seeks = 0

    def seekable(self):
        return False

    def seek(self, where, whence=0):
        self.seeks += 1
        self.w.log.add('dst.seek', label=self.label, where=where, whence=whence)
        self._pos = where if whence == 0 else (self._pos + where if whence == 1 else self.total + where)
        return self._pos

    def tell(self):
        return self._pos


# ---------------------------------------------------------------- OSUtils
class _WFile:
    """Wrapper of a file opened for writing through HookedOSUtils."""

    def __init__(self, osu, f, name, label):
        self._osu, self._f, self.name, self.label = osu, f, name, label
        self._guard = threading.Lock()
        self._in_write = 0
        self._nwritten = 0
        self._last_write_len = 0

    def write(self, data):
        w = self._osu.w
        d = w.director
        key = d.occurrence(f'{self.label}/fs:write')
        with self._guard:
            self._in_write += 1
            if self._in_write > 1:
                self._osu.overlap.append(threading.current_thread().name)
        try:
            f = d.point(key, 'before')
            if f is not None and f['kind'] == 'stall':
                # a destination that stalls for a while (busy disk, NFS hiccup) and then takes the data: nothing fails
                d.note_raised(f, key, 'before', stalled=f.get('secs', 2.5))
                with d._lock:
                    d.sleeping += 1
                try:
                    time.sleep(f.get('secs', 2.5))
                finally:
                    with d._lock:
                        d.sleeping -= 1
            elif f is not None:
                raise_for(f, d, key, 'before', oserr=True)
            try:
                off = self._f.tell()
            except OSError:
                off = self._nwritten
            r = self._f.write(data)
            self._nwritten += len(data)
            self._last_write_len = len(data)
            # deliberately no flush: the directory monitor must see what another process would see
            ev = w.log.add('fs.write', label=self.label, path=self.name, offset=off, nbytes=len(data))
            self._osu.writes.append((ev['n'], ev['thread'], self.name, off, len(data)))
            f = d.point(key, 'after')
            if f is not None:
                raise_for(f, d, key, 'after', oserr=True)
        finally:
            with self._guard:
                self._in_write -= 1
        return r

    def seek(self, *a):
        return self._f.seek(*a)

    def tell(self):
        return self._f.tell()

    def fileno(self):
        return self._f.fileno()

    def truncate(self, *a):
        return self._f.truncate(*a)

    def flush(self):
        return self._f.flush()

    def close(self):
        w = self._osu.w
        d = w.director
        if self._f.closed:
            return
        key = d.occurrence(f'{self.label}/fs:close')
        f = d.point(key, 'before')
        if f is not None:
            # a close that fails while flushing (ENOSPC, EDQUOT, EIO): what was still buffered - here the last write - never reaches the file
            try:
                self._f.flush()
                if self._last_write_len:
                    self._f.truncate(max(0, os.fstat(self._f.fileno()).st_size - self._last_write_len))
            except (OSError, ValueError):
                pass
            self._f.close()
            w.log.add('fs.close', label=self.label, path=self.name, raised=True)
            raise_for(f, d, key, 'before', oserr=True)
        self._f.close()
        w.log.add('fs.close', label=self.label, path=self.name)
        d.point(key, 'after')

    @property
    def closed(self):
        return self._f.closed

    def __enter__(self):
        return self

    def __exit__(self, *a):
        self.close()


class _RFile:
    def __init__(self, osu, f, name, label):
        self._osu, self._f, self.name, self.label = osu, f, name, label

    def read(self, amt=None):
        w = self._osu.w
        d = w.director
        key = d.occurrence(f'{self.label}/src:read')
        f = d.point(key, 'before')
        if f is not None:
            raise_for(f, d, key, 'before', oserr=True)
        data = self._f.read() if amt is None else self._f.read(amt)
        w.log.add('src.read', label=self.label, req=amt, nbytes=len(data), pos=self._f.tell(), path=self.name)
        return data

    def seek(self, *a):
        # (the source FILE's own seek as a boundary: EIO from a flaky file system)
        d = self._osu.w.director
        key = d.occurrence(f'{self.label}/fs:seek')
        f = d.point(key, 'before')
        if f is not None:
            raise_for(f, d, key, 'before', oserr=True)
        return self._f.seek(*a)

    def tell(self):
        return self._f.tell()

    def fileno(self):
        return self._f.fileno()

    def close(self):
        self._f.close()

    def __enter__(self):
        return self

    def __exit__(self, *a):
        self.close()


class HookedOSUtils(OSUtils):
    """OSUtils that logs and can fault every file-system effect."""

    def __init__(self, world, labels=None, virtual_sizes=None):
        self.w = world
        self.labels = labels if labels is not None else {}  # final path -> label
        self.virtual_sizes = virtual_sizes or {}
        self.writes = []
        self.overlap = []
        self.temps = []

    def _label(self, path):
        path = os.path.abspath(path)  # the caller may have named the file relative to the working directory
        if path in self.labels:
            return self.labels[path]
        base, ext = os.path.splitext(path)
        if base in self.labels:
            return self.labels[base]
        return os.path.basename(path)

    def get_file_size(self, filename):
        if filename in self.virtual_sizes:
            return self.virtual_sizes[filename]
        d = self.w.director
        key = d.occurrence(f'{self._label(filename)}/fs:size')
        f = d.point(key, 'before')
        if f is not None:
            raise_for(f, d, key, 'before', oserr=True)
        return super().get_file_size(filename)

    def get_temp_filename(self, filename):
        t = super().get_temp_filename(filename)
        self.labels[os.path.abspath(t)] = self._label(filename)
        self.temps.append(os.path.abspath(t))
        self.w.log.add('fs.tempname', label=self._label(filename), path=os.path.abspath(t))
        return t

    def open(self, filename, mode):
        d = self.w.director
        label = self._label(filename)
        kind = 'w' if ('w' in mode or '+' in mode or 'a' in mode) else 'r'
        key = d.occurrence(f'{label}/fs:open{kind}')
        f = d.point(key, 'before')
        if f is not None:
            raise_for(f, d, key, 'before', oserr=True)
        fobj = open(filename, mode)
        filename = os.path.abspath(filename)
        self.w.log.add('fs.open', label=label, path=filename, mode=mode)
        f = d.point(key, 'after')
        if f is not None:
            fobj.close()
            self.w.log.add('fs.close', label=label, path=filename, raised=True)
            raise_for(f, d, key, 'after', oserr=True)
        if kind == 'w':
            return _WFile(self, fobj, filename, label)
        return _RFile(self, fobj, filename, label)

    def remove_file(self, filename):
        d = self.w.director
        label = self._label(filename)
        key = d.occurrence(f'{label}/fs:remove')
        d.point(key, 'before')
        super().remove_file(filename)
        self.w.log.add('fs.remove', label=label, path=os.path.abspath(filename))
        d.point(key, 'after')

    def rename_file(self, current_filename, new_filename):
        d = self.w.director
        label = self._label(new_filename)
        key = d.occurrence(f'{label}/fs:rename')
        f = d.point(key, 'before')
        if f is not None:
            raise_for(f, d, key, 'before', oserr=True)
        a_src, a_dst = os.path.abspath(current_filename), os.path.abspath(new_filename)
        self.w.log.add('fs.rename.begin', label=label, src=a_src, dst=a_dst)
        super().rename_file(current_filename, new_filename)
        self.w.log.add('fs.rename', label=label, src=a_src, dst=a_dst)
        f = d.point(key, 'after')
        if f is not None:
            raise_for(f, d, key, 'after', oserr=True)


# ------------------------------------------------------------ subscribers
class RecordingSubscriber(BaseSubscriber):
    """Logs every callback; can provide a size, raise, or call back into the
    future, as scripted by ``behav``."""

    def __init__(self, world, label, name='s0', behav=None):
        self.w, self.label, self.name = world, label, name
        self.behav = behav or {}
        self.lock = threading.Lock()
        self.progress = []
        self.running_sum = 0
        self.sum_min = 0
        self.sum_max = 0
        self.queued = 0
        self.done = 0
        self.done_info = []

    def _reenter(self, where, future):
        acts = self.behav.get('reenter', {}).get(where, ())
        for act in acts:
            self.w.log.add('cb.reenter', label=self.label, sub=self.name, where=where, act=act)
            if act == 'done':
                future.done()
            elif act == 'meta':
                _ = future.meta.size, future.meta.transfer_id, future.meta.call_args
            elif act == 'cancel':
                future.cancel()
            elif act == 'set_exception':
                try:
                    future.set_exception(InjectedError('FAULT-user-set-exception'))
                except Exception as e:
                    self.w.log.add('cb.reenter.exc', label=self.label, exc=repr(e))
            elif act == 'result':
                try:
                    future.result()
                except Exception:
                    pass
            elif act == 'cancel_sibling':
                # fail-fast callback: cancel the other transfers of this manager (some may not have started yet)
                for sx in list(getattr(self.w, 'xfers', ()) or ()):
                    if sx.label != self.label and sx.future is not None:
                        sx.future.cancel()
            elif act == 'submit_new':
                # chained transfer: a fresh transfer on the same manager, started from inside the callback
                mgr = getattr(self.w, 'mgr', None)
                if mgr is not None:
                    key = f'chained-{self.label}-{self.name}'
                    try:
                        f = mgr.upload(io.BytesIO(b'chained-data'), 'bkt', key)
                        self.w.chained.append((key, f, None))
                    except BaseException as e:  # noqa
                        self.w.chained.append((key, None, e))
            elif act == 'result_other_thread':
                # another thread asks for the result while this callback runs and the callback waits for it (a hand-over to a
                # worker): the answer must come without waiting for the callback to return.  No wall-clock verdict: the helper either
                # finishes, or the process comes to rest with the helper still inside result().
                from . import watchdog

                fin = threading.Event()

                def ask():
                    try:
                        future.result()
                    except BaseException:  # noqa
                        pass
                    fin.set()

                threading.Thread(target=ask, name=f'vf-result-probe-{self.label}', daemon=True).start()
                blocked = False
                with watchdog.paused(), watchdog.polling():
                    end = time.monotonic() + 5.0
                    rest = 0
                    while not fin.is_set() and time.monotonic() < end:
                        time.sleep(0.001)  # (sleeping releases the GIL: a helper that can run does run)
                        rest = rest + 1 if watchdog.quiescent(gap=0.002) else 0
                        if rest >= 3 and not fin.is_set():
                            blocked = True
                            break
                self.w.log.add('cb.result_probe', label=self.label, sub=self.name, where=where, blocked=blocked, answered=fin.is_set())
            self.w.log.add('cb.reenter.ret', label=self.label, sub=self.name, where=where, act=act)

    def on_queued(self, future, **kwargs):
        d = self.w.director
        key = d.occurrence(f'{self.label}/cb:on_queued:{self.name}')
        with self.lock:
            self.queued += 1
        self.w.log.add('cb.on_queued', label=self.label, sub=self.name)
        if 'provide_size' in self.behav:
            future.meta.provide_transfer_size(self.behav['provide_size'])
        self._reenter('on_queued', future)
        f = d.point(key, 'before')
        if f is not None:
            self.w.log.add('cb.on_queued.ret', label=self.label, sub=self.name, raised=True)
            raise_for(f, d, key, 'before')
        self.w.log.add('cb.on_queued.ret', label=self.label, sub=self.name)

    def on_progress(self, future, bytes_transferred, **kwargs):
        d = self.w.director
        key = d.occurrence(f'{self.label}/cb:on_progress:{self.name}')
        with self.lock:
            self.progress.append(bytes_transferred)
            self.running_sum += bytes_transferred
            self.sum_min = min(self.sum_min, self.running_sum)
            self.sum_max = max(self.sum_max, self.running_sum)
            rs = self.running_sum
            self.w.log.add('cb.on_progress', label=self.label, sub=self.name, nbytes=bytes_transferred, running=rs)
        self._reenter('on_progress', future)
        f = d.point(key, 'before')
        if f is not None:
            raise_for(f, d, key, 'before')
        if bytes_transferred < 0:
            # progress being taken back (a body re-sent / a download range re-requested): addressable on its own
            key2 = d.occurrence(f'{self.label}/cb:on_progress_rewind:{self.name}')
            f = d.point(key2, 'before')
            if f is not None:
                raise_for(f, d, key2, 'before')

    def on_done(self, future, **kwargs):
        d = self.w.director
        key = d.occurrence(f'{self.label}/cb:on_done:{self.name}')
        with self.lock:
            self.done += 1
        isdone = future.done()
        ev = self.w.log.add('cb.on_done', label=self.label, sub=self.name, future_done=isdone)
        self.done_info.append({'n': ev['n'], 'future_done': isdone})
        self._reenter('on_done', future)
        f = d.point(key, 'before')
        if f is not None:
            self.w.log.add('cb.on_done.ret', label=self.label, sub=self.name, raised=True)
            raise_for(f, d, key, 'before')
        self.w.log.add('cb.on_done.ret', label=self.label, sub=self.name)


class InheritedSubscriber(RecordingSubscriber):
    """A subscriber whose callbacks are all INHERITED: the leaf class defines none of its own (a project's base subscriber with
    per-use subclasses that only carry data)."""


class SharedSubscriber(BaseSubscriber):
    """ONE subscriber object given to several transfers (a progress printer, a result collector): which transfer a callback is about
    is what its ``future`` argument says.  Each call is attributed by the key in future.meta.call_args and recorded by an inner
    per-transfer recorder, so the usual per-transfer oracles apply."""

    def __init__(self, world, label, name='s0', behav=None):
        self.w, self.label, self.name, self.behav = world, label, name, dict(behav or {})
        self._inner = {}
        self._lock = threading.Lock()

    def _for(self, future):
        key = future.meta.call_args.key
        lbl = None
        for (bk, k), l in list(self.w.s3.labels.items()):
            if k == key:
                lbl = l
                break
        lbl = lbl or self.label
        with self._lock:
            if lbl not in self._inner:
                self._inner[lbl] = RecordingSubscriber(self.w, lbl, self.name, self.behav)
            return self._inner[lbl]

    def view(self, label):
        """The recorder holding what was delivered for the transfer `label` (an empty one if nothing was)."""
        with self._lock:
            if label not in self._inner:
                self._inner[label] = RecordingSubscriber(self.w, label, self.name, self.behav)
            return self._inner[label]

    def on_queued(self, future, **kwargs):
        return self._for(future).on_queued(future, **kwargs)

    def on_progress(self, future, bytes_transferred, **kwargs):
        return self._for(future).on_progress(future, bytes_transferred, **kwargs)

    def on_done(self, future, **kwargs):
        return self._for(future).on_done(future, **kwargs)


class FalsySubscriber(RecordingSubscriber):
    """A subscriber object that is FALSY when handed over (a result collector whose len() is the number of results so far, a recorder
    derived from list / dict): still a subscriber, every callback is due."""

    def __len__(self):
        return 0


class _CallbackMixin:
    def on_queued(self, future, **kwargs):
        return RecordingSubscriber.on_queued(self, future, **kwargs)

    def on_progress(self, future, bytes_transferred, **kwargs):
        return RecordingSubscriber.on_progress(self, future, bytes_transferred, **kwargs)

    def on_done(self, future, **kwargs):
        return RecordingSubscriber.on_done(self, future, **kwargs)


class MixinSubscriber(_CallbackMixin, BaseSubscriber):
    """A BaseSubscriber whose callbacks come from a mixin class."""

    __init__ = RecordingSubscriber.__init__
    _reenter = RecordingSubscriber._reenter


_partial_classes = {}


def partial_subscriber(only):
    """A subscriber class that is NOT a BaseSubscriber and offers only the callbacks named in ``only`` (e.g. ['on_done'])."""
    key = tuple(sorted(only))
    if key not in _partial_classes:
        ns = {'__init__': RecordingSubscriber.__init__, '_reenter': RecordingSubscriber._reenter}
        for name in key:
            ns[name] = getattr(RecordingSubscriber, name)
        _partial_classes[key] = type('PartialSubscriber_' + '_'.join(k[3:] for k in key), (object,), ns)
    return _partial_classes[key]


# -------------------------------------------------------------- executors
_stage_names = ['request', 'submission', 'io']


class StageExecutorFactory:
    """``executor_cls`` for TransferManager.  The manager constructs, in order,
    the request, submission and IO executors; each instance tags its worker
    threads with the stage and counts work items submitted-and-not-finished."""

    def __init__(self, world):
        self.w = world
        self.made = []

    def __call__(self, max_workers=None):
        idx = len(self.made)
        stage = _stage_names[idx] if idx < 3 else f'extra{idx}'
        ex = StageExecutor(self.w, stage, max_workers)
        self.made.append(ex)
        return ex


class StageExecutor(ThreadPoolExecutor):
    def __init__(self, world, stage, max_workers):
        self.w, self.stage = world, stage
        self.max_workers_cfg = max_workers
        self._cnt_lock = threading.Lock()
        self._submit_lock = threading.Lock()
        self.outstanding = 0
        self.max_outstanding = 0
        self.submitted = 0
        self.order_submitted = []
        self.order_started = []
        self.by_type = {}
        self.max_by_type = {}

        def init():
            threading.current_thread().vf_stage = stage

        super().__init__(max_workers=max_workers, thread_name_prefix=f'vf-{stage}', initializer=init)

    def submit(self, fn, *args, **kwargs):
        # sequence number and enqueue are one atomic step, so seq order == queue order
        with self._submit_lock:
            tname = type(fn).__name__
            with self._cnt_lock:
                self.outstanding += 1
                self.submitted += 1
                seq = self.submitted
                if self.outstanding > self.max_outstanding:
                    self.max_outstanding = self.outstanding
                c = self.by_type.get(tname, 0) + 1
                self.by_type[tname] = c
                if c > self.max_by_type.get(tname, 0):
                    self.max_by_type[tname] = c
            tid = getattr(getattr(fn, '_transfer_coordinator', None), 'transfer_id', None)
            nbytes = None
            if self.stage == 'io':
                # every bytes-like object reachable from the task's arguments (a task may carry one block, or a list / dict of blocks)
                nbytes = _payload_bytes(getattr(fn, '_main_kwargs', None) or {})
            self.w.log.add('exec.submit', stage_of=self.stage, seq=seq, outstanding=self.outstanding, task=type(fn).__name__, tid=tid, nbytes=nbytes)

            def run(*a, **k):
                self.w.log.add('exec.start', stage_of=self.stage, seq=seq, task=type(fn).__name__, tid=tid)
                err = None
                try:
                    return fn(*a, **k)
                except BaseException as e:  # noqa - observed, then passed on unchanged
                    err = f'{type(e).__name__}: {e}'[:200]
                    raise
                finally:
                    with self._cnt_lock:
                        self.outstanding -= 1
                        self.by_type[tname] -= 1
                    self.w.log.add('exec.finish', stage_of=self.stage, seq=seq, task=type(fn).__name__, tid=tid, escaped=err)

            try:
                return super().submit(run, *args, **kwargs)
            except BaseException:
                with self._cnt_lock:
                    self.outstanding -= 1
                    self.by_type[tname] -= 1
                raise
