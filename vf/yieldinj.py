"""Yield injection and race-window steering via sys.monitoring LINE events,
enabled only on the code objects of s3transfer/*.py (botocore and the harness
run at full speed)."""
import os
import random
import sys
import threading
import time
import types

import s3transfer

TOOL_ID = 4
_installed = None


def _code_objects():
    root = os.path.dirname(s3transfer.__file__)
    seen = set()
    out = []

    def walk(co):
        if id(co) in seen:
            return
        seen.add(id(co))
        out.append(co)
        for c in co.co_consts:
            if isinstance(c, types.CodeType):
                walk(c)

    for name, mod in list(sys.modules.items()):
        f = getattr(mod, '__file__', None)
        if not f or not name.startswith('s3transfer') or not f.startswith(root):
            continue
        for obj in vars(mod).values():
            if isinstance(obj, types.FunctionType) and obj.__code__.co_filename.startswith(root):
                walk(obj.__code__)
            elif isinstance(obj, type) and getattr(obj, '__module__', '') == name:
                for m in vars(obj).values():
                    fn = getattr(m, '__func__', m)
                    if isinstance(fn, property):
                        for g in (fn.fget, fn.fset):
                            if g is not None:
                                walk(g.__code__)
                    elif isinstance(fn, types.FunctionType):
                        walk(fn.__code__)
    return out


def all_lines(files):
    """[(basename, lineno, qualname)] for every statement line of every function in the given s3transfer files."""
    import dis

    out = []
    seen = set()
    for co in _code_objects():
        base = os.path.basename(co.co_filename)
        if base not in files:
            continue
        for _, ln in dis.findlinestarts(co):
            if ln is None or ln == co.co_firstlineno or (base, ln) in seen:
                continue
            seen.add((base, ln))
            out.append((base, ln, co.co_qualname))
    return sorted(out)


def rmw_sites(files):
    """[(basename, lineno, qualname)] of every read-modify-write statement on shared state (``obj.attr += x``, ``obj[k] -= x``) in
    the given s3transfer files: the places where an update can be lost if two threads are inside the statement at once."""
    import dis

    out = []
    seen = set()
    for co in _code_objects():
        base = os.path.basename(co.co_filename)
        if base not in files:
            continue
        for off, ln in _rmw_offsets(co):
            if (base, ln) not in seen:
                seen.add((base, ln))
                out.append((base, ln, co.co_qualname))
    return sorted(out)


def _rmw_offsets(co):
    """(offset of the storing instruction, line) for each in-place update of an attribute / item in the code object."""
    import dis

    out = []
    ins = list(dis.get_instructions(co))
    for i, x in enumerate(ins):
        if x.opname in ('STORE_ATTR', 'STORE_SUBSCR'):
            ln = x.positions.lineno if x.positions else None
            # an in-place binary operation earlier on the same line marks ``target op= value``
            j = i - 1
            while j >= 0 and ins[j].positions and ins[j].positions.lineno == ln:
                if ins[j].opname == 'BINARY_OP' and '=' in (ins[j].argrepr or ''):
                    out.append((x.offset, ln))
                    break
                j -= 1
    return out


def find_line(filename, text, nth=0):
    """Line number (1-based) of the nth source line containing ``text``."""
    path = os.path.join(os.path.dirname(s3transfer.__file__), filename)
    hits = []
    with open(path) as f:
        for i, line in enumerate(f, 1):
            if text in line:
                hits.append(i)
    return hits[nth] if len(hits) > nth else None


class Injector:
    """p: probability of yielding at a line; windows: list of dicts
    {'file', 'line', 'nth', 'action': callable, 'name'} — the nth time any
    thread is about to execute that line it pauses there while ``action`` runs
    on a helper thread (bounded wait), then continues."""

    def __init__(self, p=0.0, seed=0, windows=(), files=None, sleep_max=0.0003):
        self.p = p
        self.seed = seed
        self.files = files
        self.windows = {}
        for w in windows:
            self.windows.setdefault((w['file'], w['line']), []).append(dict(w, hits=0, fired=False))
        self.tls = threading.local()
        self.events = 0
        self.yields = 0
        self.window_hits = {}
        self.sleep_max = sleep_max
        self.codes = []
        self.icodes = []
        self.rmw_targets = {}  # (id(code), offset) -> window list: the thread is held between the load and the store of ``x op= y``
        self.active = False

    def _rng(self):
        r = getattr(self.tls, 'rng', None)
        if r is None:
            r = self.tls.rng = random.Random(hash((self.seed, threading.current_thread().name)))
        return r

    def _cb(self, code, line):
        if not self.active:
            return
        self.events += 1
        if self.windows:
            ws = self.windows.get((os.path.basename(code.co_filename), line))
            if ws:
                for w in ws:
                    if w['fired']:
                        continue
                    k = w['hits']
                    w['hits'] = k + 1
                    if k == w.get('nth', 0):
                        w['fired'] = True
                        self.window_hits[w.get('name', f'{w["file"]}:{line}')] = threading.current_thread().name
                        if w.get('action') == 'pause':
                            # preempt this thread here until every other thread has run as far as it can
                            from . import watchdog

                            end = time.monotonic() + w.get('wait', 0.3)
                            with watchdog.paused(), watchdog.polling():
                                while time.monotonic() < end:
                                    # (another thread the harness is still holding has NOT run as far as it can)
                                    if watchdog.PAUSED[0] <= 1 and watchdog.quiescent(gap=0.001):
                                        break
                                    if watchdog.PAUSED[0] > 1:
                                        time.sleep(0.001)
                            continue
                        done = threading.Event()

                        def run(w=w, done=done):
                            try:
                                w['action']()
                            finally:
                                done.set()

                        from . import watchdog

                        with watchdog.paused():
                            threading.Thread(target=run, name='vf-window-action', daemon=True).start()
                            done.wait(w.get('wait', 0.3))
        if self.p:
            r = self._rng()
            if r.random() < self.p:
                self.yields += 1
                if r.random() < 0.7:
                    time.sleep(0)
                else:
                    time.sleep(r.random() * self.sleep_max)

    def _icb(self, code, offset):
        if not self.active:
            return
        ws = self.rmw_targets.get((id(code), offset))
        if not ws:
            return
        for w in ws:
            if w['fired']:
                continue
            k = w['hits']
            w['hits'] = k + 1
            if k == w.get('nth', 0):
                w['fired'] = True
                self.window_hits[w.get('name', f'{w["file"]}:{w["line"]}')] = threading.current_thread().name
                from . import watchdog

                end = time.monotonic() + w.get('wait', 0.3)
                with watchdog.paused(), watchdog.polling():
                    while time.monotonic() < end:
                        if watchdog.quiescent(gap=0.001):
                            break

    def install(self):
        global _installed
        mon = sys.monitoring
        if _installed is not None:
            _installed.uninstall()
        mon.use_tool_id(TOOL_ID, 'vf-yield')
        mon.register_callback(TOOL_ID, mon.events.LINE, self._cb)
        self.codes = [c for c in _code_objects()
                      if self.files is None or os.path.basename(c.co_filename) in self.files]
        rmw = {k: [w for w in ws if w.get('rmw')] for k, ws in self.windows.items()}
        rmw = {k: ws for k, ws in rmw.items() if ws}
        if rmw:
            # windows INSIDE one statement: instruction events on the functions holding the targeted ``x op= y`` lines; the thread
            # is held just before the store, i.e. after it has read the old value
            mon.register_callback(TOOL_ID, mon.events.INSTRUCTION, self._icb)
            for c in _code_objects():
                base = os.path.basename(c.co_filename)
                hit = False
                for off, ln in _rmw_offsets(c):
                    ws = rmw.get((base, ln))
                    if ws:
                        self.rmw_targets.setdefault((id(c), off), []).extend(ws)
                        hit = True
                if hit:
                    self.icodes.append(c)
            for k in rmw:
                self.windows[k] = [w for w in self.windows[k] if not w.get('rmw')]
        for c in self.codes:
            ev = mon.events.LINE
            if c in self.icodes:
                ev |= mon.events.INSTRUCTION
            mon.set_local_events(TOOL_ID, c, ev)
        for c in self.icodes:
            if c not in self.codes:
                mon.set_local_events(TOOL_ID, c, mon.events.INSTRUCTION)
        self.active = True
        _installed = self
        return self

    def uninstall(self):
        global _installed
        mon = sys.monitoring
        self.active = False
        for c in list(self.codes) + list(self.icodes):
            try:
                mon.set_local_events(TOOL_ID, c, 0)
            except Exception:
                pass
        try:
            mon.register_callback(TOOL_ID, mon.events.INSTRUCTION, None)
        except Exception:
            pass
        try:
            mon.register_callback(TOOL_ID, mon.events.LINE, None)
            mon.free_tool_id(TOOL_ID)
        except Exception:
            pass
        if _installed is self:
            _installed = None
