"""C08 — subscriber callbacks: exactly once, in order, after the work."""
import copy
import random

from .. import e2e, gen, oracles
from . import c03

PROPERTY = 'C08'
LEVEL = 'exploration'
RULE = ('every transfer type/mode x every outcome (success; one run per fault position from a dry run; one run per cancel position '
        'and entry point) with two or three recording subscribers (one may raise in on_done, one may provide the size in on_queued); '
        'plus the double-announce schedules: a cancel steered (sys.monitoring line windows) into the submission task\'s done()-check, '
        'status transitions and announce_done while the submission thread is running, repeated with line-level yield injection; '
        'oracle over the merged event log (callbacks and fake-S3 records share one counter): on_queued exactly once before any S3 '
        'request (0 allowed only if a cancel preceded it, and then no request at all); on_done exactly once per subscriber, with '
        'future.done() true, no request of the transfer still in flight or beginning later, no cleanup (abort / temp removal / write) '
        'later, no on_progress later; a raising on_done does not suppress the others; a provided size suppresses HeadObject; '
        'also: subscribers whose on_done hands the future to another thread that calls result() and waits for it (must be answered while on_done runs); duck-typed partial subscribers, on_queued/on_done ordering (no on_queued after or around an on_done of the same transfer); non-trivial = on_done observed for every subscriber and at least one S3 request or a cancel-before-start; distinct = (shape, '
        'interleaving signature)')
ASSUMPTIONS = ['result()-does-not-block inside on_done: same-thread calls are probed by the re-entrant subscriber families of C04; calls from '
               'ANOTHER thread while on_done runs are probed here (result_other_thread subscribers, verdict at quiescence)']
CASE_TIMEOUT = 120.0

SUBS_MENU = [
    [{}, {}],
    [{'only': ['on_done']}, {}],
    [{'only': ['on_queued', 'on_done']}, {'only': ['on_progress']}, {}],
    [{}, {'raise_on_done': True}, {}],
    [{'raise_on_done': True}, {}],
    [{'flavor': 'inherited'}, {}],
    [{}, {'flavor': 'mixin'}],
    [{'flavor': 'falsy'}, {}],
    [{}, {'flavor': 'falsy'}],
    [{'flavor': 'mixin'}, {'flavor': 'inherited', 'raise_on_done': True}, {}],
    [{'reenter': {'on_done': ['result_other_thread']}}, {}],
    [{}, {'only': ['on_done'], 'reenter': {'on_done': ['result_other_thread']}}],
    [{'raise_on_done': True}, {'reenter': {'on_done': ['result_other_thread', 'done']}}],
]


def bases():
    out = []
    cfg = dict(multipart_threshold=16, multipart_chunksize=8, io_chunksize=4, max_request_concurrency=2, max_submission_concurrency=1,
               num_download_attempts=2)
    for kind, extra in gen.KINDS:
        for size in (10, 20):
            if kind == 'delete' and size == 20:
                continue
            t = dict({'kind': kind, 'size': size}, **extra)
            if kind == 'download' and extra['dst'] == 'path':
                t['preexisting'] = size == 20
            out.append({'min_part': 8, 'config': dict(cfg), 'transfers': [t]})
    # multipart transfers of exactly ONE part (multipart_threshold <= size <= multipart_chunksize)
    cfg1 = dict(cfg, multipart_threshold=8, multipart_chunksize=16)
    for t in ({'kind': 'upload', 'src': 'path', 'size': 12}, {'kind': 'upload', 'src': 'nonseekable', 'size': 12}, {'kind': 'copy', 'size': 12},
              {'kind': 'download', 'dst': 'path', 'size': 12}, {'kind': 'download', 'dst': 'nonseekable', 'size': 12}):
        out.append({'min_part': 16, 'config': dict(cfg1), 'transfers': [t]})
    return out


def with_subs(spec, rng, size_ok=True):
    t = spec['transfers'][0]
    subs = copy.deepcopy(rng.choice(SUBS_MENU))
    for s in subs:
        if s.pop('raise_on_done', False):
            s['_raise_on_done'] = True
    t['subs'] = subs
    if size_ok and t['kind'] in ('download', 'copy') and rng.random() < 0.4:
        [s for s in subs if 'only' not in s or 'on_queued' in s['only']][0]['provide_size'] = t['size']
    plan = spec.setdefault('plan', {})
    for i, s in enumerate(subs):
        if s.pop('_raise_on_done', False):
            # (whatever the callback raises - also the library's own CancelledError / FatalError, which is what an unguarded
            # future.result() inside on_done raises for a cancelled transfer)
            plan.setdefault('faults', []).append({'at': f't0/cb:on_done:s{i}#0', 'phase': 'before', 'kind': rng.choice(['exc', 'exc', 'cancelled_exc', 'fatal_exc', 'oserror']),
                                                  'tag': f'FAULT-ondone-{i}'})
    return spec


def gen_cases(tier, seed):
    rng = random.Random(seed)
    quick = tier == 'quick'
    cases = []
    for bi, base in enumerate(bases()):
        keys, bodies, upbodies, ok = c03.dry_keys(base)
        if not ok:
            continue
        for rep in range(2 if quick else 6):
            s = copy.deepcopy(base)
            s['seed'] = rng.randrange(1 << 30)
            s['plan'] = {'delay_p': rng.choice([0.0, 0.3])}
            cases.append(with_subs(s, rng))
        for k in keys:
            fl = c03.faults_for_key(k, bodies, upbodies, True)
            if quick and len(fl) > 2:
                fl = rng.sample(fl, 2)
            for i, f in enumerate(fl):
                s = copy.deepcopy(base)
                s['seed'] = rng.randrange(1 << 30)
                s['plan'] = {'faults': [dict(f, tag=f'FAULT-{bi}-{i}')], 'delay_p': rng.choice([0.0, 0.3])}
                cases.append(with_subs(s, rng, size_ok=False))
            if '/cb:on_done' in k or '.read#' in k or '/fs:remove' in k:
                continue
            for phase in ('before', 'after'):
                entries = [('future.cancel', 'event'), ('future.cancel', 'main'), ('shutdown_cancel', None), ('with_exc', None)]
                chosen = rng.sample(entries, 1) if quick else entries
                if '/cb:on_queued' in k and entries[0] not in chosen:
                    chosen = chosen + [entries[0]]  # a subscriber cancelling its own transfer from inside on_queued
                for (how, frm) in chosen:
                    s = copy.deepcopy(base)
                    s['seed'] = rng.randrange(1 << 30)
                    if how == 'future.cancel':
                        s['plan'] = {'cancel': {'at': k, 'phase': phase, 'how': how, 'from': frm}}
                    else:
                        s['mode'] = how
                        s['trigger'] = 'event'
                        s['plan'] = {'cancel': {'at': k, 'phase': phase, 'how': how, 'from': 'main'}}
                    cases.append(with_subs(s, rng, size_ok=False))
    # one part of a multipart upload / copy fails while a sibling request of the same transfer simply takes LONG (10 s and more of real
    # time): the abort, on_done and the return of result() wait for it, however long it takes (the third real-time element of the
    # machinery: a give-up time beyond the stall is out of reach)
    for i in range(1 if quick else 4):
        kind = rng.choice(['copy', 'upload'])
        op = 'UploadPartCopy' if kind == 'copy' else 'UploadPart'
        t = {'kind': kind, 'size': 20}
        if kind == 'upload':
            t['src'] = rng.choice(['path', 'seekable'])
        secs = 10.0 if quick else rng.choice([10.0, 14.0])
        cases.append({'seed': rng.randrange(1 << 30), 'min_part': 8, 'family': 'slow-sibling-request', 'wall_timeout': 60.0,
                      'config': dict(multipart_threshold=16, multipart_chunksize=8, max_request_concurrency=3), 'transfers': [t],
                      'plan': {'faults': [{'at': f't0/s3:{op}:1#0', 'phase': 'before', 'kind': 'exc', 'tag': 'FAULT-part1'},
                                          {'at': f't0/s3:{op}:2#0', 'phase': rng.choice(['before', 'after']), 'kind': 'stall', 'secs': secs, 'tag': 'STALL'}]}})
    # a BaseException that is neither an Exception nor a KeyboardInterrupt (sys.exit() in a callback, a framework's cancellation class)
    # raised inside the submission step: on_done still runs exactly once
    cases += c03.base_in_submission_cases(rng, quick)
    # a size supplied in on_queued (including 0, the size of an empty object) suppresses the size-discovery request
    for kind, extra in gen.KINDS:
        if kind not in ('download', 'copy'):
            continue
        for size in (0, 1, 15, 16, 20):
            for rep in range(1 if quick else 3):
                t = dict({'kind': kind, 'size': size, 'subs': [{'provide_size': size}, {}]}, **extra)
                cases.append({'seed': rng.randrange(1 << 30), 'min_part': 8, 'transfers': [t],
                              'config': dict(multipart_threshold=16, multipart_chunksize=8, io_chunksize=4, max_request_concurrency=2)})
    # cancel before start (also with a first subscriber whose on_done calls back into its own future: the other subscribers' on_done
    # still has to run)
    for kind, extra in gen.KINDS + gen.KINDS:
        t0 = {'kind': 'upload', 'src': 'path', 'size': 5}
        t1 = dict({'kind': kind, 'size': rng.choice([5, 20])}, **extra)
        t1['subs'] = rng.choice([[{}, {}], [{}, {}], [{'reenter': {'on_done': ['set_exception']}}, {}], [{'reenter': {'on_done': ['cancel', 'done']}}, {}],
                                 [{}, {'reenter': {'on_done': ['result', 'set_exception']}}, {}]])
        cfg = dict(multipart_threshold=16, multipart_chunksize=8, io_chunksize=4, max_submission_concurrency=1)
        cases.append({'seed': rng.randrange(1 << 30), 'min_part': 8, 'config': cfg, 'transfers': [t0, t1], 'family': 'not-started',
                      'plan': {'gate': {'match': 't0/cb:on_queued', 'phase': 'before', 'count': 1, 'after_cancel_begin': True},
                               'cancel': {'at': '@after_submit', 'target': 1, 'how': 'future.cancel'}}})
    # cancel racing the start: the canceller is held at each statement of TransferCoordinator.cancel() while the transfer, until
    # then waiting behind a blocker in the submission queue, is started and gets as far as its first request (held at a gate);
    # then the canceller carries on.  Whoever announces done, on_done must come after that request has returned.
    from .. import windows as _w

    clines = [l for l in _w.candidate_lines(['futures.py']) if l[2] == 'TransferCoordinator.cancel']
    for line in clines:
        for kind, extra in (gen.KINDS if not quick else rng.sample(gen.KINDS, 4)):
            t0 = {'kind': 'upload', 'src': 'path', 'size': 5}
            t1 = dict({'kind': kind, 'size': rng.choice([5, 20])}, **extra)
            t1['subs'] = [{}, {}]
            cfg = dict(multipart_threshold=16, multipart_chunksize=8, io_chunksize=4, max_submission_concurrency=1)
            cases.append({'seed': rng.randrange(1 << 30), 'min_part': 8, 'config': cfg, 'transfers': [t0, t1], 'family': 'cancel-racing-start',
                          'plan': {'gate': {'match': ['t0/cb:on_queued', 't1/s3:'], 'phase': 'before', 'after_cancel_begin': True, 'hold_while_paused': True},
                                   'cancel': {'at': '@after_submit', 'target': 1, 'how': 'future.cancel'}},
                          'yield': {'p': 0.0, 'files': ['futures.py'],
                                    'window': {'file': line[0], 'lineno': line[1], 'nth': 0, 'action': 'let_start', 'name': f'{line[0]}:{line[1]}:{line[2]}',
                                               'wait': 2.0, 'release_prefix': 't0/', 'until_label': 't1'}}})
    # double-announce windows: cancel lands while the submission thread is inside these lines
    windows = [
        {'file': 'tasks.py', 'text': 'self._transfer_coordinator.set_status_to_queued()', 'name': 'before-queued'},
        {'file': 'tasks.py', 'text': 'on_queued_callbacks = get_callbacks(transfer_future', 'name': 'after-queued'},
        {'file': 'tasks.py', 'text': 'self._transfer_coordinator.set_status_to_running()', 'name': 'before-running'},
        {'file': 'tasks.py', 'text': 'return self._execute_main(kwargs)', 'name': 'task-after-done-check'},
        {'file': 'tasks.py', 'text': 'self._wait_for_all_submitted_futures_to_complete()', 'name': 'submission-error-path'},
        {'file': 'tasks.py', 'text': 'self._transfer_coordinator.announce_done()', 'name': 'before-announce-final', 'occ': 0},
        {'file': 'tasks.py', 'text': 'self._transfer_coordinator.announce_done()', 'name': 'before-announce-submission', 'occ': 1},
        {'file': 'futures.py', 'text': 'self._run_failure_cleanups()', 'name': 'announce-before-cleanups'},
        {'file': 'futures.py', 'text': 'self._done_event.set()', 'name': 'announce-before-event-set'},
        {'file': 'futures.py', 'text': 'self._run_done_callbacks()', 'name': 'announce-before-callbacks', 'occ': 0},
        {'file': 'futures.py', 'text': 'self._done_callbacks = []', 'name': 'before-clear-callbacks'},
    ]
    for wdw in windows:
        for kind, extra in gen.KINDS:
            for nth in range(2 if quick else 5):
                for rep in range(1 if quick else 3):
                    t = dict({'kind': kind, 'size': rng.choice([5, 20])}, **extra)
                    # (also with a subscriber whose on_done RAISES: it, too, is called once, however often done is announced)
                    t['subs'] = [{}, {}]
                    raiser = rng.choice([None, None, 0, 1])
                    cfg = dict(multipart_threshold=16, multipart_chunksize=8, io_chunksize=4, max_request_concurrency=2)
                    sp = {'seed': rng.randrange(1 << 30), 'min_part': 8, 'config': cfg, 'transfers': [t], 'family': 'window',
                          'yield': {'p': rng.choice([0.0, 0.1, 0.3]), 'window': dict(wdw, nth=nth, target=0)}}
                    if raiser is not None:
                        sp['plan'] = {'faults': [{'at': f't0/cb:on_done:s{raiser}#0', 'phase': 'before', 'kind': 'exc', 'tag': f'FAULT-ondone-{raiser}'}]}
                    if wdw['name'] == 'submission-error-path':
                        sp.setdefault('plan', {}).setdefault('faults', []).append({'at': 't0/cb:on_queued:s1#0', 'phase': 'before', 'kind': 'exc', 'tag': 'FAULT-q'})
                    cases.append(sp)
                    # the same window with a slow on_done: the first announcer is held inside a subscriber's on_done (parked
                    # until the process is quiescent) so that a second announce_done overlaps the first one's callbacks
                    sp2 = copy.deepcopy(sp)
                    sp2['seed'] = rng.randrange(1 << 30)
                    sp2['yield']['window']['wait'] = 0.05
                    sp2.setdefault('plan', {})['gate'] = {'match': '/cb:on_done', 'phase': 'before', 'count': rng.choice([1, 2])}
                    sp2['family'] = 'window-slow-on_done'
                    cases.append(sp2)
    rng.shuffle(cases)
    from ..gen import sprinkle

    sprinkle(cases, seed)
    return cases


def evaluate(obs):
    viol = []
    stats = {'on_done_seen': 0, 'on_queued_seen': 0, 'progress_seen': 0, 'cancel_fired': 1 if obs.cancel_events else 0,
             'faults_hit': len(obs.world.director.raised), 'window_hits': len(obs.injector.window_hits) if obs.injector else 0,
             'raising_on_done': 0, 'size_provided': 0, 'not_started': 0,
             'result_probes': len([e for e in obs.events if e['kind'] == 'cb.result_probe']),
             'result_probes_answered': len([e for e in obs.events if e['kind'] == 'cb.result_probe' and e.get('answered')])}
    fam = obs.spec.get('family')
    nontrivial = False
    for x in obs.xfers:
        if x.outcome is None:
            continue
        ns = fam == 'not-started' and x.idx == 1
        if ns:
            stats['not_started'] += 1
        viol += oracles.callbacks_oracle(obs, x, expect_no_start=ns)
        evs = [e for e in obs.events if e.get('label') == x.label]
        dn = [e for e in evs if e['kind'] == 'cb.on_done']
        stats['on_done_seen'] += len(dn)
        stats['on_queued_seen'] += len([e for e in evs if e['kind'] == 'cb.on_queued'])
        stats['progress_seen'] += len([e for e in evs if e['kind'] == 'cb.on_progress'])
        raised_in_done = [r for r in obs.world.director.raised if '/cb:on_done' in r['key'] and r['key'].startswith(x.label + '/')]
        stats['raising_on_done'] += len(raised_in_done)
        if any('provide_size' in (s.behav or {}) for s in x.subs):
            stats['size_provided'] += 1
            heads = [e for e in evs if e['kind'] == 'api.begin' and e['op'] == 'HeadObject']
            if heads:
                viol.append(oracles.V(f'{x.label}: size was provided in on_queued but HeadObject was still issued',
                                      **oracles.base_mech(obs, x), sym='head-after-size'))
        if len(dn) >= len([s for s in x.subs if hasattr(s, 'on_done')]) and (any(e['kind'] == 'api.begin' for e in evs) or ns):
            nontrivial = True
    summary = {'outcomes': e2e.default_outcomes(obs), 'window': obs.injector.window_hits if obs.injector else None,
               'callbacks': [(e['n'], e['kind'], e.get('sub')) for e in obs.events if e['kind'].startswith('cb.on_') and not e['kind'].endswith('.ret')][:30]}
    return viol, stats, nontrivial, summary


def run_case(case):
    # (a transfer that never finishes has on_done callbacks that never run: a deadlock verdict is a violation here too)
    return e2e.run_with(case, evaluate, liveness=True)
