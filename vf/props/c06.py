"""C06 — file downloads are published atomically and leave no temporary files."""
import copy
import random

from .. import e2e, oracles
from . import c03

PROPERTY = 'C06'
LEVEL = 'fault_enumeration'
RULE = ('downloads to a file path (single and ranged; destination absent or pre-existing) through the transfer manager, '
        'legacy S3Transfer.download_file and the process-pool worker loop replayed in-process; a dry run lists boundary '
        'events, then one run per fault in open / each write / close / rename / every request / response body, and one per '
        'cancel point; the destination directory and the bytes under the destination name are inspected at EVERY boundary '
        'event of every thread (all file-system effects go through the hooked OSUtils/file wrappers, so that is every state '
        'another process could observe) and again once the future is done; also base names of 255 / 250 / 246 characters (temporary name derived by truncation); non-trivial = at least 5 inspections happened '
        'and the final-state oracle ran; distinct = (shape incl. fault/cancel site, interleaving signature)')
ASSUMPTIONS = [
    'torn writes / power loss below the syscall level are not observable',
    'process-pool front-end is replayed in-process (threads), see C19 for real processes',
]
CASE_TIMEOUT = 120.0


def bases():
    out = []
    cfg = dict(multipart_threshold=16, multipart_chunksize=8, io_chunksize=4, max_request_concurrency=2, num_download_attempts=2)
    for size in (10, 20):
        for pre in (False, True):
            out.append({'config': dict(cfg), 'dirwatch': True,
                        'transfers': [{'kind': 'download', 'dst': 'path', 'size': size, 'preexisting': pre}]})
    # the destination name is a symbolic link to an existing ordinary file: published by rename all the same
    for size in (10, 20):
        out.append({'config': dict(cfg), 'dirwatch': True,
                    'transfers': [{'kind': 'download', 'dst': 'path', 'size': size, 'preexisting': True, 'symlink': True}]})
    lcfg = dict(multipart_threshold=16, multipart_chunksize=8, max_concurrency=2, num_download_attempts=2, max_io_queue=2)
    for size in (10, 20):
        out.append({'front_end': 'legacy', 'config': dict(lcfg), 'dirwatch': True,
                    'transfers': [{'kind': 'download', 'dst': 'path', 'size': size, 'preexisting': size == 20}]})
    pcfg = dict(multipart_threshold=16, multipart_chunksize=8, workers=2, io_chunksize=4)
    for size in (10, 20):
        out.append({'front_end': 'procpool', 'config': dict(pcfg), 'dirwatch': True,
                    'transfers': [{'kind': 'download', 'dst': 'path', 'size': size, 'preexisting': size == 10}]})
    # base names at and near the file-system limit (the temporary name has to be derived by truncation there)
    out.append({'config': dict(cfg), 'dirwatch': True,
                'transfers': [{'kind': 'download', 'dst': 'path', 'size': 20, 'preexisting': True, 'name_len': 255}]})
    out.append({'config': dict(cfg), 'dirwatch': True,
                'transfers': [{'kind': 'download', 'dst': 'path', 'size': 10, 'preexisting': False, 'name_len': 250}]})
    out.append({'front_end': 'procpool', 'config': dict(pcfg), 'dirwatch': True,
                'transfers': [{'kind': 'download', 'dst': 'path', 'size': 20, 'preexisting': True, 'name_len': 255}]})
    out.append({'front_end': 'legacy', 'config': dict(lcfg), 'dirwatch': True,
                'transfers': [{'kind': 'download', 'dst': 'path', 'size': 20, 'preexisting': True, 'name_len': 246}]})
    # the destination path names a special file (a FIFO with a reader, also through a symbolic link): nothing is published by
    # rename there, and after a failure / cancellation the special file is still what stands under the name
    for size in (10, 20):
        out.append({'config': dict(cfg), 'transfers': [{'kind': 'download', 'dst': 'fifo', 'size': size}]})
    out.append({'config': dict(cfg), 'transfers': [{'kind': 'download', 'dst': 'fifo', 'size': 20, 'symlink': True}]})
    # the destination name is an existing non-empty directory (the request succeeds, publishing cannot): all three front-ends
    out.append({'config': dict(cfg), 'dirwatch': True, 'transfers': [{'kind': 'download', 'dst': 'path', 'size': 20, 'dst_is_dir': True}]})
    out.append({'config': dict(cfg), 'dirwatch': True, 'transfers': [{'kind': 'download', 'dst': 'path', 'size': 10, 'dst_is_dir': True}]})
    out.append({'front_end': 'legacy', 'config': dict(lcfg), 'dirwatch': True, 'transfers': [{'kind': 'download', 'dst': 'path', 'size': 20, 'dst_is_dir': True}]})
    out.append({'front_end': 'procpool', 'config': dict(pcfg), 'dirwatch': True, 'transfers': [{'kind': 'download', 'dst': 'path', 'size': 20, 'dst_is_dir': True}]})
    return out


def gen_cases(tier, seed):
    rng = random.Random(seed)
    quick = tier == 'quick'
    cases = []
    for bi, base in enumerate(bases()):
        keys, bodies, upbodies, ok = c03.dry_keys(base)
        s0 = copy.deepcopy(base)
        s0['seed'] = rng.randrange(1 << 30)
        cases.append(s0)
        if not ok:
            continue
        fe = base.get('front_end', 'manager')
        for k in keys:
            fl = c03.faults_for_key(k, bodies, upbodies, quick)
            if '/fs:allocate' in k:
                fl = [{'at': k, 'phase': 'before', 'kind': 'oserror'}]
            for i, f in enumerate(fl):
                for rep in range(1 if quick else 3):
                    s = copy.deepcopy(base)
                    s['seed'] = rng.randrange(1 << 30)
                    s['plan'] = {'faults': [dict(f, tag=f'FAULT-{bi}-{i}')], 'delay_p': rng.choice([0.0, 0.3])}
                    cases.append(s)
            if '/cb:on_done' in k or '.read#' in k:
                continue
            if fe == 'legacy':
                continue  # the legacy call is synchronous and has no cancel
            for phase in ('before', 'after'):
                for rep in range(1 if quick else 3):
                    s = copy.deepcopy(base)
                    s['seed'] = rng.randrange(1 << 30)
                    s['plan'] = {'cancel': {'at': k, 'phase': phase, 'how': 'future.cancel', 'from': 'event'},
                                 'delay_p': rng.choice([0.0, 0.3])}
                    cases.append(s)
        # stream retries (budget 2): one retryable fault per range -> success after retry; two -> failure
        for k, n in bodies.items():
            rk = k.rsplit('#', 1)[0]
            for nf in (1, 2):
                s = copy.deepcopy(base)
                s['seed'] = rng.randrange(1 << 30)
                s['plan'] = {'faults': [{'at': f'{rk}#{j}', 'phase': 'body', 'kind': 'connreset', 'bytes': rng.choice([0, 1, n]),
                                         'tag': f'FAULT-{bi}-r{j}'} for j in range(nf)]}
                cases.append(s)
    # two or three downloads of DIFFERENT objects aimed at the same destination name at the same time (two threads filling one
    # cache path): each works on its own temporary file, whatever stands under the name is always one complete object
    for i in range(30 if quick else 300):
        n = rng.choice([2, 2, 3])
        cfgs = dict(multipart_threshold=16, multipart_chunksize=8, io_chunksize=4, max_request_concurrency=rng.choice([2, 3]), max_submission_concurrency=n,
                    max_io_queue_size=rng.choice([1, 2, 1000]))
        ts = [{'kind': 'download', 'dst': 'path', 'size': rng.choice([10, 20, 27]), 'preexisting': False} for _ in range(n)]
        for k in range(1, n):
            ts[k]['same_dest_as'] = 0
        ts[0]['preexisting'] = rng.random() < 0.5
        cases.append({'seed': rng.randrange(1 << 30), 'config': cfgs, 'dirwatch': True, 'transfers': ts, 'family': 'shared-destination',
                      'plan': {'gate': {'match': rng.choice(['/fs:write', '/s3:GetObject', '/fs:rename', '/fs:openw']), 'phase': rng.choice(['before', 'after']),
                                        'policy': 'seeded'}}})
    # the writer lagging behind the requests: every destination write is held at a gate until the process is quiescent (all
    # requests done, the caller already waiting), and then one of the writes / the close fails
    for fe, cfgs in (('legacy', dict(multipart_threshold=16, multipart_chunksize=8, max_concurrency=3, num_download_attempts=2, max_io_queue=100)),
                     ('manager', dict(multipart_threshold=16, multipart_chunksize=8, io_chunksize=4, max_request_concurrency=3, max_io_queue_size=1000)),
                     ('procpool', dict(multipart_threshold=16, multipart_chunksize=8, workers=3, io_chunksize=4))):
        for size in (10, 20, 33):
            for pre in (False, True):
                nwrites = {'legacy': (size + 7) // 8 if size >= 16 else 1, 'manager': (size + 3) // 4, 'procpool': (size + 3) // 4}[fe]
                for wi in range(nwrites):
                    if fe == 'procpool':
                        continue  # the worker writes through the built-in open(), not through the hooked OSUtils
                    for phase in ('before', 'after'):
                        s = {'front_end': fe, 'seed': rng.randrange(1 << 30), 'config': dict(cfgs), 'dirwatch': True,
                             'transfers': [{'kind': 'download', 'dst': 'path', 'size': size, 'preexisting': pre}],
                             'plan': {'gate': {'match': '/fs:write', 'phase': 'before', 'policy': 'seeded'},
                                      'faults': [{'at': f't0/fs:write#{wi}', 'phase': phase, 'kind': 'oserror', 'tag': f'FAULT-lag-{wi}'}]}}
                        if fe == 'manager':
                            s.pop('front_end')
                        cases.append(s)
    # a failure (or a cancel) after part of the file was written, with closing the temporary file failing as well (ENOSPC / EIO on
    # the final flush): the temporary file still has to be removed, the previous content stays
    for i in range(40 if quick else 400):
        size = rng.choice([7, 13, 20, 27, 40])
        nw = (size + 3) // 4
        cfg = dict(multipart_threshold=16, multipart_chunksize=8, io_chunksize=4, max_request_concurrency=rng.choice([1, 2, 3]), num_download_attempts=1)
        first = rng.choice([{'at': f't0/fs:write#{rng.randrange(1, nw + 1)}', 'phase': 'before', 'kind': 'oserror'},
                            {'at': 't0/fs:rename#0', 'phase': 'before', 'kind': 'oserror'},
                            {'at': f't0/s3:GetObject:{8 if size >= 16 else "all"}#0', 'phase': 'body', 'bytes': 2, 'kind': 'connreset'}, None])
        sp = {'seed': rng.randrange(1 << 30), 'config': cfg, 'dirwatch': True, 'family': 'close-fails',
              'transfers': [{'kind': 'download', 'dst': 'path', 'size': size, 'preexisting': rng.random() < 0.6}],
              'plan': {'faults': [{'at': 't0/fs:close#0', 'phase': 'before', 'kind': 'oserror', 'tag': 'FAULT-close'}], 'delay_p': rng.choice([0.0, 0.3])}}
        if rng.random() < 0.3:
            pass  # the failing close is the only thing that goes wrong
        elif first is None:
            sp['plan']['cancel'] = {'at': f't0/fs:write#{rng.randrange(0, max(1, nw - 1))}', 'phase': 'after', 'how': 'future.cancel', 'from': 'event'}
        else:
            sp['plan']['faults'].insert(0, dict(first, tag='FAULT-first'))
        cases.append(sp)
    rng.shuffle(cases)
    from ..gen import sprinkle

    sprinkle(cases, seed)
    # one path that CHANGES ITS FILE TYPE between two downloads of one process (a FIFO first, an ordinary file with previous content then)
    cfg0 = dict(multipart_threshold=16, multipart_chunksize=8, io_chunksize=4, max_request_concurrency=2, num_download_attempts=2)
    for i in range(6 if quick else 40):
        name = f'vf-reuse-{seed}-{i}-{rng.randrange(1 << 30)}'
        size = rng.choice([10, 20])
        first = {'seed': rng.randrange(1 << 30), 'config': dict(cfg0), 'tmpdir_name': name, 'family': 'name-changes-type',
                 'transfers': [{'kind': 'download', 'dst': 'fifo', 'size': rng.choice([5, 20]), 'dest_name': 'out'}]}
        f = rng.choice([{'at': f't0/s3:GetObject:{8 if size >= 16 else "all"}#0', 'phase': 'body', 'bytes': 3, 'kind': 'exc'},
                        {'at': 't0/fs:write#1', 'phase': 'before', 'kind': 'oserror'}, None])
        second = {'seed': rng.randrange(1 << 30), 'config': dict(cfg0, num_download_attempts=1), 'tmpdir_name': name, 'dirwatch': True, 'family': 'name-changes-type',
                  'transfers': [{'kind': 'download', 'dst': 'path', 'size': size, 'preexisting': True, 'dest_name': 'out'}],
                  'plan': {'faults': [dict(f, tag='FAULT-second')]} if f else {}}
        cases.append({'first': first, 'second': second, 'family': 'name-changes-type'})
    return cases


def evaluate(obs):
    viol = []
    dw = obs.dirwatch
    stats = {'inspections': dw.inspections if dw else 0, 'success': 0, 'raised': 0,
             'cancel_fired': 1 if obs.world.director.cancel_fired else 0, 'faults_hit': len(obs.world.director.raised),
             'temps_created': len(obs.osutil.temps) if hasattr(obs.osutil, 'temps') else 0}
    fe = obs.spec.get('front_end', 'manager')
    stats['fe_' + fe] = 1
    for x in obs.xfers:
        stats['success' if x.outcome == 'success' else 'raised'] += 1
        viol += oracles.fs_oracle(obs, x) + oracles.handles_oracle(obs, x)
    if dw:
        viol += dw.violations
        for (_, st) in dw.states:
            stats['state_' + st] = stats.get('state_' + st, 0) + 1
    nontrivial = bool(dw and dw.inspections >= 5)
    summary = {'outcomes': e2e.default_outcomes(obs), 'states_seen': sorted(dw.states) if dw else None,
               'raised': [(r['key'], r['phase'], r['kind']) for r in obs.world.director.raised],
               'cancel': obs.world.director.cancel_fired}
    return viol, stats, nontrivial, summary


def run_case(case):
    if case.get('first') is not None:
        # two scenarios, one after the other in this process, over the SAME path strings: in the first the destination name is a special
        # file (a FIFO), in the second an ordinary file stands under that name.  What the library learnt about a NAME in the first must
        # not be applied to the file that stands there in the second.
        r1 = e2e.run_with(case['first'], evaluate)
        if r1.get('verdict') != 'held':
            return r1
        return e2e.run_with(case['second'], evaluate)
    return e2e.run_with(case, evaluate)
