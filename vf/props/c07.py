"""C07 — cancellation is effective, clean and truthfully reported."""
import copy
import random

from .. import e2e, gen, oracles
from . import c03

PROPERTY = 'C07'
LEVEL = 'fault_enumeration'
RULE = ('for every transfer type/mode a dry run lists the boundary events; one run per (event, before/after its effect) x entry '
        'point: future.cancel() from the event\'s own thread (strictly ordered) or from the user thread while the call is held in '
        'flight; shutdown(cancel=True, cancel_msg=m) for several m incl. the empty string; exception and KeyboardInterrupt leaving '
        'the with-block; plus cancel-before-start (the single submission thread is parked in an earlier transfer\'s on_queued, so '
        '"not started" is established behaviourally), cancel after completion, and cancels landing in named race windows of the '
        'final task; oracle: result() type+message per entry point, or an injected fault, or success iff the content oracle passes; '
        'no S3 request/on_queued for a not-started transfer; C05/C06 cleanup oracles; shutdown itself must not raise; entry points also include Ctrl-C while __exit__ waits after a normal with-block (kbi_exit) and with-blocks left through SystemExit / GeneratorExit / a BaseException subclass; non-trivial = '
        'the cancel actually fired before the transfer\'s on_done; distinct = (shape incl. cancel site/entry, interleaving signature)')
ASSUMPTIONS = [
    'a cancel racing the final step may legitimately yield success iff the effect is complete (statement)',
    'Ctrl-C while blocked in result()/shutdown() is exercised in family kbi (real SIGINT on the worker main thread)',
]
CASE_TIMEOUT = 90.0


def bases():
    out = []
    cfg = dict(multipart_threshold=16, multipart_chunksize=8, io_chunksize=4, max_request_concurrency=2, max_submission_concurrency=1,
               num_download_attempts=2)
    for kind, extra in gen.KINDS:
        for size in (10, 20):
            if kind == 'delete' and size == 20:
                continue
            t = dict({'kind': kind, 'size': size}, **extra)
            if kind == 'download' and extra['dst'] == 'path':
                t['preexisting'] = size == 20
            out.append({'min_part': 8, 'config': dict(cfg), 'transfers': [t]})
    # multipart transfers of exactly ONE part (multipart_threshold <= size <= multipart_chunksize)
    cfg1 = dict(cfg, multipart_threshold=8, multipart_chunksize=16)
    for t in ({'kind': 'upload', 'src': 'path', 'size': 12}, {'kind': 'upload', 'src': 'nonseekable', 'size': 12}, {'kind': 'copy', 'size': 12},
              {'kind': 'download', 'dst': 'path', 'size': 12}, {'kind': 'download', 'dst': 'nonseekable', 'size': 12}):
        out.append({'min_part': 16, 'config': dict(cfg1), 'transfers': [t]})
    return out


def gen_cases(tier, seed):
    rng = random.Random(seed)
    quick = tier == 'quick'
    cases = []
    msgs = ['bye', '', 'msg with spaces']
    for bi, base in enumerate(bases()):
        keys, bodies, upbodies, ok = c03.dry_keys(base)
        if not ok:
            continue
        keys = [k for k in keys if '/cb:on_done' not in k and '.read#' not in k and '/fs:remove' not in k]
        for k in keys:
            for phase in ('before', 'after'):
                entries = [('future.cancel', 'event'), ('future.cancel', 'main'), ('shutdown_cancel', None), ('with_exc', None), ('with_kbi', None)]
                if quick:
                    entries = [entries[0]] + rng.sample(entries[1:], 2)
                for (how, frm) in entries:
                    s = copy.deepcopy(base)
                    s['seed'] = rng.randrange(1 << 30)
                    s['entry'] = how
                    if how == 'future.cancel':
                        s['plan'] = {'cancel': {'at': k, 'phase': phase, 'how': how, 'from': frm}}
                    else:
                        s['mode'] = how
                        s['trigger'] = 'event'
                        s['cancel_msg'] = rng.choice(msgs)
                        if how == 'with_exc':
                            # any non-interrupt exception: an ordinary Exception, SystemExit, GeneratorExit, a BaseException subclass
                            s['with_exc_type'] = rng.choice([None, None, 'systemexit', 'generatorexit', 'base', 'cancelled', 'fatal', 'oserror3', 'keyerror', 'multiarg'])
                        s['plan'] = {'cancel': {'at': k, 'phase': phase, 'how': how, 'from': 'main'}}
                    s['plan']['delay_p'] = rng.choice([0.0, 0.2])
                    cases.append(s)
    # cancel before start / after done, every kind x entry point, 1-3 transfers per manager
    for kind, extra in gen.KINDS:
        for how in ('future.cancel', 'shutdown_cancel', 'with_exc', 'with_kbi'):
            for n_extra in (0, 1) if quick else (0, 1, 2):
                t0 = {'kind': 'upload', 'src': 'path', 'size': 5}
                ts = [t0] + [dict({'kind': kind, 'size': rng.choice([5, 20])}, **extra) for _ in range(1 + n_extra)]
                cfg = dict(multipart_threshold=16, multipart_chunksize=8, io_chunksize=4, max_submission_concurrency=1)
                s = {'seed': rng.randrange(1 << 30), 'min_part': 8, 'config': cfg, 'transfers': ts, 'family': 'not-started', 'entry': how,
                     'cancel_msg': rng.choice(msgs)}
                if how == 'future.cancel':
                    s['plan'] = {'gate': {'match': 't0/cb:on_queued', 'phase': 'before', 'count': 1, 'after_cancel_begin': True},
                                 'cancel': {'at': '@after_submit', 'target': 1, 'how': how}}
                else:
                    s['mode'] = how
                    s['trigger'] = 'immediate'
                    if how == 'with_exc':
                        s['with_exc_type'] = rng.choice([None, 'systemexit', 'generatorexit', 'base', 'cancelled', 'fatal', 'oserror3', 'keyerror', 'multiarg'])
                    s['plan'] = {'gate': {'match': 't0/cb:on_queued', 'phase': 'before', 'count': 1, 'after_cancel_begin': True}}
                cases.append(s)
        s = {'seed': rng.randrange(1 << 30), 'min_part': 8, 'config': dict(multipart_threshold=16, multipart_chunksize=8, io_chunksize=4),
             'transfers': [dict({'kind': kind, 'size': 20}, **extra)], 'family': 'after-done', 'entry': 'future.cancel',
             'plan': {'cancel': {'at': '@after_done', 'target': 0, 'how': 'future.cancel'}}}
        cases.append(s)
    # race windows around the final task
    windows = [
        {'file': 'tasks.py', 'text': 'return self._execute_main(kwargs)', 'name': 'task-after-done-check'},
        {'file': 'tasks.py', 'text': 'self._transfer_coordinator.set_result(return_value)', 'name': 'before-set-result'},
        {'file': 'tasks.py', 'text': 'self._transfer_coordinator.announce_done()', 'name': 'before-announce', 'occ': 0},
        {'file': 'futures.py', 'text': 'self._done_event.set()', 'name': 'announce-after-event-set', 'line_offset': 1},
    ]
    for wdw in windows:
        for kind, extra in gen.KINDS:
            for nth in range(2 if quick else 6):
                t = dict({'kind': kind, 'size': rng.choice([5, 20])}, **extra)
                cfg = dict(multipart_threshold=16, multipart_chunksize=8, io_chunksize=4, max_request_concurrency=2)
                cases.append({'seed': rng.randrange(1 << 30), 'min_part': 8, 'config': cfg, 'transfers': [t], 'family': 'window',
                              'entry': 'future.cancel', 'yield': {'p': 0.0, 'window': dict(wdw, nth=nth, target=0)}})
    # cancel while the transport is in the middle of reading an upload body (between two of its reads), with and without a
    # bandwidth limit configured (a generous one: the body is then wrapped by the limiter as well)
    for i in range(60 if quick else 600):
        src = rng.choice(['path', 'seekable', 'nonseekable'])
        multi = rng.random() < 0.5
        size = rng.choice([20, 27, 33]) if multi else rng.choice([9, 12, 15])
        cfg = dict(multipart_threshold=16, multipart_chunksize=8, max_request_concurrency=rng.choice([1, 2]))
        if rng.random() < 0.5:
            cfg['max_bandwidth'] = 10 ** 12
        op = f't0/s3:UploadPart:{rng.choice([1, 2])}#0' if multi else 't0/s3:PutObject#0'
        how = rng.choice(['future.cancel', 'future.cancel', 'shutdown_cancel', 'with_exc'])
        s = {'seed': rng.randrange(1 << 30), 'min_part': 8, 'config': cfg, 'transfers': [{'kind': 'upload', 'src': src, 'size': size}],
             'client': {'checksum': 'when_required', 'scheme': 'https'}, 'body_read_sizes': [rng.choice([1, 2, 3])], 'entry': how, 'family': 'mid-body',
             'plan': {'cancel': {'at': f'{op}.send#{rng.choice([1, 2])}', 'phase': 'before', 'how': how, 'from': rng.choice(['main', 'event']) if how == 'future.cancel' else 'main'}}}
        if how != 'future.cancel':
            s['mode'] = how
            s['trigger'] = 'event'
            s['cancel_msg'] = rng.choice(msgs)
        cases.append(s)
    # the final request of a transfer is in flight when the transfer is cancelled, and then fails on its own: the cancellation, recorded
    # first, stays the reported outcome
    for i in range(60 if quick else 600):
        kind, extra, key = rng.choice([('upload', {'src': 'path', 'size': 9}, 't0/s3:PutObject#0'), ('upload', {'src': 'nonseekable', 'size': 9}, 't0/s3:PutObject#0'),
                                       ('upload', {'src': 'seekable', 'size': 27}, 't0/s3:CompleteMultipartUpload#0'),
                                       ('copy', {'size': 9}, 't0/s3:CopyObject#0'), ('copy', {'size': 27}, 't0/s3:CompleteMultipartUpload#0'),
                                       ('delete', {'size': 3}, 't0/s3:DeleteObject#0'), ('download', {'dst': 'path', 'size': 9}, 't0/fs:rename#0'),
                                       ('download', {'dst': 'path', 'size': 27}, 't0/fs:rename#0')])
        cfg = dict(multipart_threshold=16, multipart_chunksize=8, io_chunksize=4, max_request_concurrency=rng.choice([1, 2]))
        how = rng.choice(['future.cancel', 'future.cancel', 'shutdown_cancel', 'with_exc'])
        s = {'seed': rng.randrange(1 << 30), 'min_part': 8, 'config': cfg, 'transfers': [dict({'kind': kind}, **extra)], 'entry': how, 'family': 'then-final-step-fails',
             'poll_done': True,
             'plan': {'cancel': {'at': key, 'phase': 'before', 'how': how, 'from': rng.choice(['main', 'event']) if how == 'future.cancel' else 'main'},
                      'faults': [{'at': key, 'phase': 'after', 'kind': 'oserror' if '/fs:' in key else rng.choice(['exc', 'client4xx']), 'tag': 'FAULT-final'}]}}
        if how != 'future.cancel':
            s['mode'] = how
            s['trigger'] = 'event'
            s['cancel_msg'] = rng.choice(msgs)
        cases.append(s)
    # cancel while a download is in the middle of a long response body (many io chunks still to come)
    for i in range(50 if quick else 500):
        ranged = rng.random() < 0.5
        C = 24
        size = rng.choice([2 * C + 5, 3 * C]) if ranged else rng.choice([30, 41, 64])
        cfg = dict(multipart_threshold=C if ranged else 1000, multipart_chunksize=C, io_chunksize=rng.choice([2, 4]), max_request_concurrency=rng.choice([1, 2]),
                   max_io_queue_size=1000)
        dst = rng.choice(['path', 'seekable', 'nonseekable', 'fifo'])
        how = rng.choice(['future.cancel', 'future.cancel', 'shutdown_cancel', 'with_exc'])
        wkey = 'fs:write' if dst in ('path', 'fifo') else 'dst:write'
        s = {'seed': rng.randrange(1 << 30), 'config': cfg, 'transfers': [{'kind': 'download', 'dst': dst, 'size': size}], 'entry': how, 'family': 'mid-download',
             'get_read_caps': rng.choice([None, None, [[3]], [[2, 4]]]),
             'plan': {'cancel': {'at': f't0/{wkey}#{rng.choice([0, 1, 2])}', 'phase': rng.choice(['before', 'after']), 'how': how,
                                 'from': rng.choice(['main', 'event']) if how == 'future.cancel' else 'main'}}}
        if how != 'future.cancel':
            s['mode'] = how
            s['trigger'] = 'event'
            s['cancel_msg'] = rng.choice(msgs)
        cases.append(s)
    # the transfer is cancelled while the submission thread is still reading the source stream, and a later read of that stream
    # fails: the cancellation stays the reported outcome
    for i in range(50 if quick else 500):
        mem = rng.choice([1, 1, 2])
        cfg = dict(multipart_threshold=8, multipart_chunksize=8, max_request_concurrency=rng.choice([1, 2]), max_submission_concurrency=1,
                   max_in_memory_upload_chunks=mem)
        how = rng.choice(['future.cancel', 'future.cancel', 'shutdown_cancel', 'with_exc'])
        s = {'min_part': 8, 'config': cfg, 'seed': rng.randrange(1 << 30), 'family': 'then-source-fails', 'entry': how, 'poll_done': True,
             'transfers': [{'kind': 'upload', 'src': rng.choice(['nonseekable', 'seekable']), 'size': rng.choice([41, 57, 73])}],
             'plan': {'gate': {'match': '/s3:UploadPart', 'phase': rng.choice(['before', 'after']), 'policy': 'seeded'},
                      'faults': [{'at': f't0/src:read#{rng.randrange(mem + 3, mem + 6)}', 'phase': rng.choice(['before', 'after']), 'kind': 'exc', 'tag': 'FAULT-src'}],
                      'cancel': {'at': rng.choice(['t0/s3:UploadPart:1#0', 't0/s3:UploadPart:2#0']), 'phase': rng.choice(['before', 'after']), 'how': how,
                                 'from': rng.choice(['main', 'event']) if how == 'future.cancel' else 'main'}}}
        if how != 'future.cancel':
            s['mode'] = how
            s['trigger'] = 'event'
            s['cancel_msg'] = rng.choice(msgs)
        cases.append(s)
    # a download to a file cancelled after some of it was written, where one of the cleanup steps itself fails (closing the
    # temporary file raises: ENOSPC / EIO on the final flush): the remaining cleanups - removing the temporary file - still run
    for i in range(50 if quick else 500):
        size = rng.choice([7, 13, 20, 27, 40])
        cfg = dict(multipart_threshold=16, multipart_chunksize=8, io_chunksize=4, max_request_concurrency=rng.choice([1, 2, 3]),
                   max_io_queue_size=rng.choice([1, 2, 1000]))
        how = rng.choice(['future.cancel', 'future.cancel', 'shutdown_cancel', 'with_exc', 'with_kbi'])
        nw = (size + 3) // 4
        s = {'seed': rng.randrange(1 << 30), 'config': cfg, 'entry': how, 'family': 'cleanup-step-fails', 'dirwatch': True,
             'transfers': [{'kind': 'download', 'dst': 'path', 'size': size, 'preexisting': rng.random() < 0.5}],
             'plan': {'cancel': {'at': f't0/fs:write#{rng.randrange(0, max(1, nw - 1))}', 'phase': 'after', 'how': how,
                                 'from': rng.choice(['main', 'event']) if how == 'future.cancel' else 'main'},
                      'faults': [{'at': 't0/fs:close#0', 'phase': 'before', 'kind': 'oserror', 'tag': 'FAULT-close'}]}}
        if how != 'future.cancel':
            s['mode'] = how
            s['trigger'] = 'event'
            s['cancel_msg'] = rng.choice(msgs)
        cases.append(s)
    # Ctrl-C (a real SIGINT delivered to the main thread with pthread_kill) while the user is blocked in result() / shutdown()
    for bi, base in enumerate(bases()):
        t = base['transfers'][0]
        from .c04 import sites_for

        sites = ['@immediate'] + [k for k in sites_for(t) if '/s3:' in k or '/cb:on_progress' in k or '/dst:write' in k or '/fs:write' in k]
        if quick:
            sites = sites[:1] + rng.sample(sites[1:], min(2, len(sites) - 1))
        for site in sites:
            for how in ('kbi_result', 'kbi_shutdown', 'kbi_exit'):
                for extra_n in ((0, 1) if how != 'kbi_result' or not quick else (0,)):
                    s = copy.deepcopy(base)
                    s['seed'] = rng.randrange(1 << 30)
                    s['mode'] = how
                    s['entry'] = how
                    s['family'] = 'kbi'
                    for _ in range(extra_n):
                        s['transfers'].append({'kind': 'upload', 'src': 'path', 'size': 20})
                    if site == '@immediate':
                        s['trigger'] = 'immediate'
                        s['plan'] = {'gate': {'match': '/s3:', 'phase': 'before', 'policy': 'seeded', 'after_cancel_begin': True}}
                    else:
                        s['trigger'] = 'event'
                        s['plan'] = {'cancel': {'at': site, 'phase': rng.choice(['before', 'after']), 'how': how, 'from': 'main'}}
                    cases.append(s)
    from .. import windows

    for sp in windows.cases(rng, 'cancel', 60 if quick else 2500, core_reps=1 if quick else 3, nths=(0, 1) if quick else (0, 1, 2, 3), all_lines=not quick):
        sp['family'] = 'window'
        sp['entry'] = 'future.cancel'
        cases.append(sp)
    # the manager as a whole is cancelled by ANOTHER user thread while a submitting call has handed its transfer over and has not returned yet
    # (held at each statement after the hand-over): the transfer belongs to the manager - it is cancelled like every other
    from .. import yieldinj as _yi

    sub_line = _yi.find_line('manager.py', 'self._submission_executor.submit(')
    after = [l for l in _yi.all_lines(['manager.py']) if l[2] == 'TransferManager._submit_transfer' and sub_line is not None and l[1] > sub_line + 1]
    for line in after:
        for kind, extra in (gen.KINDS if not quick else rng.sample(gen.KINDS, 4)):
            t = dict({'kind': kind, 'size': rng.choice([5, 20])}, **extra)
            cases.append({'seed': rng.randrange(1 << 30), 'min_part': 8, 'family': 'manager-cancel-during-submit', 'entry': 'shutdown_cancel', 'cancel_msg': 'bye',
                          'config': dict(multipart_threshold=16, multipart_chunksize=8, io_chunksize=4, max_request_concurrency=2), 'transfers': [t],
                          'plan': {'gate': {'match': '/cb:on_queued', 'phase': 'before', 'count': 1, 'after_cancel_begin': True, 'after_cancel_applied': True}},
                          'yield': {'p': 0.0, 'window': {'file': 'manager.py', 'lineno': line[1], 'name': f'manager.py:{line[1]}:{line[2]}', 'nth': 0,
                                                         'how': 'manager_cancel', 'target': 0, 'wait': 0.5}}})
    # several user threads submit to one manager at overlapping times (one of them preempted inside the manager's bookkeeping
    # update), every transfer is held at its first step, then the manager as a whole is told to stop: every one of the transfers
    # is in flight and must end with the cancellation, none may go on to issue requests
    for site in windows.rmw_cases(rng, nths=(0, 1, 2), reps=2 if quick else 12, files=['manager.py']):
        if ':TransferManager.' not in site['yield']['window']['name']:
            continue
        how = rng.choice(['shutdown_cancel', 'shutdown_cancel', 'with_exc', 'with_kbi'])
        n = rng.choice([2, 3, 4])
        ts = []
        for _ in range(n):
            kind, extra = rng.choice(gen.KINDS)
            ts.append(dict({'kind': kind, 'size': rng.choice([5, 20])}, **extra))
        cfg = dict(multipart_threshold=16, multipart_chunksize=8, io_chunksize=4, max_submission_concurrency=n, max_request_concurrency=rng.choice([2, 4]))
        sp = {'seed': rng.randrange(1 << 30), 'min_part': 8, 'config': cfg, 'transfers': ts, 'family': 'concurrent-submit', 'entry': how, 'mode': how,
              'trigger': 'immediate', 'cancel_msg': rng.choice(msgs), 'concurrent_submit': True, 'yield': site['yield'],
              'plan': {'gate': {'match': '/cb:on_queued', 'phase': 'before', 'count': n, 'after_cancel_begin': True}}}
        if how == 'with_exc':
            sp['with_exc_type'] = rng.choice([None, 'systemexit', 'base', 'cancelled', 'fatal', 'oserror3', 'keyerror', 'multiarg'])
        cases.append(sp)
    rng.shuffle(cases)
    from ..gen import sprinkle

    sprinkle(cases, seed)
    return cases


def evaluate(obs):
    viol = []
    spec = obs.spec
    how = spec.get('entry', 'future.cancel')
    fam = spec.get('family')
    stats = {'cancel_fired': 1 if obs.cancel_events else 0, 'cancelled_outcomes': 0, 'success_after_cancel': 0, 'fault_outcomes': 0,
             'not_started_checked': 0, 'after_done_checked': 0, 'window_hits': len(obs.injector.window_hits) if obs.injector else 0,
             'kbi_all_parked': 1 if (getattr(obs, 'kbi', None) or {}).get('all_parked') else 0}
    stats['entry_' + how] = 1
    nontrivial = False
    if obs.shutdown_exc is not None and not (how == 'with_kbi' and isinstance(obs.shutdown_exc, KeyboardInterrupt)):
        viol.append(oracles.V(f'leaving the manager through {how} raised {obs.shutdown_exc!r}', entry=how, sym='shutdown-raised',
                              exc_type=type(obs.shutdown_exc).__name__))
    cb = [e for e in obs.events if e['kind'] == 'cancel.begin']
    kbi = getattr(obs, 'kbi', None)
    if kbi is not None:
        stats['kbi_sent'] = 1 if kbi.get('sent') else 0
        stats['kbi_raised'] = 1 if kbi.get('kbi') else 0
        if kbi.get('sent') and not kbi.get('kbi') and not kbi.get('late_kbi'):
            viol.append(oracles.V(f'SIGINT was delivered while the main thread was blocked in {how.split("_")[1].replace("exit", "__exit__")}() but no KeyboardInterrupt '
                                  f'reached the caller (raised instead: {kbi.get("exc")!r})', entry=how, sym='kbi-swallowed'))
        if how in ('kbi_shutdown', 'kbi_exit') and getattr(obs, 'done_at_barrier', None):
            nd = [k for k, v in obs.done_at_barrier.items() if v is False]
            if nd:
                viol.append(oracles.V(f'{how.split("_")[1].replace("exit", "__exit__")}() interrupted by Ctrl-C returned with futures {nd} not done', entry=how, sym='kbi-not-done'))
    for x in obs.xfers:
        if x.outcome is None:
            continue
        if fam == 'after-done':
            after = getattr(x, 'outcome_after', None)
            stats['after_done_checked'] += 1
            nontrivial = True
            if after is not None:
                k2, v2 = after
                same = (k2 == x.outcome) and (k2 == 'success' or (type(v2) is type(x.exc) and str(v2) == str(x.exc)))
                if not same:
                    viol.append(oracles.V(f'{x.label}: finished with {x.outcome} but after a later cancel() result() gives {k2}:{v2!r}',
                                          **oracles.base_mech(obs, x), entry=how, sym='finished-result-changed'))
            continue
        if not cb:
            continue
        dn = [e for e in obs.events if e['kind'] == 'cb.on_done' and e.get('label') == x.label]
        if dn and dn[0]['n'] < cb[0]['n']:
            continue  # finished before the cancel began: nothing demanded
        targeted = True
        not_started = False
        if how == 'future.cancel':
            tgt = (spec.get('plan', {}).get('cancel') or spec.get('yield', {}).get('window') or {}).get('target', 0)
            targeted = (x.idx == tgt)
        if how == 'kbi_result':
            targeted = (x.idx == 0)
        if fam == 'not-started':
            if how == 'future.cancel':
                not_started = (x.idx == 1)
            else:
                not_started = (x.idx >= 1)
        if not_started:
            stats['not_started_checked'] += 1
        gate = (spec.get('plan') or {}).get('gate') or {}
        if (fam == 'kbi' and how in ('kbi_shutdown', 'kbi_exit') and spec.get('trigger') == 'immediate' and gate.get('after_cancel_begin')
                and gate.get('match') == '/s3:' and kbi is not None and kbi.get('all_parked')):
            # every request of every transfer was held at the gate from the start until the Ctrl-C had begun, and is only let go when
            # the process is quiescent again, i.e. after the interrupted shutdown has cancelled everything unfinished: apart from
            # the requests already begun (parked) and the abort of a multipart upload, NO further request of any transfer may begin
            new = [e for e in obs.events if e['kind'] == 'api.begin' and e.get('label') == x.label and e['n'] > cb[0]['n']
                   and e['op'] != 'AbortMultipartUpload']
            if new:
                viol.append(oracles.V(f'{x.label}: {len(new)} new request(s) ({new[0]["op"]} ...) were begun after Ctrl-C had interrupted {how.split("_")[1]}() '
                                      f'although every unfinished transfer is cancelled then (outcome {x.outcome})', **oracles.base_mech(obs, x), entry=how,
                                      sym='request-after-interrupt', ntransfers=len(obs.xfers)))
        if fam == 'concurrent-submit' and gate.get('after_cancel_begin'):
            # every transfer was held in front of its on_queued step until the manager-wide cancel had begun, and is let go only once
            # the process is quiescent again, i.e. with the cancelling call blocked waiting for the transfers: none of them had
            # finished, so every one must report the cancellation, and none had issued a request, so none may issue one now
            pre = x.label + '/cb:on_queued'
            let_go = [e for e in obs.events if e['kind'] == 'gate.release' and e['key'].startswith(pre) and e['n'] < cb[0]['n']]
            parked = [e for e in obs.events if e['kind'] == 'park' and e['key'].startswith(pre)]
            if parked and not let_go:
                stats['held_at_cancel'] = stats.get('held_at_cancel', 0) + 1
                reqs = [e for e in obs.events if e['kind'] == 'api.begin' and e.get('label') == x.label]
                if x.outcome == 'success' or reqs:
                    viol.append(oracles.V(f'{x.label}: one of {len(obs.xfers)} transfers submitted from different threads, none of which had begun when {how} '
                                          f'cancelled the manager\'s transfers, yet it went on ({len(reqs)} request(s)) and reports {x.outcome}',
                                          **oracles.base_mech(obs, x), entry=how, sym='unstarted-transfer-escaped-cancel', ntransfers=len(obs.xfers)))
        if fam == 'manager-cancel-during-submit' and gate.get('after_cancel_applied') and x.future is not None \
                and [e for e in obs.events if e['kind'] == 'park' and e['key'].startswith(x.label + '/cb:on_queued')]:
            # the transfer had been handed to the manager and was held in front of its on_queued step - no request begun - until the
            # cancelling call had gone through its cancel pass (it was seen waiting for the transfers): it reports the cancellation.
            # (Held at a request instead, a single-request transfer may rightly succeed: a cancel racing the final request.)
            stats['held_at_cancel'] = stats.get('held_at_cancel', 0) + 1
            if x.outcome == 'success':
                viol.append(oracles.V(f'{x.label}: the manager was cancelled by another thread while the call that submitted this transfer had not returned yet; '
                                      f'the transfer, unfinished at that moment, went on and reports success', **oracles.base_mech(obs, x), entry=how,
                                      sym='escaped-manager-cancel-during-submit'))
        if targeted or how not in ('future.cancel', 'kbi_result'):
            viol += oracles.cancel_oracle(obs, x, how, not_started=not_started, targeted=targeted)
            viol += oracles.stable_outcome_oracle(obs, x)
            nontrivial = True
            if x.outcome == 'success':
                stats['success_after_cancel'] += 1
            elif isinstance(x.exc, oracles.CancelledError):
                stats['cancelled_outcomes'] += 1
            else:
                stats['fault_outcomes'] += 1
        else:
            # not the cancelled transfer: must be unaffected
            if x.outcome == 'raised' and isinstance(x.exc, oracles.CancelledError):
                viol.append(oracles.V(f'{x.label}: reports {x.exc!r} although another transfer was cancelled',
                                      **oracles.base_mech(obs, x), entry=how, sym='collateral-cancel'))
    summary = {'outcomes': e2e.default_outcomes(obs), 'entry': how, 'cancel_at': (spec.get('plan', {}).get('cancel') or {}).get('at'),
               'shutdown_exc': repr(obs.shutdown_exc) if obs.shutdown_exc else None,
               'window': obs.injector.window_hits if obs.injector else None}
    return viol, stats, nontrivial, summary


def run_case(case):
    # a transfer that comes to rest unfinished AFTER a cancel was issued has not "finished with the cancellation error": the deadlock
    # verdict is a violation here then (without a cancel it is C04's business: inconclusive)
    return e2e.run_with(case, evaluate, liveness=lambda obs: any(e['kind'] == 'cancel.begin' for e in obs.events))
