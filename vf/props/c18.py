"""C18 — shutdown is a barrier; transfers sharing a manager are isolated."""
import copy
import random

from .. import e2e, gen, oracles
from ..oracles import V
from .c04 import fault_or_cancel

PROPERTY = 'C18'
LEVEL = 'exploration'
RULE = ('every case is a mix of 2-4 transfers of different kinds on one manager with small limits, run TWICE: a baseline without '
        'disturbance and a disturbed run in which a subset fails (one fault per victim at a sampled boundary) or is cancelled, often '
        'with the first-submitted transfer failing at its first request while gates keep the others slow; exit is shutdown() issued '
        'while transfers are still running, the with-block exit, or result() on all followed by a fresh transfer and shutdown(); '
        'oracles: (barrier) every future is done when shutdown returns and, after waiting for quiescence, no S3 request, destination '
        'write or subscriber callback carries an event number after the return marker, and no stage thread survives; (isolation) every '
        'transfer that was not disturbed has the same successful outcome and byte-exact effect as in the baseline; (usable) the fresh '
        'transfer succeeds with the right bytes and every semaphore is back at capacity (C12 probe); families also: raising on_done at cancelling exits, failures whose cleanup fails too, a failed ranged download while the IO stage is full and wait() leaves early; non-trivial = the disturbed run '
        'actually raised its fault / fired its cancel, or the barrier was evaluated with >=2 transfers unfinished at shutdown time; '
        'distinct = (shape, interleaving signature of the disturbed run)')
ASSUMPTIONS = ['the wait() loop of the manager leaves at the first failed transfer (DESIGN note N1); the executor joins are what '
               'must preserve the barrier and the monitor checks exactly that']
CASE_TIMEOUT = 180.0


def gen_cases(tier, seed):
    rng = random.Random(seed)
    quick = tier == 'quick'
    cases = []
    for i in range(300 if quick else 3000):
        n = rng.choice([2, 3, 4])
        base = gen.mix(rng, n, hi=rng.choice([1, 2, 3]), sizes=[0, 7, 16, 19, 27, 41])
        base['plan']['delay_p'] = rng.choice([0.0, 0.2])
        dist = copy.deepcopy(base)
        victims = rng.sample(range(n), rng.choice([1, 1, 2]) if n > 2 else 1)
        style = rng.choice(['fault', 'fault', 'cancel', 'first-early'])
        if style == 'first-early':
            victims = [0]
        plan = dist['plan']
        for v in victims:
            tmp = {'plan': {}, 'config': dist['config']}
            fault_or_cancel(rng, dist['transfers'][v], tmp)
            tp = tmp['plan']
            if style == 'cancel' and 'faults' in tp:
                tp = {'cancel': {'at': tp['faults'][0]['at'], 'phase': tp['faults'][0]['phase'], 'how': 'future.cancel', 'from': 'event'}}
            if 'faults' in tp:
                for f in tp['faults']:
                    f['at'] = f['at'].replace('t0/', f't{v}/', 1)
                    f['tag'] = f'FAULT-v{v}'
                    plan.setdefault('faults', []).append(f)
            elif 'cancel' in tp and 'cancel' not in plan:
                c = tp['cancel']
                c['at'] = c['at'].replace('t0/', f't{v}/', 1)
                c['target'] = v
                c['from'] = 'event'
                plan['cancel'] = c
        if style == 'first-early':
            plan['gate'] = {'match': rng.choice(['t1/s3:', 't1/', '/s3:Get', '/s3:Upload']), 'phase': 'before', 'policy': 'seeded'}
        exit_mode = rng.choice(['shutdown_plain', 'shutdown_plain', 'with_ok', 'fresh'])
        for s in (base, dist):
            if exit_mode == 'shutdown_plain':
                s['mode'] = 'shutdown_plain'
                s['trigger'] = 'immediate'
            elif exit_mode == 'fresh':
                s['fresh'] = rng.choice([{'kind': 'upload', 'src': 'nonseekable', 'size': 20}, {'kind': 'download', 'dst': 'nonseekable', 'size': 20},
                                         {'kind': 'copy', 'size': 20}, {'kind': 'download', 'dst': 'path', 'size': 5}])
                s['probe'] = True
            else:
                s['mode'] = 'shutdown_plain'
                s['trigger'] = 'immediate'
        cases.append({'base': base, 'dist': dist, 'victims': victims, 'style': style, 'exit': exit_mode})
    # one transfer fails at its first request while 1-3 downloads are held back (gated until the process is quiescent, i.e. until
    # shutdown is already waiting): the wait() loop of the manager leaves at the first failure, so only the order in which the
    # stages are joined keeps the barrier
    for i in range(80 if quick else 800):
        n_dl = rng.choice([1, 2, 3])
        cfg = dict(multipart_threshold=16, multipart_chunksize=8, io_chunksize=4, num_download_attempts=2)
        cfg.update(gen.small_limits(rng, 3))
        victim_kind, vextra = rng.choice([('delete', {}), ('copy', {}), ('upload', {'src': 'path'}), ('download', {'dst': 'seekable'})])
        ts = [dict({'kind': victim_kind, 'size': 5}, **vextra)]
        for j in range(n_dl):
            ts.append({'kind': 'download', 'dst': rng.choice(['path', 'seekable', 'nonseekable', 'fifo']), 'size': rng.choice([5, 20, 33])})
        order = list(range(len(ts)))
        rng.shuffle(order)
        ts = [ts[k] for k in order]
        v = order.index(0)
        first = {'delete': 'DeleteObject', 'copy': 'HeadObject', 'upload': 'PutObject', 'download': 'HeadObject'}[victim_kind]
        base = {'seed': rng.randrange(1 << 30), 'min_part': 8, 'config': cfg, 'transfers': ts, 'mode': 'shutdown_plain', 'trigger': 'immediate',
                'plan': {'gate': {'match': '/s3:GetObject', 'phase': rng.choice(['before', 'after']), 'policy': 'seeded'}}}
        dist = copy.deepcopy(base)
        dist['plan']['faults'] = [{'at': f't{v}/s3:{first}#0', 'phase': 'before', 'kind': 'exc', 'tag': f'FAULT-v{v}'}]
        if victim_kind == 'download':
            base['plan']['gate']['match'] = dist['plan']['gate']['match'] = '.read#'
        if rng.random() < 0.35:
            # the victim fails INSIDE ITS SUBMISSION STEP with a BaseException that is not an Exception (sys.exit() in on_queued, a
            # framework's cancellation class): still one transfer's own failure
            dist['plan']['faults'] = [{'at': f't{v}/cb:on_queued:s0#0', 'phase': 'before', 'kind': rng.choice(['systemexit', 'base']), 'tag': f'FAULT-v{v}'}]
        cases.append({'base': base, 'dist': dist, 'victims': [v], 'style': 'first-fails-others-held', 'exit': 'shutdown_plain'})
    # cancelling exits (shutdown(cancel=True), exception / KeyboardInterrupt leaving the with-block) with several transfers in
    # progress, few request threads and requests held at gates, so that final tasks are still queued when the exit begins
    for i in range(80 if quick else 800):
        n = rng.choice([2, 3, 4])
        base = gen.mix(rng, n, hi=rng.choice([1, 1, 2]), sizes=[0, 7, 16, 19, 27])
        base['config']['max_request_concurrency'] = rng.choice([1, 1, 2])
        base['config']['max_request_queue_size'] = rng.choice([2, 5, 1000])
        base['config']['max_submission_queue_size'] = 1000
        # (incl. a real Ctrl-C - SIGINT - arriving while shutdown() / the with-exit is already waiting for the transfers)
        base['mode'] = rng.choice(['shutdown_cancel', 'with_exc', 'with_kbi', 'kbi_shutdown', 'kbi_exit'])
        base['trigger'] = 'immediate'
        base['kbi_only_in_wait'] = True  # a Ctrl-C landing in the joins that follow the wait aborts them by nature: not the barrier's business
        base['cancel_msg'] = 'bye'
        base['plan'] = {'gate': {'match': rng.choice(['/s3:', '/cb:on_queued', '/cb:on_done', '.read#']), 'phase': 'before', 'policy': 'seeded',
                                 'after_cancel_begin': rng.random() < 0.7}}
        if rng.random() < 0.4:
            # subscribers whose on_done raises (an exception in one on_done must not disturb anything else, C08): the exit still has to
            # cancel, wait for and join everything
            for k in rng.sample(range(n), rng.choice([1, n])):
                base['transfers'][k]['subs'] = [{}, {}]
                base['plan'].setdefault('faults', []).append({'at': f't{k}/cb:on_done:s0#0', 'phase': 'before', 'kind': 'exc', 'tag': f'FAULT-ondone-{k}'})
        cases.append({'base': base, 'dist': copy.deepcopy(base), 'victims': list(range(n)), 'style': 'cancelling-exit', 'exit': base['mode']})
    # a ranged download fails while every slot of the (tiny) IO stage is taken by another download whose destination is slow, and a
    # transfer tracked before it has failed already (so the manager's wait() loop leaves early): the failed download's last steps
    # still have to get through the full IO stage before shutdown returns
    for i in range(40 if quick else 400):
        cfg = dict(multipart_threshold=8, multipart_chunksize=8, io_chunksize=rng.choice([4, 8]), num_download_attempts=1,
                   max_io_queue_size=1, max_request_concurrency=rng.choice([2, 3]), max_submission_concurrency=rng.choice([1, 2, 3]),
                   max_request_queue_size=rng.choice([2, 1000]), max_in_memory_download_chunks=rng.choice([2, 3]))
        slow_dst = rng.choice(['path', 'seekable', 'nonseekable'])
        ts = [{'kind': 'delete', 'size': 3},
              {'kind': 'download', 'dst': slow_dst, 'size': rng.choice([24, 33])},
              {'kind': 'download', 'dst': rng.choice(['path', 'seekable', 'nonseekable']), 'size': rng.choice([24, 33, 41])}]
        if rng.random() < 0.3:
            ts[1], ts[2] = ts[2], ts[1]
        slow = [k for k, t in enumerate(ts) if t is not ts[0]][0] if ts[1].get('dst') == slow_dst else 1
        slow = 1 if ts[1]['dst'] == slow_dst else 2
        victim = 3 - slow
        base = {'seed': rng.randrange(1 << 30), 'config': cfg, 'transfers': ts, 'mode': 'shutdown_plain', 'trigger': 'immediate',
                'plan': {'gate': {'match': [f't{slow}/' + ('fs:write' if ts[slow]['dst'] == 'path' else 'dst:write'), 't0/s3:DeleteObject'], 'phase': 'before',
                                  'policy': 'seeded', 'after_cancel_begin': True}}}
        dist = copy.deepcopy(base)
        part = 8 * rng.randrange(0, 3)
        dist['plan']['faults'] = [{'at': 't0/s3:DeleteObject#0', 'phase': 'before', 'kind': 'exc', 'tag': 'FAULT-v0'},
                                  {'at': f't{victim}/s3:GetObject:{part}#0', 'phase': rng.choice(['before', 'body']), 'bytes': 3, 'kind': 'exc', 'tag': f'FAULT-v{victim}'}]
        cases.append({'base': base, 'dist': dist, 'victims': [0, victim], 'style': 'failed-download-io-full', 'exit': 'shutdown_plain'})
    # failures whose cleanup fails too (the part request and the abort both fail; the write and the temp-file removal both fail)
    # while other transfers run: the barrier and the neighbours must not notice
    for i in range(40 if quick else 400):
        n = rng.choice([2, 3])
        base = gen.mix(rng, n, hi=rng.choice([1, 2, 3]), sizes=[7, 16, 19, 27, 41])
        v = rng.randrange(n)
        vk = rng.choice(['upload', 'copy', 'download'])
        if vk == 'upload':
            base['transfers'][v] = {'kind': 'upload', 'src': rng.choice(['path', 'seekable', 'nonseekable']), 'size': 27}
            f1, f2 = f't{v}/s3:UploadPart:{rng.choice([1, 2, 3])}#0', f't{v}/s3:AbortMultipartUpload#0'
        elif vk == 'copy':
            base['transfers'][v] = {'kind': 'copy', 'size': 27}
            f1, f2 = f't{v}/s3:UploadPartCopy:{rng.choice([1, 2, 3])}#0', f't{v}/s3:AbortMultipartUpload#0'
        else:
            base['transfers'][v] = {'kind': 'download', 'dst': 'path', 'size': 27}
            f1, f2 = f't{v}/fs:write#{rng.choice([0, 1, 3])}', f't{v}/fs:remove#0'
        base['config'].update(multipart_threshold=16, multipart_chunksize=8)
        base['min_part'] = 8
        base['mode'] = 'shutdown_plain'
        base['trigger'] = 'immediate'
        dist = copy.deepcopy(base)
        kind2 = 'oserror' if '/fs:' in f2 else rng.choice(['exc', 'client4xx'])
        dist['plan']['faults'] = [{'at': f1, 'phase': 'before', 'kind': 'oserror' if '/fs:' in f1 else 'exc', 'tag': f'FAULT-v{v}'},
                                  {'at': f2, 'phase': 'before', 'kind': kind2, 'tag': f'FAULT-v{v}-cleanup'}]
        cases.append({'base': base, 'dist': dist, 'victims': [v], 'style': 'cleanup-fails-too', 'exit': 'shutdown_plain'})
    # callbacks acting on other transfers of the manager: on_done of the first transfer (which succeeds, fails or is cancelled)
    # cancels its siblings - some not started yet - or starts a fresh transfer on the same manager
    from .c04 import fault_or_cancel as _foc

    for kind, extra in gen.KINDS:
        for act in ('cancel_sibling', 'submit_new'):
            for outcome in ('success', 'fault', 'fault', 'cancel'):
                for rep in range(1 if quick else 3):
                    t = dict({'kind': kind, 'size': rng.choice([5, 20])}, **extra)
                    t['subs'] = [{'reenter': {'on_done': [act]}}, {}]
                    ts = [t] + [dict({'kind': k2, 'size': rng.choice([5, 20])}, **e2) for (k2, e2) in rng.sample(gen.KINDS, rng.choice([1, 2]))]
                    cfg = dict(multipart_threshold=16, multipart_chunksize=8, io_chunksize=4, max_request_concurrency=rng.choice([1, 2]),
                               max_submission_concurrency=rng.choice([1, 1, 2]))
                    sp = {'seed': rng.randrange(1 << 30), 'min_part': 8, 'config': cfg, 'transfers': ts, 'family': 'callbacks-on-others', 'plan': {},
                          'chained': True}
                    if outcome != 'success':
                        _foc(rng, t, sp)
                    if rng.random() < 0.3:
                        # everything inline in the caller's thread (what use_threads=False selects): the callback then runs INSIDE the
                        # manager call that started the first transfer
                        sp['executor'] = 'nonthreaded'
                    cases.append({'style': 'chained', 'spec': sp})

    from ..gen import sprinkle

    sprinkle(cases, seed)
    return cases


def barrier_violations(obs):
    out = []
    se = [e for e in obs.events if e['kind'] == 'shutdown.end']
    if not se:
        return out, 0
    kbi = getattr(obs, 'kbi', None)
    if kbi is not None and kbi.get('kbi') and kbi.get('where') != 'wait':
        # the Ctrl-C reached the main thread after the wait for the transfers, in the joins of the executors: it aborts them by
        # nature, so nothing is demanded of what follows
        return out, 0
    n0 = se[0]['n']
    late = [e for e in obs.events if e['n'] > n0 and (e['kind'] in ('api.begin', 's3.begin', 'dst.write', 'fs.write', 'fs.rename', 'fs.remove')
                                                     or e['kind'].startswith('cb.on_'))]
    if late:
        e = late[0]
        out.append(V(f'{e["kind"]} for {e.get("label")} happened after shutdown had returned ({len(late)} late events)', sym='late-activity',
                     late_kind=e['kind'].split('.')[0]))
    dab = getattr(obs, 'done_at_barrier', None)
    if dab:
        nd = [k for k, v in dab.items() if v is False]
        if nd:
            out.append(V(f'futures {nd} were not done when shutdown returned', sym='not-done-at-barrier'))
    if getattr(obs, 'live_stage_threads', None):
        out.append(V(f'stage threads still alive after shutdown returned and the process went quiet: {obs.live_stage_threads[:4]}',
                     sym='threads-survive-shutdown'))
    if obs.shutdown_exc is not None and not isinstance(obs.shutdown_exc, KeyboardInterrupt):
        # (a BaseException that is not an Exception - SystemExit from a callback, say - which a transfer recorded as its failure comes
        # out of the exit's own wait; the statement speaks of the exit RETURNING, so that is not judged - everything else still is)
        if isinstance(obs.shutdown_exc, Exception) or not oracles.find_tags(obs.shutdown_exc):
            out.append(V(f'shutdown raised {obs.shutdown_exc!r}', sym='shutdown-raised'))
    unfinished = 0
    sb = [e for e in obs.events if e['kind'] == 'shutdown.begin']
    if sb:
        for x in obs.xfers:
            dn = [e for e in obs.events if e['kind'] == 'cb.on_done' and e.get('label') == x.label]
            if not dn or dn[0]['n'] > sb[0]['n']:
                unfinished += 1
    return out, unfinished


def chained_evaluate(obs):
    """'Usable' from inside a callback: an on_done subscriber of one transfer cancels its siblings or starts a fresh transfer on the
    same manager.  Everything ends (a deadlock is reported by the runner), the fresh transfer succeeds, and a sibling the callback
    did not touch keeps a successful outcome."""
    viol = []
    co = getattr(obs, 'chained_outcomes', None) or []
    stats = {'chained_runs': 1, 'chained_started': len(co), 'disturbed_fault_hit': len(obs.world.director.raised)}
    for (k, how, what) in co:
        if how != 'success':
            viol.append(V(f'a fresh upload ({k}) started on the same manager from inside on_done ended {how}: {what}', sym='chained-failed'))
    acts = [a for t in obs.spec['transfers'] for sb in (t.get('subs') or []) for a in (sb.get('reenter') or {}).get('on_done', ())]
    if 'cancel_sibling' not in acts and not obs.cancel_events:
        for x in obs.xfers[1:]:
            if x.outcome == 'raised':
                viol.append(V(f'{x.label} ({x.kind}) had nothing wrong with it but ended {scenario.describe_outcome(x)} beside a transfer whose on_done '
                              f'started a fresh transfer', sym='bystander-failed', kind=x.kind))
    return viol, stats, True, {'outcomes': e2e.default_outcomes(obs), 'chained': co}


def run_case(case):
    from .. import scenario

    if case.get('style') == 'chained':
        r = e2e.run_with(case['spec'], chained_evaluate, liveness=True)
        return r
    res = {'verdict': 'held', 'key': None, 'violations': [], 'stats': {}, 'summary': {}}
    runs = {}
    for name in (('dist',) if case['style'] == 'cancelling-exit' else ('base', 'dist')):
        obs = scenario.run(case[name])
        if obs.hang is not None:
            if not hasattr(obs, 'events'):
                obs.events = obs.world.log.snapshot()
            r = e2e.hang_result(obs)
            r['summary']['run'] = name
            if obs.hang == 'deadlock' and str(getattr(obs, 'hang_what', '')).startswith('result-after-shutdown'):
                # shutdown returned, yet a transfer submitted before it never becomes done: result() blocks with the
                # whole process quiescent
                r['verdict'] = 'violated'
                r['violations'] = [V(f'shutdown returned but a transfer submitted before it never finished: result() blocks with the process '
                                     f'quiescent ({name} run; blocked in {e2e.lib_frames(obs.stacks)}; exceptions seen: '
                                     f'{[t["exc"][:80] for t in obs.thread_exc][:2]})', sym='not-done-after-shutdown', run=name)]
            return r
        runs[name] = obs
    try:
        if 'base' not in runs:
            runs['base'] = runs['dist']
        b, d = runs['base'], runs['dist']
        viol = []
        stats = {'pairs': 1, 'disturbed_fault_hit': len(d.world.director.raised), 'disturbed_cancel_fired': 1 if d.cancel_events else 0,
                 'fresh_checked': 0, 'probe_checked': 0, 'bystanders_checked': 0}
        for name, obs in runs.items():
            bv, unfinished = barrier_violations(obs)
            for v in bv:
                v['mech']['run'] = name
            viol += bv
            stats[f'unfinished_at_shutdown_{name}'] = unfinished
            stats['barrier_evaluated'] = stats.get('barrier_evaluated', 0) + (1 if [e for e in obs.events if e['kind'] == 'post.check'] else 0)
        victims = set(case['victims'])
        for xb, xd in zip(b.xfers, d.xfers):
            if getattr(xb, 'fresh', False):
                continue
            if xb.idx in victims:
                continue
            stats['bystanders_checked'] += 1
            if xb.outcome != 'success':
                continue  # baseline itself unusual: nothing to compare against (counted)
            cv = oracles.content_oracle(d, xd)
            if xd.outcome != 'success':
                viol.append(V(f'{xd.label} ({xd.kind}) succeeded in the baseline but ended {scenario.describe_outcome(xd)} when '
                              f'neighbour(s) {sorted(victims)} were disturbed ({case["style"]})', sym='bystander-outcome-changed',
                              kind=xd.kind, style=case['style']))
            for v in cv:
                v['mech']['sym'] = 'bystander-bytes-changed'
                viol.append(v)
        for obs in runs.values():
            for x in obs.xfers:
                if getattr(x, 'fresh', False):
                    stats['fresh_checked'] += 1
                    if x.outcome != 'success':
                        viol.append(V(f'fresh {x.kind} after the mix ended {scenario.describe_outcome(x)}', sym='fresh-failed', kind=x.kind))
                    viol += oracles.content_oracle(obs, x)
            p = getattr(obs, 'probe', None)
            if p and getattr(obs, 'probe_quiescent', False):
                stats['probe_checked'] += 1
                for nm, (acc, exp) in p.items():
                    if acc != exp:
                        viol.append(V(f'after the mix semaphore {nm} accepts {acc} permits, configured {exp}', sym='capacity-after-run', sem=nm))
        nontrivial = bool(stats['disturbed_fault_hit'] or stats['disturbed_cancel_fired'] or stats.get('unfinished_at_shutdown_dist', 0) >= 2)
        key = None
        if nontrivial:
            import hashlib

            key = hashlib.sha1((e2e.shape_of(case['dist']) + e2e.interleaving_sig(d)).encode()).hexdigest()[:16]
        stats['events'] = len(b.events) + len(d.events)
        res = {'verdict': 'violated' if viol else 'held', 'key': key, 'violations': viol, 'stats': stats,
               'summary': {'base': e2e.default_outcomes(b), 'dist': e2e.default_outcomes(d), 'victims': sorted(victims), 'style': case['style'],
                           'exit': case['exit']}}
        return res
    finally:
        for obs in {id(o): o for o in runs.values()}.values():
            scenario.cleanup(obs)
