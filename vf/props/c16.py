"""C16 — streaming destinations are written strictly in order, each byte once."""
import itertools
import os
import random
import stat
import threading

from ..oracles import V

PROPERTY = 'C16'
LEVEL = 'exploration'
EXHAUSTIVE = {'quick': True, 'thorough': True}
RULE = ('delivery histories as the download loop can produce them: an object of N position-revealing bytes is split into disjoint '
        'consecutive parts; each part has 1..A attempts, every attempt delivers consecutive chunks starting at the part\'s first byte, '
        'cut at arbitrary places and stopping anywhere (the last attempt delivers the whole part), attempts of different parts '
        'interleave arbitrarily. (exh) ALL such histories up to the bound (quick: N<=5, <=2 parts, <=2 attempts; thorough: N<=5 with <=3 parts x <=2 attempts and <=2 parts x <=3 attempts, N<=5 '
        'with 3 parts x 3 attempts and at most two parts retried, N=6 with 3 parts x 3 attempts and at most one part retried) are fed to the real DeferQueue.request_writes; after every call: each released write '
        'starts at the number of bytes released so far and carries exactly the object bytes of that range, and the released length '
        'equals the longest prefix covered by everything delivered so far; at the end nothing is unreleased. (rand) random histories '
        'up to 64 bytes / 5 parts / 4 attempts. (mgr) histories pushed from one thread per part through the real '
        'DownloadNonSeekableOutputManager.queue_file_io_task + BoundedExecutor IO thread into a recording sink (with line-level yield '
        'injection in download.py) and, for single-part histories, through the immediate-write path. (e2e) whole downloads through TransferManager to stream objects, FIFO paths and symbolic links to FIFOs, with gated part orders, retried ranges and short reads: content exact, stream writes at strictly increasing positions, the FIFO / link still in place. non-trivial = history contains at '
        'least one re-delivery or out-of-order arrival; distinct = distinct histories')
ASSUMPTIONS = ['all attempts deliver identical bytes for identical positions (the object does not change during the download)']
CASE_TIMEOUT = 600.0


def compositions(n):
    """All ways to cut n>0 consecutive bytes into chunks (tuple of chunk lengths)."""
    if n == 0:
        yield ()
        return
    for first in range(1, n + 1):
        for rest in compositions(n - first):
            yield (first,) + rest


def attempts_for(length, max_attempts):
    """All attempt lists for a part: 0..max_attempts-1 partial-or-full attempts, then a final full one."""
    partial = []
    for l in range(0, length + 1):
        for c in compositions(l):
            partial.append(c)
    finals = list(compositions(length))
    for k in range(0, max_attempts):
        for pre in itertools.product(partial, repeat=k):
            for fin in finals:
                yield list(pre) + [fin]


def part_layouts(n, max_parts):
    for k in range(1, max_parts + 1):
        for cuts in itertools.combinations(range(1, n), k - 1):
            b = (0,) + cuts + (n,)
            yield [(b[i], b[i + 1] - b[i]) for i in range(k)]


def deliveries_of(start, attempts):
    out = []
    for a in attempts:
        off = start
        for ln in a:
            out.append((off, ln))
            off += ln
    return out


def interleavings(seqs):
    """All merges of the given sequences preserving each one's order."""
    seqs = [s for s in seqs if s]
    if not seqs:
        yield []
        return
    if len(seqs) == 1:
        yield list(seqs[0])
        return
    for i, s in enumerate(seqs):
        rest = seqs[:i] + [s[1:]] + seqs[i + 1:]
        for tail in interleavings(rest):
            yield [s[0]] + tail


def check_history(obj, hist):
    """Feed one history to a fresh real DeferQueue; returns violation or None."""
    from s3transfer.download import DeferQueue

    q = DeferQueue()
    n = len(obj)
    covered = bytearray(n)
    released = 0
    for step, (off, ln) in enumerate(hist):
        data = obj[off:off + ln]
        try:
            writes = q.request_writes(off, data)
        except Exception as e:  # noqa
            return f'request_writes({off}, {ln} bytes) raised {e!r} at step {step}', 'raised'
        for i in range(off, off + ln):
            covered[i] = 1
        for w in writes:
            d = w['data']
            if not d:
                continue
            if w['offset'] != released:
                return (f'step {step}: released write at offset {w["offset"]} but {released} bytes were released so far '
                        f'(history {hist})'), 'offset'
            if bytes(d) != obj[released:released + len(d)]:
                return f'step {step}: released bytes differ from object at offset {released} (history {hist})', 'content'
            released += len(d)
        want = 0
        while want < n and covered[want]:
            want += 1
        if released < want:
            return (f'step {step}: {want} contiguous bytes have arrived but only {released} were released (late release; '
                    f'history {hist})'), 'late'
        if released > want:
            return f'step {step}: released {released} bytes but only {want} contiguous bytes arrived (history {hist})', 'early'
    if released != n:
        return f'end of history: {n - released} bytes never released (history {hist})', 'unreleased'
    return None


def is_nontrivial(hist):
    seen_end = 0
    offs = [o for o, _ in hist]
    redelivery = len(set(offs)) < len(offs) or any(hist[i][0] < hist[i - 1][0] + hist[i - 1][1] and hist[i][0] <= hist[i - 1][0] for i in range(1, len(hist)))
    ooo = any(hist[i][0] < hist[i - 1][0] for i in range(1, len(hist))) or (hist and hist[0][0] != 0)
    return redelivery or ooo


def mech_of(hist, sym):
    # does the history contain a chunk that partially overlaps an earlier chunk (different boundaries)?
    partial = False
    for i, (o, l) in enumerate(hist):
        for (o2, l2) in hist[:i]:
            if (o, l) != (o2, l2) and o < o2 + l2 and o2 < o + l:
                partial = True
    return {'cls': 'DeferQueue', 'sym': sym, 'partial_overlap_in_history': partial}


def exhaustive(n, max_parts, max_attempts, max_retried_parts=None, only_layout=None):
    obj = bytes(range(1, n + 1))
    viol = []
    stats = {'histories': 0, 'nontrivial': 0, 'steps': 0}
    for li, layout in enumerate(part_layouts(n, max_parts)):
        if only_layout is not None and li != only_layout:
            continue
        per_part = []
        for (start, ln) in layout:
            per_part.append([deliveries_of(start, a) for a in attempts_for(ln, max_attempts)])
        for combo in itertools.product(*per_part):
            if max_retried_parts is not None:
                retried = sum(1 for (start, ln), seq in zip(layout, combo) if sum(l for _, l in seq) > ln or len([1 for o, _ in seq if o == start]) > 1)
                if retried > max_retried_parts:
                    continue
            for hist in interleavings(list(combo)):
                stats['histories'] += 1
                stats['steps'] += len(hist)
                if is_nontrivial(hist):
                    stats['nontrivial'] += 1
                r = check_history(obj, hist)
                if r is not None and len(viol) < 5:
                    viol.append(V(f'DeferQueue, object of {n} bytes: {r[0]}', **mech_of(hist, r[1])))
    return viol, stats


def random_history(rng, n, parts, max_attempts):
    cuts = sorted(rng.sample(range(1, n), parts - 1)) if parts > 1 else []
    b = [0] + cuts + [n]
    seqs = []
    for i in range(parts):
        start, ln = b[i], b[i + 1] - b[i]
        attempts = []
        for a in range(rng.randrange(0, max_attempts)):
            l = rng.randrange(0, ln + 1)
            attempts.append(random_cut(rng, l))
        attempts.append(random_cut(rng, ln))
        seqs.append(deliveries_of(start, attempts))
    hist = []
    idx = [0] * parts
    while True:
        avail = [i for i in range(parts) if idx[i] < len(seqs[i])]
        if not avail:
            break
        i = rng.choice(avail)
        hist.append(seqs[i][idx[i]])
        idx[i] += 1
    return hist, seqs


def random_cut(rng, l):
    out = []
    while l > 0:
        c = rng.randrange(1, min(l, 9) + 1)
        out.append(c)
        l -= c
    return tuple(out)


def manager_history(case):
    """Push a history through the real non-seekable output manager and IO executor."""
    from s3transfer.download import DownloadNonSeekableOutputManager
    from s3transfer.futures import BoundedExecutor, TransferCoordinator
    from s3transfer.utils import OSUtils
    from .. import yieldinj

    rng = random.Random(case['seed'])
    n, parts = case['n'], case['parts']
    obj = bytes(rng.randrange(256) for _ in range(n))
    hist, seqs = random_history(rng, n, parts, case['attempts'])
    written = []
    lock = threading.Lock()

    class Sink:
        def write(self, data):
            with lock:
                written.append(bytes(data))

    coord = TransferCoordinator(transfer_id=1)
    ex = BoundedExecutor(1000, 1)
    mgr = DownloadNonSeekableOutputManager(OSUtils(), coord, ex)
    sink = Sink()
    wins = ()
    if case.get('window'):
        w = case['window']
        wins = [{'file': 'download.py', 'line': w['lineno'], 'nth': w.get('nth', 0), 'action': 'pause', 'name': w['name'], 'wait': 0.2,
                 'rmw': bool(w.get('rmw'))}]
    inj = yieldinj.Injector(p=case.get('yield_p', 0.2), seed=case['seed'], files=['download.py', 'futures.py'], windows=wins).install()
    try:
        if case['mode'] == 'threads':
            def feed(seq):
                for (off, ln) in seq:
                    mgr.queue_file_io_task(sink, obj[off:off + ln], off)
            ths = [threading.Thread(target=feed, args=(s,), daemon=True) for s in seqs]
            for t in ths:
                t.start()
            for t in ths:
                t.join(30)
        elif case['mode'] == 'immediate':
            from s3transfer.download import ImmediatelyWriteIOGetObjectTask

            imm = ImmediatelyWriteIOGetObjectTask(transfer_coordinator=coord)
            for (off, ln) in hist:
                imm._handle_io(mgr, sink, obj[off:off + ln], off)
        else:
            for (off, ln) in hist:
                mgr.queue_file_io_task(sink, obj[off:off + ln], off)
        ex.shutdown(True)
    finally:
        inj.uninstall()
    got = b''.join(written)
    viol = []
    if got != obj:
        i = 0
        while i < min(len(got), len(obj)) and got[i] == obj[i]:
            i += 1
        viol.append(V(f'non-seekable output manager ({case["mode"]}): sink received {len(got)} bytes for an object of {n}, first '
                      f'difference at {i}; history {hist if case["mode"] != "threads" else seqs}',
                      cls='DownloadNonSeekableOutputManager', sym='sink-differs', mode=case['mode']))
    return {'verdict': 'violated' if viol else 'held', 'key': f'mgr-{case["seed"]}', 'violations': viol,
            'stats': {'manager_histories': 1, 'sink_writes': len(written), 'yield_events': inj.events},
            'summary': {'n': n, 'parts': parts, 'deliveries': len(hist), 'mode': case['mode']}}


def gen_cases(tier, seed):
    rng = random.Random(seed)
    quick = tier == 'quick'
    cases = []
    if quick:
        for n in range(1, 6):
            cases.append({'type': 'exh', 'n': n, 'parts': 2, 'attempts': 2})
    else:
        for n in range(1, 6):
            cases.append({'type': 'exh', 'n': n, 'parts': 3, 'attempts': 2})
        for n in range(1, 6):
            cases.append({'type': 'exh', 'n': n, 'parts': 2, 'attempts': 3})
        cases.append({'type': 'exh', 'n': 6, 'parts': 2, 'attempts': 2})
        for li in range(len(list(part_layouts(6, 3)))):
            cases.append({'type': 'exh', 'n': 6, 'parts': 3, 'attempts': 3, 'max_retried': 1, 'layout': li})
        for li in range(len(list(part_layouts(5, 3)))):
            cases.append({'type': 'exh', 'n': 5, 'parts': 3, 'attempts': 3, 'max_retried': 2, 'layout': li})
    for i in range(16 if quick else 64):
        cases.append({'type': 'rand', 'seed': rng.randrange(1 << 30), 'count': 1500 if quick else 6000})
    for i in range(150 if quick else 1500):
        cases.append({'type': 'mgr', 'seed': rng.randrange(1 << 30), 'n': rng.choice([5, 16, 40, 64]), 'parts': rng.choice([1, 2, 3, 5]),
                      'attempts': rng.choice([1, 2, 3, 4]), 'mode': rng.choice(['threads', 'threads', 'sequential', 'immediate']),
                      'yield_p': rng.choice([0.0, 0.2])})
    # several request threads delivering their parts at the same time, with the first (second, ...) thread that reaches a statement of
    # the output manager / defer queue held there until the others have run as far as they can
    from .. import windows

    wl = [l for l in windows.candidate_lines(['download.py']) if l[2].startswith(('DownloadNonSeekableOutputManager.', 'DeferQueue.', 'DownloadOutputManager.'))]
    for line in wl:
        for nth in ((0, 1) if quick else (0, 1, 2, 3)):
            for rep in range(1 if quick else 3):
                cases.append({'type': 'mgr', 'seed': rng.randrange(1 << 30), 'n': rng.choice([16, 40]), 'parts': rng.choice([2, 3, 5]), 'attempts': rng.choice([1, 2]),
                              'mode': 'threads', 'yield_p': 0.0, 'window': {'lineno': line[1], 'nth': nth, 'name': f'{line[0]}:{line[1]}:{line[2]}'}})
    from .. import yieldinj as _yi

    for site in _yi.rmw_sites(['download.py']):
        if site[2].startswith(('DeferQueue.', 'DownloadNonSeekableOutputManager.')):
            for nth in ((0, 1, 2) if quick else (0, 1, 2, 3, 5, 8)):
                for rep in range(1 if quick else 3):
                    cases.append({'type': 'mgr', 'seed': rng.randrange(1 << 30), 'n': rng.choice([16, 40]), 'parts': rng.choice([2, 3, 5]), 'attempts': rng.choice([1, 2]),
                                  'mode': 'threads', 'yield_p': 0.0,
                                  'window': {'lineno': site[1], 'nth': nth, 'name': f'rmw:{site[0]}:{site[1]}:{site[2]}', 'rmw': True}})
    # (e2e) the whole way through TransferManager.download: destinations that cannot seek given as a stream object, as the path of a
    # FIFO, and as a symbolic link to a FIFO (like /dev/stdout), parts finishing in steered orders, retried ranges, short reads
    for i in range(60 if quick else 600):
        C = rng.choice([4, 8])
        T = rng.choice([C, 2 * C])
        size = rng.choice([T - 1, T, 2 * C + 1, 4 * C, 5 * C + 3])
        t = {'kind': 'download', 'dst': rng.choice(['nonseekable', 'nonseekable', 'fifo', 'fifo']), 'size': size}
        if t['dst'] == 'nonseekable' and rng.random() < 0.5:
            t['flavor'] = 'declared'  # says seekable() is False although seek() / tell() exist
        if t['dst'] == 'nonseekable' and rng.random() < 0.4:
            t['write_ret'] = rng.choice(['none', 'half', 'zero', 'true'])  # write() takes everything but returns something else than len(data)
        if t['dst'] == 'fifo' and rng.random() < 0.5:
            t['symlink'] = True
        cfg = dict(multipart_threshold=T, multipart_chunksize=C, io_chunksize=rng.choice([1, 3, C]), max_request_concurrency=rng.choice([1, 2, 3]),
                   max_in_memory_download_chunks=rng.choice([1, 2, 3]), num_download_attempts=3)
        spec = {'seed': rng.randrange(1 << 30), 'config': cfg, 'transfers': [t], 'get_read_caps': rng.choice([None, [[2], [3]], [[1, 4], [3, 2]]]), 'plan': {}}
        if size >= T and rng.random() < 0.7:
            spec['plan']['gate'] = {'match': 's3:GetObject', 'phase': rng.choice(['before', 'after']), 'policy': rng.choice(['reverse', 'lowest_last', 'seeded'])}
        if rng.random() < 0.5:
            st = 'all' if size < T else str(C * rng.randrange(0, (size + C - 1) // C))
            spec['plan']['faults'] = [{'at': f't0/s3:GetObject:{st}#0', 'phase': 'body', 'bytes': rng.randrange(0, C), 'kind': 'connreset', 'tag': 'FAULT-e2e'}]
        cases.append({'type': 'e2e', 'spec': spec})
    # a non-blocking stream destination whose reader falls behind: a write takes part of the data and raises BlockingIOError
    for i in range(30 if quick else 300):
        C = rng.choice([4, 8])
        T = rng.choice([C, 100])
        size = rng.choice([2 * C + 1, 4 * C, 5 * C + 3])
        cfg = dict(multipart_threshold=T, multipart_chunksize=C, io_chunksize=rng.choice([2, 4, C]), max_request_concurrency=rng.choice([1, 2, 3]),
                   max_in_memory_download_chunks=rng.choice([1, 2, 3]))
        spec = {'seed': rng.randrange(1 << 30), 'config': cfg, 'transfers': [{'kind': 'download', 'dst': 'nonseekable', 'size': size}], 'family': 'partial-write',
                'plan': {'faults': [{'at': f't0/dst:write#{rng.randrange(0, 4)}', 'phase': 'before', 'kind': 'blockingio', 'tag': 'FAULT-blocking'}]}}
        cases.append({'type': 'e2e', 'spec': spec})
    # hundreds of io blocks withheld behind ONE gap (the lowest part is the last to arrive, the others were read completely meanwhile):
    # when the gap closes - possibly with the very last delivery of the transfer - everything withheld is written
    for i in range(6 if quick else 40):
        C = rng.choice([48, 64, 100])
        nparts = rng.choice([3, 4, 5])
        size = nparts * C - rng.choice([0, 0, 7])
        cfg = dict(multipart_threshold=C, multipart_chunksize=C, io_chunksize=1, max_request_concurrency=nparts, max_in_memory_download_chunks=nparts,
                   max_io_queue_size=rng.choice([1000, 1000, 3]), num_download_attempts=2)
        t = {'kind': 'download', 'dst': rng.choice(['nonseekable', 'nonseekable', 'fifo']), 'size': size}
        spec = {'seed': rng.randrange(1 << 30), 'config': cfg, 'transfers': [t], 'family': 'many-withheld-blocks',
                'plan': {'gate': {'match': 's3:GetObject', 'phase': 'before', 'policy': 'lowest_last'}}}
        cases.append({'type': 'e2e', 'spec': spec})
    # a stream whose FIRST write stalls for seconds of real time while the IO stage is full: part 0 is being written, part 2 is withheld,
    # part 1 closes the gap (its thread holds two released blocks and waits for room), then part 3 arrives: however long anybody has to
    # wait, the stream is written in order.  (Arrival order made by short stalls of the requests themselves.)
    for i in range(2 if quick else 8):
        C = 4
        nparts = rng.choice([4, 5])
        cfg = dict(multipart_threshold=C, multipart_chunksize=C, io_chunksize=C, max_request_concurrency=nparts, max_in_memory_download_chunks=8,
                   max_io_queue_size=1, num_download_attempts=2)
        faults = [{'at': 't0/dst:write#0', 'phase': 'before', 'kind': 'stall', 'secs': 7.0 if quick else rng.choice([7.0, 10.0]), 'tag': 'STALL-w'},
                  {'at': f't0/s3:GetObject:{C}#0', 'phase': 'before', 'kind': 'stall', 'secs': 0.5, 'tag': 'STALL-1'},
                  {'at': f't0/s3:GetObject:{3 * C}#0', 'phase': 'before', 'kind': 'stall', 'secs': 1.0, 'tag': 'STALL-3'}]
        if nparts == 5:
            faults.append({'at': f't0/s3:GetObject:{4 * C}#0', 'phase': 'before', 'kind': 'stall', 'secs': 1.5, 'tag': 'STALL-4'})
        spec = {'seed': rng.randrange(1 << 30), 'config': cfg, 'transfers': [{'kind': 'download', 'dst': 'nonseekable', 'size': nparts * C}],
                'family': 'stalling-stream', 'wall_timeout': 60.0, 'plan': {'faults': faults}}
        cases.append({'type': 'e2e', 'spec': spec})
    # real-scale blocks: io_chunksize (the size of the blocks handed to the destination) above and around 1 MiB, objects of a few MiB,
    # single-request and ranged
    MB = 1024 * 1024
    for i in range(8 if quick else 40):
        ioc = rng.choice([MB + 1, 2 * MB, 3 * MB, MB - 1, 256 * 1024])
        size = rng.choice([MB + 1, 2 * MB, 3 * MB + 5, 2 * MB + 1])
        ranged = rng.random() < 0.4
        cfg = dict(io_chunksize=ioc, max_request_concurrency=rng.choice([1, 2, 3]), max_in_memory_download_chunks=rng.choice([2, 3]))
        if ranged:
            cfg.update(multipart_threshold=MB, multipart_chunksize=rng.choice([MB, MB + MB // 2]))
        t = {'kind': 'download', 'dst': rng.choice(['nonseekable', 'nonseekable', 'fifo']), 'size': size}
        cases.append({'type': 'e2e', 'spec': {'seed': rng.randrange(1 << 30), 'config': cfg, 'transfers': [t], 'plan': {}, 'real': True, 'family': 'real-scale-blocks'}})
    for c in cases:
        if c['type'] == 'mgr' and c['mode'] == 'immediate':
            c['parts'] = 1
        if c['type'] == 'mgr' and c['parts'] >= c['n']:
            c['parts'] = 1
    return cases


def e2e_evaluate(obs):
    from .. import oracles

    viol = []
    stats = {'e2e_runs': 1, 'e2e_writes': 0, 'e2e_fifo': 0, 'e2e_symlinked_fifo': 0}
    for x in obs.xfers:
        viol += oracles.content_oracle(obs, x)
        injected = [r for r in obs.world.director.raised if r['kind'] == 'blockingio']
        stats['e2e_partial_write_faults'] = stats.get('e2e_partial_write_faults', 0) + len(injected)
        if x.outcome != 'success' and not injected:
            viol.append(V(f'{x.label}: download to a streaming destination ended {x.outcome}: {x.exc!r}', sym='e2e-failed', dst=x.spec.get('dst')))
        if x.fifo_reader is None and hasattr(x.dest, 'getvalue'):
            # whatever the outcome: what the stream has received is the object from byte 0 on, every position once (a destination
            # that took only part of a write and refused the rest must not be sent the accepted part again)
            got = x.dest.getvalue()
            if got != x.data[:len(got)]:
                i = 0
                while i < min(len(got), len(x.data)) and got[i] == x.data[i]:
                    i += 1
                viol.append(V(f'{x.label}: the stream received {len(got)} bytes that are not a prefix of the object (first difference at {i}; outcome '
                              f'{x.outcome}; partial-write faults {len(injected)})', sym='e2e-not-a-prefix', partial_write_fault=bool(injected)))
        if x.fifo_reader is not None:
            stats['e2e_fifo'] += 1
            stats['e2e_symlinked_fifo'] += 1 if x.spec.get('symlink') else 0
            if os.path.islink(x.dest) is not bool(x.spec.get('symlink')) or not stat.S_ISFIFO(os.stat(x.dest).st_mode):
                viol.append(V(f'{x.label}: the FIFO (or the symbolic link to it) at the destination name was replaced', sym='fifo-replaced'))
        else:
            # the stream object's own record of what was written to it: strictly increasing offsets, every byte once
            pos = 0
            for (n, th, off, ln) in x.dest.writes:
                stats['e2e_writes'] += 1
                if off != pos:
                    viol.append(V(f'{x.label}: write of {ln} bytes at stream position {off}, expected {pos}', sym='e2e-order'))
                    break
                pos += ln
    return viol, stats, True, {'outcomes': {x.label: x.outcome for x in obs.xfers}}


def run_case(case):
    t = case['type']
    if t == 'e2e':
        from .. import e2e

        return e2e.run_with(case['spec'], e2e_evaluate)
    if t == 'exh':
        viol, stats = exhaustive(case['n'], case['parts'], case['attempts'], case.get('max_retried'), case.get('layout'))
        return {'verdict': 'violated' if viol else 'held', 'key': f'exh-{case["n"]}-{case["parts"]}-{case["attempts"]}-{case.get("layout")}' if stats['nontrivial'] or case['n'] > 1 else None,
                'violations': viol, 'stats': {'exh_histories': stats['histories'], 'exh_nontrivial': stats['nontrivial'], 'exh_steps': stats['steps']},
                'summary': stats}
    if t == 'rand':
        rng = random.Random(case['seed'])
        viol = []
        nt = 0
        steps = 0
        for i in range(case['count']):
            n = rng.randrange(2, 65)
            parts = rng.randrange(1, min(5, n) + 1)
            obj = bytes(rng.randrange(256) for _ in range(n))
            hist, _ = random_history(rng, n, parts, 4)
            steps += len(hist)
            if is_nontrivial(hist):
                nt += 1
            r = check_history(obj, hist)
            if r is not None and len(viol) < 3:
                viol.append(V(f'DeferQueue, random history, object of {n} bytes: {r[0]}', **mech_of(hist, r[1])))
        return {'verdict': 'violated' if viol else 'held', 'key': f'rand-{case["seed"]}', 'violations': viol,
                'stats': {'rand_histories': case['count'], 'rand_nontrivial': nt, 'rand_steps': steps}, 'summary': {'histories': case['count']}}
    return manager_history(case)


def evidence_extra(cases, results):
    return {'exhaustive_bounds': [dict(c, **(r.get('summary') or {})) for c, r in zip(cases, results) if c['type'] == 'exh']}
