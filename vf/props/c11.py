"""C11 — in-memory buffering stays within the documented bounds."""
import random

from .. import bounds, e2e, gen

PROPERTY = 'C11'
LEVEL = 'exploration'
RULE = ('1-3 stream transfers sharing a manager (uploads from seekable / non-seekable streams; downloads to non-seekable streams and '
        'FIFOs, mixed with other kinds), small in-memory limits and queue sizes (1..3), part requests held at gates and released '
        'lowest-last / in reverse / seeded so that buffers pile up as far as the code allows; monitors: (uploads) bytes read from the '
        'user streams by the submission stage minus bytes whose part/put request returned <= (max_in_memory_upload_chunks + '
        'max_submission_concurrency) * max(chunksize, threshold), no single read larger than max(chunksize, threshold); (non-seekable '
        'downloads) no GetObject for part i begins while the lowest part whose body has not reached EOF is L with i-L >= '
        'max_in_memory_download_chunks, and the response data alive inside the library (lifetime-tracked body chunks, sampled at every '
        'body read, incl. runs where later parts are retried while the lowest part is held) <= window parts + pending writes + one '
        'chunk per request/IO thread; pending destination writes (counting IO executor) <= max_io_queue_size and the bytes they hold <= max_io_queue_size x io_chunksize (whole run; short-reads family: response bodies whose reads come back short); evaluated on the '
        'fault/cancel-free prefix of each run; thorough adds real-size (1 MiB chunk) runs with a tracemalloc peak as a coarse '
        'cross-check; also (whole run, incl. after faults/cancels): request-stage tasks holding an in-memory upload body queued-or-running at once <= max_in_memory_upload_chunks, with a trouble-midway family; non-trivial = a stream transfer ran multipart/ranged and a monitor evaluated; distinct = (shape, interleaving '
        'signature)')
ASSUMPTIONS = ['measured quantities are lower bounds of the real buffered amounts (a body counts until its request returns)']
CASE_TIMEOUT = 180.0


def gen_cases(tier, seed):
    rng = random.Random(seed)
    quick = tier == 'quick'
    cases = []
    up_kinds = [('upload', {'src': 'seekable'}), ('upload', {'src': 'nonseekable'})]
    dn_kinds = [('download', {'dst': 'nonseekable'}), ('download', {'dst': 'fifo'})]
    for i in range(400 if quick else 4000):
        n = rng.choice([1, 2, 3])
        fam = rng.choice(['up', 'down', 'mixed'])
        kinds = {'up': up_kinds, 'down': dn_kinds, 'mixed': up_kinds + dn_kinds + gen.KINDS}[fam]
        T, C = rng.choice([(16, 8), (8, 8), (24, 8), (8, 16)])
        spec = gen.mix(rng, n, T=T, C=C, hi=3, kinds=kinds, sizes=[T, T + 1, 3 * C, 5 * C + 1, 8 * C, 11 * C + 3])
        spec['min_part'] = min(C, T)
        r = rng.random()
        match = 's3:UploadPart' if fam == 'up' else ('s3:GetObject' if fam == 'down' else '/s3:')
        if r < 0.8:
            spec['plan']['gate'] = {'match': match, 'phase': rng.choice(['before', 'after']),
                                    'policy': rng.choice(['lowest_last', 'lowest_last', 'reverse', 'seeded'])}
        if fam == 'down' and rng.random() < 0.3:
            spec['config']['num_download_attempts'] = 3
            spec['plan']['faults'] = [{'at': f't0/s3:GetObject:{C * rng.randrange(0, 3)}#0', 'phase': 'body', 'bytes': rng.randrange(0, C),
                                       'kind': 'connreset', 'tag': 'FAULT-r'}]
        cases.append(spec)
    # an object of MORE THAN 10,000 parts downloaded to a stream that cannot seek (the part limit of uploads does not exist for downloads:
    # a range stays multipart_chunksize bytes, so the window still bounds the bytes held)
    for i in range(1 if quick else 3):
        C = 8
        cases.append({'seed': rng.randrange(1 << 30), 'min_part': C, 'family': 'more-than-10000-ranges', 'wall_timeout': 200.0,
                      'config': dict(multipart_threshold=C, multipart_chunksize=C, io_chunksize=8, max_request_concurrency=rng.choice([3, 4]),
                                     max_in_memory_download_chunks=rng.choice([2, 3]), max_io_queue_size=1000),
                      'transfers': [{'kind': 'download', 'dst': 'nonseekable', 'size': 10001 * C + rng.choice([0, 3])}], 'plan': {}})
    # more stream uploads than the submission stage has room for, with slow part requests: whoever calls upload() when the stage is full
    # waits - the streams are read by the submission threads only, so the buffered bytes stay within the bound
    for i in range(60 if quick else 600):
        n = rng.choice([3, 4, 5])
        T, C = rng.choice([(16, 8), (8, 8)])
        cfg = dict(multipart_threshold=T, multipart_chunksize=C, io_chunksize=4, max_submission_queue_size=rng.choice([1, 1, 2]),
                   max_submission_concurrency=rng.choice([1, 2]), max_in_memory_upload_chunks=rng.choice([1, 2]), max_request_concurrency=rng.choice([1, 2]),
                   max_request_queue_size=rng.choice([1, 2, 1000]))
        ts = [{'kind': 'upload', 'src': rng.choice(['nonseekable', 'seekable']), 'size': rng.choice([3 * C, 5 * C + 1, 8 * C])} for _ in range(n)]
        cases.append({'seed': rng.randrange(1 << 30), 'min_part': min(C, T), 'config': cfg, 'transfers': ts, 'family': 'many-stream-uploads',
                      'plan': {'gate': {'match': 's3:UploadPart', 'phase': 'before', 'policy': rng.choice(['lowest_last', 'seeded'])}, 'delay_p': 0.0}})
    # user streams whose reads come back short (pipes, sockets): the part bodies built from them must still respect the buffer size
    for i in range(40 if quick else 400):
        C = 8
        T = rng.choice([8, 8, 12])
        cfg = dict(multipart_threshold=T, multipart_chunksize=C, max_in_memory_upload_chunks=rng.choice([1, 2]), max_request_concurrency=rng.choice([1, 2]),
                   max_submission_concurrency=1)
        t = {'kind': 'upload', 'src': rng.choice(['nonseekable', 'nonseekable', 'seekable']), 'size': rng.choice([3 * C, 4 * C + 3, 6 * C]),
             'src_caps': rng.choice([[3], [5], [7, 2], [C - 1], [1, C]])}
        if t['src'] == 'nonseekable':
            t['flavor'] = rng.choice(['bare', 'declared', 'raising'])
            if rng.random() < 0.5:
                t['subs'] = [{'provide_size': t['size']}]
        cases.append({'seed': rng.randrange(1 << 30), 'min_part': min(C, T), 'config': cfg, 'transfers': [t], 'family': 'short-source-reads',
                      'plan': {'delay_p': rng.choice([0.0, 0.2])}})
    # response bodies whose reads come back short (3 of 4 requested bytes, 5 of 8, ...): what is handed to the IO queue per write must
    # still be at most io_chunksize, so that max_io_queue_size writes hold at most max_io_queue_size x io_chunksize bytes
    for i in range(60 if quick else 600):
        C = 8
        ioc = rng.choice([4, 8])
        cfg = dict(multipart_threshold=rng.choice([C, 2 * C, 100]), multipart_chunksize=C, io_chunksize=ioc, max_io_queue_size=rng.choice([1, 1, 2, 3]),
                   max_request_concurrency=rng.choice([1, 2, 3]), max_in_memory_download_chunks=rng.choice([1, 2, 3]))
        caps = rng.choice([[[3]], [[5]], [[3], [1, 2]], [[ioc - 1]], [[1, ioc - 1]], [[7, 2]]])
        n = rng.choice([1, 1, 2])
        ts = [{'kind': 'download', 'dst': rng.choice(['path', 'seekable', 'nonseekable', 'fifo']), 'size': rng.choice([7, 19, 3 * C, 5 * C + 3])} for _ in range(n)]
        spec = {'seed': rng.randrange(1 << 30), 'config': cfg, 'transfers': ts, 'family': 'short-reads', 'get_read_caps': caps,
                'plan': {'delay_p': rng.choice([0.0, 0.3])}}
        if rng.random() < 0.7:
            spec['plan']['gate'] = {'match': '/fs:write', 'phase': 'before', 'policy': 'seeded'}
        cases.append(spec)
    # many small uploads from non-seekable streams (below the threshold: each is read completely into memory and sent as one
    # PutObject) with the requests held: their bodies count against the same in-memory limit as multipart parts
    for i in range(40 if quick else 400):
        T = rng.choice([16, 24])
        n = rng.choice([3, 4, 5, 6])
        cfg = dict(multipart_threshold=T, multipart_chunksize=8, max_in_memory_upload_chunks=rng.choice([1, 2]), max_request_concurrency=rng.choice([1, 2]),
                   max_request_queue_size=rng.choice([50, 1000]), max_submission_concurrency=rng.choice([1, 2, 3]), max_submission_queue_size=1000)
        ts = [{'kind': 'upload', 'src': 'nonseekable', 'size': rng.choice([1, 5, T - 1]), 'flavor': rng.choice(['bare', 'declared', 'raising'])} for _ in range(n)]
        if rng.random() < 0.3:
            ts.insert(rng.randrange(n), {'kind': 'upload', 'src': 'nonseekable', 'size': 3 * T + 1})
        if rng.random() < 0.3:
            ts[0]['subs'] = [{'provide_size': ts[0]['size']}]
        cases.append({'seed': rng.randrange(1 << 30), 'min_part': 8, 'config': cfg, 'transfers': ts, 'family': 'small-streams',
                      'plan': {'gate': {'match': rng.choice(['s3:PutObject', '/s3:']), 'phase': 'before', 'policy': 'seeded'}}})
    # a stream upload failing or being cancelled half-way while its parts are held in the request stage: the submission thread goes on
    # reading the stream, and what it reads must still wait for an in-memory slot
    for i in range(40 if quick else 400):
        C = 8
        mem = rng.choice([1, 2])
        cfg = dict(multipart_threshold=C, multipart_chunksize=C, max_in_memory_upload_chunks=mem, max_request_concurrency=rng.choice([1, 2]),
                   max_request_queue_size=rng.choice([50, 1000]), max_submission_concurrency=1)
        t = {'kind': 'upload', 'src': rng.choice(['nonseekable', 'seekable']), 'size': rng.choice([8, 10, 12]) * C + rng.choice([0, 3])}
        spec = {'seed': rng.randrange(1 << 30), 'min_part': C, 'config': cfg, 'transfers': [t], 'family': 'trouble-midway',
                'plan': {'gate': {'match': 's3:UploadPart', 'phase': 'before', 'policy': rng.choice(['seeded', 'lowest_last'])}}}
        site = f't0/s3:UploadPart:{rng.choice([1, 2])}#0'
        if rng.random() < 0.5:
            spec['plan']['cancel'] = {'at': site, 'phase': 'after', 'how': 'future.cancel', 'from': rng.choice(['main', 'event'])}
        else:
            spec['plan']['faults'] = [{'at': site, 'phase': 'before', 'kind': 'exc', 'tag': 'FAULT-mid'}]
        if rng.random() < 0.4:
            spec['transfers'].append({'kind': 'upload', 'src': 'path', 'size': 5 * C})
        cases.append(spec)
    # retries while the lowest part is slow: later parts deliver (part of) their data, hit a retryable stream error and are
    # requested again - the re-delivered data must not pile up beside the copy already awaiting its turn
    for i in range(40 if quick else 400):
        C = 8
        win = rng.choice([2, 3, 4])
        attempts = rng.choice([3, 5, 6])
        nparts = win + rng.choice([1, 2, 3])
        cfg = dict(multipart_threshold=C, multipart_chunksize=C, io_chunksize=rng.choice([4, 8]), max_request_concurrency=rng.choice([2, 3, 4]),
                   max_in_memory_download_chunks=win, max_io_queue_size=rng.choice([1, 2]), num_download_attempts=attempts)
        faults = []
        for part in range(1, win):
            if rng.random() < 0.8:
                for j in range(rng.randrange(1, attempts)):
                    faults.append({'at': f't0/s3:GetObject:{part * C}#{j}', 'phase': 'body', 'bytes': rng.choice([C, C, 4]),
                                   'kind': rng.choice(['connreset', 'timeout', 'readtimeout']), 'tag': f'FAULT-r{part}-{j}'})
        cases.append({'seed': rng.randrange(1 << 30), 'config': cfg, 'family': 'retry-pileup',
                      'transfers': [{'kind': 'download', 'dst': rng.choice(['nonseekable', 'fifo']), 'size': nparts * C - rng.choice([0, 3])}],
                      'plan': {'faults': faults, 'gate': {'match': 't0/s3:GetObject:0#0', 'phase': rng.choice(['before', 'after'])}}})
    # several non-seekable ranged downloads competing for a tiny window, with a thread preempted at each statement of the
    # sliding-window semaphore (and the defer-queue submission) until the others have run as far as they can
    from .. import windows

    lines = [l for l in windows.candidate_lines() if l[2].startswith(('SlidingWindowSemaphore', 'BoundedExecutor.submit', 'DownloadNonSeekableOutputManager'))]
    for line in lines:
        for rep in range(2 if quick else 8):
            n = rng.choice([2, 3])
            cfg = dict(multipart_threshold=8, multipart_chunksize=8, io_chunksize=4, max_request_concurrency=rng.choice([2, 3, 4]),
                       max_submission_concurrency=n, max_in_memory_download_chunks=rng.choice([1, 1, 2]), max_io_queue_size=rng.choice([1, 1000]))
            ts = [{'kind': 'download', 'dst': rng.choice(['nonseekable', 'fifo']), 'size': rng.choice([24, 33, 41])} for _ in range(n)]
            w = {'file': line[0], 'lineno': line[1], 'name': f'{line[0]}:{line[1]}:{line[2]}', 'nth': rng.randrange(0, 6), 'action': 'pause', 'wait': 0.2}
            cases.append({'seed': rng.randrange(1 << 30), 'config': cfg, 'transfers': ts, 'yield': {'p': rng.choice([0.0, 0.1]), 'window': w},
                          'plan': {'delay_p': rng.choice([0.0, 0.3])}})
    if not quick:
        MB = 1024 * 1024
        for src in ('seekable', 'nonseekable'):
            cases.append({'seed': 1, 'real': True, 'config': dict(multipart_threshold=5 * MB, multipart_chunksize=5 * MB, max_in_memory_upload_chunks=2,
                                                                 max_submission_concurrency=1, max_request_concurrency=1),
                          'transfers': [{'kind': 'upload', 'src': src, 'size': 42 * MB}], 'body_read_sizes': [1 << 20], 'wall_timeout': 240.0,
                          'plan': {'gate': {'match': 's3:UploadPart', 'phase': 'before', 'policy': 'lowest_last'}}})
    return cases


def evaluate(obs):
    v1, s1 = bounds.upload_buffer_oracle(obs)
    v2, s2 = bounds.download_window_oracle(obs)
    v3, s3 = bounds.occupancy_oracle(obs)
    v3 = [v for v in v3 if v['mech'].get('stage') == 'io' and v['mech'].get('sym') == 'queue-overrun']
    v4, s4 = bounds.pending_io_bytes_oracle(obs)
    v3 = v3 + v4
    stats = {}
    stats.update(s1)
    stats.update(s2)
    stats.update(s4)
    stats['max_outstanding_io'] = s3.get('max_outstanding_io', 0)
    stats['reached_io_queue'] = s3.get('reached_io_queue', 0)
    stats.pop('upload_bound', None)
    nontrivial = (s1['stream_uploads'] > 0 and s1['max_buffered_upload_bytes'] > 0) or s2['nonseekable_ranged'] > 0 or s4['io_write_tasks_sized'] > 0
    if obs.spec.get('real'):
        stats['real_family'] = 1
    summary = {'outcomes': e2e.default_outcomes(obs), 'buffered_peak': s1['max_buffered_upload_bytes'], 'bound': s1['upload_bound'],
               'lookahead': s2['max_lookahead'], 'window': obs.config.max_in_memory_download_chunks}
    return v1 + v2 + v3, stats, bool(nontrivial), summary


def run_case(case):
    if case.get('real'):
        import tracemalloc

        tracemalloc.start()
        try:
            r = e2e.run_with(case, evaluate)
            cur, peak = tracemalloc.get_traced_memory()
        finally:
            tracemalloc.stop()
        r.setdefault('stats', {})['max_tracemalloc_peak_mb'] = int(peak / (1 << 20))
        return r
    return e2e.run_with(case, evaluate)
