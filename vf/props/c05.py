"""C05 — no orphaned or doubly-finished multipart uploads."""
import copy
import random

from .. import e2e, oracles, scenario
from . import c03

PROPERTY = 'C05'
LEVEL = 'fault_enumeration'
RULE = ('multipart uploads (path / seekable / non-seekable sources) and multipart copies through the transfer manager, plus '
        'the legacy MultipartUploader: a dry run lists the boundary events; then one run per (event, before/mid/after effect, '
        'fault kind) and one run per cancel point (future.cancel() issued from the event\'s own thread, i.e. strictly before or '
        'after that event\'s effect, incl. while CreateMultipartUpload / parts / complete are in flight); per upload id whose '
        'create response reached the library the fake\'s begin/end log is checked: exactly one of {completed once & never '
        'aborted, failed & abort issued before the future is done}, no request after the abort, abort only after every other '
        'request returned; bases with SSE-C / RequestPayer / ExpectedBucketOwner / checksum arguments; an abort counts only once it has left the client; a delivered successful complete must give a successful future and no abort; non-trivial = a delivered upload id existed and a fault/cancel was actually injected (or the run is '
        'the fault-free baseline); distinct = (shape incl. fault/cancel site, interleaving signature)')
ASSUMPTIONS = [
    'crash points are process-internal faults; a killed process is out of scope (the library has no recovery path)',
    'create faults injected after the effect leave a service-side upload the library never learned of: counted, excluded',
]
CASE_TIMEOUT = 120.0


def bases():
    cfg = dict(multipart_threshold=16, multipart_chunksize=8, max_request_concurrency=2, max_submission_concurrency=1,
               max_in_memory_upload_chunks=2)
    out = []
    for src in ('path', 'seekable', 'nonseekable'):
        out.append({'min_part': 8, 'config': dict(cfg), 'transfers': [{'kind': 'upload', 'src': src, 'size': 20}]})
    out.append({'min_part': 8, 'config': dict(cfg), 'transfers': [{'kind': 'copy', 'size': 20}]})
    out.append({'min_part': 8, 'config': dict(cfg, max_request_concurrency=1), 'transfers': [{'kind': 'upload', 'src': 'nonseekable', 'size': 30}]})
    out.append({'min_part': 8, 'config': dict(cfg, max_request_concurrency=3), 'client': {'checksum': 'when_required', 'scheme': 'http'},
                'transfers': [{'kind': 'upload', 'src': 'path', 'size': 25}]})
    # transfers carrying the extra arguments that only some of the multipart operations accept (an argument the abort request
    # does not know would make the cleanup itself fail)
    ssec = {'SSECustomerAlgorithm': 'AES256', 'SSECustomerKey': 'k' * 32, 'RequestPayer': 'requester', 'ExpectedBucketOwner': '123456789012'}
    out.append({'min_part': 8, 'config': dict(cfg), 'transfers': [{'kind': 'upload', 'src': 'path', 'size': 20,
                                                                    'extra_args': dict(ssec, Metadata={'a': 'b'}, ACL='private', ChecksumAlgorithm='CRC32')}]})
    out.append({'min_part': 8, 'config': dict(cfg), 'transfers': [{'kind': 'copy', 'size': 20,
                                                                    'extra_args': dict(ssec, CopySourceSSECustomerAlgorithm='AES256', CopySourceSSECustomerKey='s' * 32,
                                                                                       MetadataDirective='REPLACE', Metadata={'a': 'b'})}]})
    # multipart transfers of exactly ONE part (threshold below the part size, size between the two; also size == threshold ==
    # part size) and of exactly two
    cfg1 = dict(cfg, multipart_threshold=8, multipart_chunksize=16)
    for t in ({'kind': 'copy', 'size': 8}, {'kind': 'copy', 'size': 13}, {'kind': 'copy', 'size': 16}, {'kind': 'upload', 'src': 'path', 'size': 12},
              {'kind': 'upload', 'src': 'nonseekable', 'size': 16}, {'kind': 'copy', 'size': 17}):
        out.append({'min_part': 8, 'config': dict(cfg1), 'transfers': [t]})
    out.append({'min_part': 8, 'config': dict(cfg, multipart_threshold=8, multipart_chunksize=8), 'transfers': [{'kind': 'copy', 'size': 8}]})
    return out


def gen_cases(tier, seed):
    rng = random.Random(seed)
    quick = tier == 'quick'
    cases = []
    for bi, base in enumerate(bases()):
        keys, bodies, upbodies, ok = c03.dry_keys(base)
        s0 = copy.deepcopy(base)
        s0['seed'] = rng.randrange(1 << 30)
        cases.append(s0)
        if not ok:
            continue
        for k in keys:
            for i, f in enumerate(c03.faults_for_key(k, bodies, upbodies, quick)):
                for rep in range(1 if quick else 2):
                    s = copy.deepcopy(base)
                    s['seed'] = rng.randrange(1 << 30)
                    s['plan'] = {'faults': [dict(f, tag=f'FAULT-{bi}-{i}')], 'delay_p': rng.choice([0.0, 0.3])}
                    cases.append(s)
            if '/cb:on_done' in k or '.read#' in k:
                continue
            for phase in ('before', 'after'):
                for rep in range(1 if quick else 2):
                    s = copy.deepcopy(base)
                    s['seed'] = rng.randrange(1 << 30)
                    s['plan'] = {'cancel': {'at': k, 'phase': phase, 'how': 'future.cancel', 'from': 'event'},
                                 'delay_p': rng.choice([0.0, 0.3])}
                    cases.append(s)
        # k parts parked in flight while the cancel lands from the user thread
        for pn in (1, 2, 3):
            s = copy.deepcopy(base)
            s['seed'] = rng.randrange(1 << 30)
            op = 'UploadPartCopy' if base['transfers'][0]['kind'] == 'copy' else 'UploadPart'
            s['plan'] = {'cancel': {'at': f't0/s3:{op}:{pn}#0', 'phase': 'after', 'how': 'future.cancel', 'from': 'main'}}
            cases.append(s)
        # ... and while the MANAGER as a whole is told to stop (shutdown(cancel=True), a with-block left through an exception or Ctrl-C):
        # every part request is held in flight (after its effect, before it returns) until the cancel has begun and everything else
        # has come to rest
        for pn in (1,):  # (the first part to get there: every part is held from then on, so a later one might never be reached)
            for how in (('shutdown_cancel', 'with_exc', 'with_kbi') if not quick else (rng.choice(['shutdown_cancel', 'with_exc', 'with_exc', 'with_kbi']),)):
                s = copy.deepcopy(base)
                s['seed'] = rng.randrange(1 << 30)
                op = 'UploadPartCopy' if base['transfers'][0]['kind'] == 'copy' else 'UploadPart'
                s['mode'] = how
                s['trigger'] = 'event'
                s['cancel_msg'] = 'stop'
                s['family'] = 'manager-cancel-parts-in-flight'
                s['plan'] = {'cancel': {'at': f't0/s3:{op}:{pn}#0', 'phase': 'after', 'how': how, 'from': 'main'},
                             'gate': {'match': f't0/s3:{op}', 'phase': 'after', 'after_cancel_begin': True, 'policy': 'seeded'}}
                cases.append(s)
        # retried (forced) parts and create
        for at in ('t0/s3:CreateMultipartUpload#0', 't0/s3:CompleteMultipartUpload#0'):
            for ph in ('before', 'after'):
                s = copy.deepcopy(base)
                s['seed'] = rng.randrange(1 << 30)
                s['plan'] = {'faults': [{'at': at, 'phase': ph, 'kind': 'retry500', 'tag': 'FAULT-retry'}]}
                cases.append(s)
    # everything inline in the caller's thread (NonThreadedExecutor), incl. faults that are BaseExceptions but not Exceptions (Ctrl-C
    # while a part is being sent): they travel up through the submission task, which fails the transfer and aborts the upload
    for src in ('path', 'nonseekable', 'copy'):
        t = {'kind': 'copy', 'size': 20} if src == 'copy' else {'kind': 'upload', 'src': src, 'size': 20}
        op = 'UploadPartCopy' if src == 'copy' else 'UploadPart'
        for site in ('t0/s3:CreateMultipartUpload#0', f't0/s3:{op}:1#0', f't0/s3:{op}:2#0', f't0/s3:{op}:3#0', 't0/s3:CompleteMultipartUpload#0'):
            for kind in ('base', 'exc'):
                for ph in ('before', 'after'):
                    cases.append({'min_part': 8, 'executor': 'nonthreaded', 'seed': rng.randrange(1 << 30), 'family': 'nonthreaded',
                                  'config': dict(multipart_threshold=16, multipart_chunksize=8), 'transfers': [dict(t)],
                                  'plan': {'faults': [{'at': site, 'phase': ph, 'kind': kind, 'tag': 'FAULT-nt'}]}})
    # threaded: a part's request thread is hit by a BaseException that is not an Exception (SystemExit from an on_progress subscriber,
    # a framework class) while the parts after it are held in flight: the abort still waits for every one of them
    for src in ('path', 'seekable', 'copy'):
        t = {'kind': 'copy', 'size': 28} if src == 'copy' else {'kind': 'upload', 'src': src, 'size': 28}
        op = 'UploadPartCopy' if src == 'copy' else 'UploadPart'
        for pn in (1, 2, 3):
            for rep in range(1 if quick else 3):
                cases.append({'min_part': 8, 'seed': rng.randrange(1 << 30), 'family': 'base-in-part-others-in-flight',
                              'config': dict(multipart_threshold=16, multipart_chunksize=8, max_request_concurrency=4, max_in_memory_upload_chunks=4), 'transfers': [dict(t)],
                              'plan': {'faults': [{'at': f't0/s3:{op}:{pn}#0', 'phase': 'before', 'kind': rng.choice(['base', 'systemexit']), 'tag': 'FAULT-bp'}],
                                       'gate': {'match': f't0/s3:{op}', 'phase': 'after', 'policy': rng.choice(['seeded', 'reverse'])}}})
    # two steps: the transfer is cancelled (or a part fails) while requests are held in flight, and THEN the submission itself fails
    # (the stream being read on the submission thread raises - e.g. it was closed after the cancel): the abort still has to wait
    # for everything in flight, and an upload whose create request is still out must not be forgotten
    for i in range(80 if quick else 800):
        src = rng.choice(['nonseekable', 'seekable'])
        cfg = dict(multipart_threshold=8, multipart_chunksize=8, max_request_concurrency=rng.choice([1, 2, 3]), max_submission_concurrency=1,
                   max_in_memory_upload_chunks=rng.choice([1, 2, 3]))
        s = {'min_part': 8, 'config': cfg, 'seed': rng.randrange(1 << 30), 'family': 'two-step',
             'transfers': [{'kind': 'upload', 'src': src, 'size': rng.choice([33, 41, 57])}]}
        first = rng.choice(['t0/s3:CreateMultipartUpload#0', 't0/s3:UploadPart:1#0', 't0/s3:UploadPart:2#0'])
        plan = {'gate': {'match': rng.choice(['/s3:', '/s3:UploadPart', '/s3:CreateMultipartUpload']), 'phase': rng.choice(['before', 'after']), 'policy': 'seeded'},
                'faults': [{'at': f't0/src:read#{rng.randrange(1, 7)}', 'phase': rng.choice(['before', 'after']), 'kind': 'exc', 'tag': 'FAULT-src'}]}
        if rng.random() < 0.6:
            plan['cancel'] = {'at': first, 'phase': rng.choice(['before', 'after']), 'how': 'future.cancel', 'from': rng.choice(['event', 'main'])}
        else:
            plan['faults'].append({'at': first, 'phase': rng.choice(['before', 'after']), 'kind': 'exc', 'tag': 'FAULT-req'})
        s['plan'] = plan
        cases.append(s)
    # a thread preempted at each statement of the announce / cleanup / task-completion code (until the others have run as far
    # as they can) while a multipart transfer fails or is cancelled: result() must not be able to return before the abort
    from .. import windows

    lines = [l for l in windows.candidate_lines() if l[2].startswith(('TransferCoordinator.announce_done', 'TransferCoordinator._run_',
                                                                      'TransferCoordinator.cancel', 'TransferCoordinator.set_exception',
                                                                      'Task.__call__', 'SubmissionTask._main', 'SubmissionTask._wait',
                                                                      'CreateMultipartUploadTask._main', 'CompleteMultipartUploadTask._main'))]
    for line in lines:
        for rep in range(3 if quick else 10):
            base = copy.deepcopy(rng.choice(bases()))
            base['seed'] = rng.randrange(1 << 30)
            op = 'UploadPartCopy' if base['transfers'][0]['kind'] == 'copy' else 'UploadPart'
            site = rng.choice([f't0/s3:{op}:1#0', f't0/s3:{op}:2#0', f't0/s3:{op}:3#0', 't0/s3:CompleteMultipartUpload#0'])
            if rng.random() < 0.5:
                base['plan'] = {'faults': [{'at': site, 'phase': rng.choice(['before', 'after']), 'kind': 'exc', 'tag': 'FAULT-w'}]}
            else:
                base['plan'] = {'cancel': {'at': site, 'phase': rng.choice(['before', 'after']), 'how': 'future.cancel', 'from': 'event'}}
            base['yield'] = {'p': 0.0, 'window': {'file': line[0], 'lineno': line[1], 'name': f'{line[0]}:{line[1]}:{line[2]}', 'nth': rng.choice([0, 0, 0, 1, 2, 4]),
                                                 'action': 'pause', 'wait': 0.2}}
            cases.append(base)
    # legacy MultipartUploader (S3Transfer.upload_file above the threshold)
    lbase = {'front_end': 'legacy', 'config': dict(multipart_threshold=16, multipart_chunksize=8, max_concurrency=2),
             'transfers': [{'kind': 'upload', 'size': 20}]}
    lkeys = ['t0/s3:CreateMultipartUpload#0', 't0/s3:UploadPart:1#0', 't0/s3:UploadPart:2#0', 't0/s3:UploadPart:3#0',
             't0/s3:CompleteMultipartUpload#0']
    cases.append(dict(copy.deepcopy(lbase), seed=1))
    for k in lkeys:
        for ph in ('before', 'after'):
            for kind in ('exc', 'client4xx'):
                s = copy.deepcopy(lbase)
                s['seed'] = rng.randrange(1 << 30)
                s['plan'] = {'faults': [{'at': k, 'phase': ph, 'kind': kind, 'tag': 'FAULT-legacy'}]}
                cases.append(s)
    # file-system steps of the legacy uploader failing after the upload id was received (the second size query, opening a part)
    for k in ('t0/fs:size#1', 't0/fs:size#2', 't0/fs:openr#0', 't0/fs:openr#1', 't0/fs:openr#2', 't0/src:read#1'):
        for size in (20, 27):
            for conc in (1, 2):
                s = copy.deepcopy(lbase)
                s['config']['max_concurrency'] = conc
                s['transfers'][0]['size'] = size
                s['seed'] = rng.randrange(1 << 30)
                s['plan'] = {'faults': [{'at': k, 'phase': 'before', 'kind': 'oserror', 'tag': 'FAULT-legacy-fs'}]}
                cases.append(s)
    # ... and the same with the sibling part requests held in flight (their responses parked until the process is at rest) while one
    # part fails: the abort has to wait for them
    for conc in (2, 3, 4):
        for size in (20, 27, 35):
            nparts = (size + 7) // 8
            for part in range(1, nparts + 1):
                for ph, kind in (('before', 'exc'), ('after', 'client4xx')):
                    s = copy.deepcopy(lbase)
                    s['config']['max_concurrency'] = conc
                    s['transfers'][0]['size'] = size
                    s['seed'] = rng.randrange(1 << 30)
                    s['plan'] = {'faults': [{'at': f't0/s3:UploadPart:{part}#0', 'phase': ph, 'kind': kind, 'tag': 'FAULT-legacy'}],
                                 'gate': {'match': [f't0/s3:UploadPart:{q}#0' for q in range(1, nparts + 1) if q != part], 'phase': 'after', 'policy': 'seeded'}}
                    cases.append(s)
    rng.shuffle(cases)
    from ..gen import sprinkle

    sprinkle(cases, seed)
    return cases


def evaluate(obs):
    viol = []
    stats = {'success': 0, 'raised': 0, 'uploads_delivered': 0, 'uploads_undelivered': 0, 'aborts': 0, 'completes': 0,
             'cancel_fired': 1 if obs.world.director.cancel_fired else 0, 'faults_hit': len(obs.world.director.raised)}
    nontrivial = False
    plan = obs.spec.get('plan') or {}
    injected = bool(obs.world.director.raised) or bool(obs.world.director.cancel_fired) or not (plan.get('faults') or plan.get('cancel'))
    for x in obs.xfers:
        stats['success' if x.outcome == 'success' else 'raised'] += 1
        v, st = oracles.mpu_oracle(obs, x)
        if obs.spec.get('front_end') == 'legacy':
            for vv in v:
                fs = [r['key'].split('/s3:')[1].split('#')[0] for r in obs.world.director.raised if '/s3:' in r['key']]
                vv['mech']['fault_op'] = fs[0] if fs else None
        viol += v
        stats['uploads_delivered'] += st['uploads'] - st['undelivered']
        stats['uploads_undelivered'] += st['undelivered']
        if st['uploads'] - st['undelivered'] > 0 and injected:
            nontrivial = True
    for u in obs.world.s3.uploads.values():
        stats['aborts'] += u['aborts']
        stats['completes'] += u['completes']
    status_at_cancel = None
    summary = {'outcomes': e2e.default_outcomes(obs),
               'uploads': {u['id']: (u['state'], u['delivered']) for u in obs.world.s3.uploads.values()},
               'raised': [(r['key'], r['phase'], r['kind']) for r in obs.world.director.raised],
               'cancel': obs.world.director.cancel_fired}
    return viol, stats, nontrivial, summary


def run_case(case):
    return e2e.run_with(case, evaluate)
