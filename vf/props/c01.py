"""C01 — upload and copy produce a byte-exact destination object."""
import itertools
import random

from .. import e2e, oracles

PROPERTY = 'C01'
LEVEL = 'exploration'
RULE = ('scenarios = source kind x boundary sizes x (threshold, chunksize) x small concurrency/in-memory limits x '
        'checksum mode x endpoint scheme x forced client-level retries with partial body consumption x gated part '
        'completion orders, run through the real TransferManager against the wire-level fake S3; scaled family '
        '(minimum part size patched to the chunk size) plus a real-constant family (5 MiB parts); a case is '
        'also: stream flavours (declared / duck-typed seekable; bare / declared / raising-seek non-seekable), short-reading seekable sources below the threshold, NonThreadedExecutor and subscriber flavours, concurrent calls on one legacy S3Transfer, line windows over the legacy uploader, sequential histories on one manager; non-trivial when the future reported success and the content oracle compared object bytes and the '
        'multipart log; distinct = distinct (scenario shape, cross-thread interleaving signature)')
ASSUMPTIONS = [
    'fake S3 mirrors S3 semantics the library depends on (ETag/checksum validation at complete, NoSuchUpload after abort)',
    'schedules are sampled (injected delays, gates at request boundaries), not enumerated at bytecode level',
    'sizes bounded (<= 11 MiB of real data per object)',
]
CASE_TIMEOUT = 180.0


def sizes_for(T, C):
    s = {0, 1, T - 1, T, T + 1}
    for k in (1, 2, 3, 4):
        s |= {k * C - 1, k * C, k * C + 1}
    s |= {9 * C + 3}
    return sorted(x for x in s if x >= 0)


def gen_cases(tier, seed):
    rng = random.Random(seed)
    cases = []
    srcs = [('path', None), ('seekable', 0), ('seekable', 1), ('seekable', 13), ('nonseekable', None), ('nonseekable_sized', None),
            ('seekable_sized', 0), ('seekable_sized', 7), ('path_sized', None)]
    combos = [(8, 8), (20, 8), (5, 9), (16, 4)]
    for (T, C) in combos:
        for size in sizes_for(T, C):
            for (src, start) in srcs:
                for variant in range(2 if tier == 'quick' else 6):
                    cfg = dict(multipart_threshold=T, multipart_chunksize=C,
                               max_request_concurrency=rng.choice([1, 2, 3]),
                               max_submission_concurrency=rng.choice([1, 2]),
                               max_in_memory_upload_chunks=rng.choice([1, 2, 3]),
                               max_request_queue_size=rng.choice([1, 2, 1000]))
                    t = {'kind': 'upload', 'src': src.split('_')[0], 'size': size}
                    if src.startswith('path') and rng.random() < 0.3:
                        t['symlink'] = True
                    if start is not None:
                        t['start'] = start
                    # stream flavour: declares seekable()/readable() like io.IOBase, or only offers the methods (probed)
                    if src.startswith('seekable'):
                        t['flavor'] = rng.choice(['declared', 'duck', 'fileno', 'seek_none', 'seek_arg'])
                    elif src.startswith('nonseekable'):
                        t['flavor'] = rng.choice(['bare', 'declared', 'raising'])
                    if src.endswith('_sized'):
                        # the size is supplied by a subscriber in on_queued (as the AWS CLI does), not discovered by the library
                        t['subs'] = [{'provide_size': size}]
                    spec = {
                        'seed': rng.randrange(1 << 30), 'min_part': C, 'config': cfg, 'transfers': [t],
                        'client': {'checksum': rng.choice(['when_supported', 'when_required']),
                                   'scheme': rng.choice(['https', 'http'])},
                        'body_read_sizes': rng.choice([[8192], [3], [1, 5, 2], [7]]),
                        'plan': {'delay_p': rng.choice([0.0, 0.2, 0.5])},
                    }
                    nparts = (size + C - 1) // C if size >= T else 0
                    r = rng.random()
                    if variant >= 1:
                        # forced client-level retries with partial body consumption
                        faults = []
                        for j in range(rng.choice([1, 2, 3])):
                            if nparts:
                                pn = rng.randrange(1, nparts + 1)
                                at = f't0/s3:UploadPart:{pn}#0' + (f'.retry{j}' if j else '')
                                plen = min(C, size - (pn - 1) * C)
                            else:
                                at = 't0/s3:PutObject#0' + (f'.retry{j}' if j else '')
                                plen = size
                            if rng.random() < 0.3:
                                # the attempt fails before a single byte of the body was read (connect error, refused
                                # Expect: 100-continue): the client still rewinds the body before it tries again
                                faults.append({'at': at, 'phase': 'before', 'kind': rng.choice(['retry500', 'retryconn']), 'tag': f'FAULT-r{j}'})
                            else:
                                faults.append({'at': at, 'phase': 'mid', 'bytes': rng.randrange(0, plen + 1),
                                               'kind': rng.choice(['retry500', 'retryconn']), 'tag': f'FAULT-r{j}'})
                        spec['plan']['faults'] = faults
                    if nparts >= 2 and r < 0.5:
                        spec['plan']['gate'] = {'match': 's3:UploadPart', 'phase': rng.choice(['before', 'after']),
                                                'policy': rng.choice(['reverse', 'lowest_last', 'seeded'])}
                    cases.append(spec)
    # the SOURCE STREAM's own seek() fails at some point - in particular at the rewind the client does before it retries a request: the
    # upload fails then; it never succeeds with other bytes
    for k in range(0, 7):
        for rep in range(1 if tier == 'quick' else 4):
            T, C = 16, 8
            size = rng.choice([5, 9, 15])
            t = {'kind': 'upload', 'src': 'seekable', 'size': size, 'start': rng.choice([0, 3]), 'flavor': rng.choice(['declared', 'duck'])}
            cases.append({'seed': rng.randrange(1 << 30), 'min_part': C, 'family': 'source-seek-fails',
                          'config': dict(multipart_threshold=T, multipart_chunksize=C, max_request_concurrency=2), 'transfers': [t],
                          'client': {'checksum': rng.choice(['when_supported', 'when_required']), 'scheme': rng.choice(['https', 'http'])},
                          'body_read_sizes': rng.choice([[8192], [3]]),
                          'plan': {'faults': [{'at': 't0/s3:PutObject#0', 'phase': 'mid', 'bytes': rng.randrange(1, size + 1), 'kind': 'retry500', 'tag': 'FAULT-r0'},
                                              {'at': f't0/src:seek#{k}', 'phase': 'before', 'kind': 'oserror', 'tag': 'FAULT-seek'}]}})
    # ... the same for a source FILE (multipart: a part's rewind that silently does nothing leaves the file at the NEXT part's bytes)
    for k in range(0, 10):
        for rep in range(1 if tier == 'quick' else 3):
            C = 8
            size = 3 * C + rng.choice([0, 3])
            pn = rng.choice([1, 2])
            cases.append({'seed': rng.randrange(1 << 30), 'min_part': C, 'family': 'source-seek-fails',
                          'config': dict(multipart_threshold=C, multipart_chunksize=C, max_request_concurrency=rng.choice([1, 2])),
                          'transfers': [{'kind': 'upload', 'src': 'path', 'size': size}],
                          'client': {'checksum': rng.choice(['when_supported', 'when_required']), 'scheme': rng.choice(['https', 'http'])},
                          'body_read_sizes': rng.choice([[8192], [3]]),
                          'plan': {'faults': [{'at': f't0/s3:UploadPart:{pn}#0', 'phase': 'mid', 'bytes': rng.randrange(1, C + 1), 'kind': 'retry500', 'tag': 'FAULT-r0'},
                                              {'at': f't0/fs:seek#{k}', 'phase': 'before', 'kind': 'oserror', 'tag': 'FAULT-seek'}]}})
    # all completion orders of <= 4 parts (thorough) / 3 parts (quick)
    n = 3 if tier == 'quick' else 4
    for perm in itertools.permutations(range(1, n + 1)):
        for src in ('path', 'seekable', 'nonseekable'):
            cases.append({
                'seed': rng.randrange(1 << 30), 'min_part': 4,
                'config': dict(multipart_threshold=4, multipart_chunksize=4, max_request_concurrency=n + 1,
                               max_in_memory_upload_chunks=n + 1),
                'transfers': [{'kind': 'upload', 'src': src, 'size': 4 * n - 1}],
                'plan': {'gate': {'match': 's3:UploadPart', 'phase': 'after', 'policy': list(perm)}},
            })
    # copies
    for (T, C) in combos:
        for size in sizes_for(T, C):
            for provide in (False, True):
                cfg = dict(multipart_threshold=T, multipart_chunksize=C, max_request_concurrency=rng.choice([1, 2, 3]))
                t = {'kind': 'copy', 'size': size}
                if provide:
                    t['subs'] = [{'provide_size': size}]
                spec = {'seed': rng.randrange(1 << 30), 'min_part': C, 'config': cfg, 'transfers': [t],
                        'client': {'checksum': rng.choice(['when_supported', 'when_required'])},
                        'plan': {'delay_p': rng.choice([0.0, 0.3])}}
                if size >= T and size > C and rng.random() < 0.5:
                    spec['plan']['gate'] = {'match': 's3:UploadPartCopy', 'phase': 'after',
                                            'policy': rng.choice(['reverse', 'lowest_last', 'seeded'])}
                cases.append(spec)
    # non-seekable sources whose read(n) returns fewer bytes than asked for before EOF (raw pipes, sockets)
    for (T, C) in combos:
        for size in sizes_for(T, C):
            for caps in ([3], [1, 7, 2], [C - 1], [C, 1]):
                if caps[0] <= 0:
                    continue
                for sized in (False, True):
                    t = {'kind': 'upload', 'src': 'nonseekable', 'size': size, 'src_caps': caps}
                    if sized:
                        t['subs'] = [{'provide_size': size}]
                    cases.append({'seed': rng.randrange(1 << 30), 'min_part': 1, 'transfers': [t],
                                  'config': dict(multipart_threshold=T, multipart_chunksize=C, max_request_concurrency=rng.choice([1, 2, 3]),
                                                 max_in_memory_upload_chunks=rng.choice([1, 2, 3])),
                                  'client': {'checksum': rng.choice(['when_supported', 'when_required'])}})
    # seekable streams below the threshold (single PutObject, read directly while the request is sent) with short reads
    for (T, C) in combos:
        for size in [s for s in sizes_for(T, C) if 0 < s < T]:
            for caps in ([3], [1, 7, 2], [C, 1]):
                t = {'kind': 'upload', 'src': 'seekable', 'size': size, 'start': rng.choice([0, 5]), 'src_caps': caps, 'flavor': rng.choice(['declared', 'duck'])}
                cases.append({'seed': rng.randrange(1 << 30), 'min_part': 1, 'transfers': [t], 'config': dict(multipart_threshold=T, multipart_chunksize=C),
                              'client': {'checksum': rng.choice(['when_supported', 'when_required']), 'scheme': rng.choice(['https', 'http'])},
                              'body_read_sizes': rng.choice([[8192], [3], [1, 5, 2]])})
    # legacy S3Transfer.upload_file (path sources), parts finishing in steered orders
    for (T, C) in combos:
        for size in sizes_for(T, C):
            for variant in range(2 if tier == 'quick' else 5):
                spec = {'front_end': 'legacy', 'seed': rng.randrange(1 << 30),
                        'config': dict(multipart_threshold=T, multipart_chunksize=C, max_concurrency=rng.choice([1, 2, 3, 4])),
                        'transfers': [{'kind': 'upload', 'size': size}], 'client': {'checksum': rng.choice(['when_supported', 'when_required'])},
                        'plan': {}}
                if size >= T and size > C and variant:
                    spec['plan']['gate'] = {'match': 's3:UploadPart', 'phase': rng.choice(['before', 'after']),
                                            'policy': rng.choice(['reverse', 'lowest_last', 'seeded'])}
                cases.append(spec)
    # one legacy S3Transfer object used from several threads: 2-3 upload_file calls overlapping in time
    for i in range(20 if tier == 'quick' else 200):
        T, C = rng.choice([(8, 8), (16, 8), (8, 4)])
        cases.append({'front_end': 'legacy', 'concurrent': True, 'seed': rng.randrange(1 << 30),
                      'config': dict(multipart_threshold=T, multipart_chunksize=C, max_concurrency=rng.choice([1, 2, 3])),
                      'transfers': [{'kind': 'upload', 'size': rng.choice([T - 1, T, 2 * C + 1, 4 * C, 5 * C + 3])} for _ in range(rng.choice([2, 3]))],
                      'plan': {'gate': {'match': rng.choice(['s3:UploadPart', 's3:']), 'phase': rng.choice(['before', 'after']),
                                        'policy': rng.choice(['seeded', 'reverse'])}}})
    # legacy front-end: one preemption at every statement of the multipart uploader and the chunk reader
    from .. import yieldinj

    llines = [l for l in yieldinj.all_lines(['__init__.py'])
              if l[2].startswith(('MultipartUploader.', 'S3Transfer._multipart_upload', 'S3Transfer.upload_file', 'S3Transfer._put_object', 'ReadFileChunk.read',
                                  'ReadFileChunk.seek', 'ReadFileChunk.from_filename')) and not l[2].endswith('__init__')]
    for line in llines:
        for nth in ((0, 1) if tier == 'quick' else (0, 1, 2, 3)):
            T, C = rng.choice([(8, 8), (8, 4)])
            cases.append({'front_end': 'legacy', 'seed': rng.randrange(1 << 30),
                          'config': dict(multipart_threshold=T, multipart_chunksize=C, max_concurrency=rng.choice([2, 3])),
                          'transfers': [{'kind': 'upload', 'size': rng.choice([2 * C + 1, 4 * C, 5 * C + 3])}], 'plan': {},
                          'yield': {'p': 0.0, 'window': {'file': '__init__.py', 'lineno': line[1], 'nth': nth, 'name': f'__init__.py:{line[1]}:{line[2]}', 'wait': 0.2}}})
    # several transfers one after the other on ONE manager (each finished before the next is submitted): nothing may carry over
    for i in range(30 if tier == 'quick' else 300):
        T, C = rng.choice([(8, 8), (16, 8), (20, 8)])
        ts = []
        for j in range(rng.choice([3, 4])):
            k = rng.choice(['upload', 'upload', 'copy'])
            t = {'kind': k, 'size': rng.choice([0, 1, T - 1, T, 2 * C + 1, 4 * C, 5 * C + 3])}
            if k == 'upload':
                t['src'] = rng.choice(['path', 'seekable', 'nonseekable'])
                if t['src'] == 'seekable':
                    t['start'] = rng.choice([0, 5])
            ts.append(t)
        cases.append({'seed': rng.randrange(1 << 30), 'min_part': C, 'sequential': True, 'transfers': ts,
                      'config': dict(multipart_threshold=T, multipart_chunksize=C, max_request_concurrency=rng.choice([1, 2, 3])),
                      'body_read_sizes': rng.choice([[8192], [3]])})
    # the same path uploaded again through the same manager after the file was rewritten with another length (shorter, longer,
    # across the threshold, another number of parts): nothing about the first upload may be remembered
    for i in range(30 if tier == 'quick' else 300):
        T, C = rng.choice([(8, 8), (16, 8), (20, 8)])
        sizes = [1, T - 1, T, 2 * C + 1, 4 * C, 5 * C + 3]
        n = rng.choice([2, 3])
        ts = [{'kind': 'upload', 'src': 'path', 'size': rng.choice(sizes)}]
        for j in range(1, n):
            ts.append({'kind': 'upload', 'src': 'path', 'size': rng.choice([z for z in sizes if z != ts[-1]['size']]), 'same_source_as': 0})
        cases.append({'seed': rng.randrange(1 << 30), 'min_part': C, 'sequential': True, 'transfers': ts, 'family': 'same-path-again',
                      'config': dict(multipart_threshold=T, multipart_chunksize=C, max_request_concurrency=rng.choice([1, 2, 3]))})
    # copies of an OLDER version of the source (VersionId in the copy source) while the key's current version is other data
    for i in range(24 if tier == 'quick' else 240):
        T, C = rng.choice([(8, 8), (16, 8), (20, 8)])
        cases.append({'seed': rng.randrange(1 << 30), 'min_part': C, 'family': 'versioned-source',
                      'transfers': [{'kind': 'copy', 'size': rng.choice([1, T - 1, T, 2 * C + 1, 4 * C, 5 * C + 3]), 'versioned': True}],
                      'config': dict(multipart_threshold=T, multipart_chunksize=C, max_request_concurrency=rng.choice([1, 2, 3]))})
    # explicit checksum algorithms (part checksums must be listed at complete)
    for algo in ('CRC32', 'SHA256', 'SHA1'):
        for src in ('path', 'seekable', 'nonseekable'):
            for size in (7, 24, 25):
                cases.append({'seed': rng.randrange(1 << 30), 'min_part': 8,
                              'config': dict(multipart_threshold=16, multipart_chunksize=8),
                              'transfers': [{'kind': 'upload', 'src': src, 'size': size, 'extra_args': {'ChecksumAlgorithm': algo}}],
                              'client': {'checksum': rng.choice(['when_supported', 'when_required'])}})
    # real-constant family: true 5 MiB minimum part size
    MB = 1024 * 1024
    real = [(5 * MB, 8 * MB, 8 * MB + 1), (5 * MB, 5 * MB, 10 * MB + 1), (5 * MB, 5 * MB, 5 * MB), (1 * MB, 5 * MB, 11 * MB - 1)]
    if tier == 'quick':
        real = real[:2]
    for (C, T, size) in real:
        for src in ('path', 'seekable', 'nonseekable'):
            spec = {'seed': rng.randrange(1 << 30), 'config': dict(multipart_threshold=T, multipart_chunksize=C,
                                                                   max_request_concurrency=3),
                    'transfers': [{'kind': 'upload', 'src': src, 'size': size}],
                    'client': {'checksum': rng.choice(['when_supported', 'when_required'])},
                    'body_read_sizes': [65536], 'wall_timeout': 120.0}
            if src != 'nonseekable':
                spec['plan'] = {'faults': [{'at': 't0/s3:UploadPart:2#0', 'phase': 'mid', 'bytes': 3 * MB + 17,
                                            'kind': 'retry500', 'tag': 'FAULT-real'}]}
            cases.append(spec)
    # one preemption at every statement of the upload / copy code paths: the nth thread to reach the line is held there until every
    # other thread (the other parts' request threads, the submission thread) has run as far as it can; the object is compared as ever
    from .. import windows

    quick = tier == 'quick'
    lines = [l for l in windows.candidate_lines() if l[2].startswith(('UploadSubmissionTask', 'Upload', 'PutObjectTask', 'UploadPartTask', 'CopySubmissionTask',
                                                                      'CopyObjectTask', 'CopyPartTask', 'CreateMultipartUploadTask', 'CompleteMultipartUploadTask',
                                                                      'ReadFileChunk', 'DeferredOpenFile', 'Task._get_all_main_kwargs', 'Task._execute_main'))]
    for line in lines:
        for rep in range(1 if quick else 5):
            up = line[0] == 'upload.py' or line[2].startswith(('ReadFileChunk', 'DeferredOpenFile', 'PutObjectTask', 'UploadPartTask'))
            cp = line[0] == 'copies.py'
            kind = 'upload' if up else ('copy' if cp else rng.choice(['upload', 'copy']))
            C = 8
            t = {'kind': kind, 'size': rng.choice([3 * C, 3 * C + 5, 4 * C + 1, 5])}
            if kind == 'upload':
                t['src'] = rng.choice(['path', 'seekable', 'nonseekable'])
            cfg = dict(multipart_threshold=C, multipart_chunksize=C, max_request_concurrency=rng.choice([2, 3, 4]), max_in_memory_upload_chunks=rng.choice([1, 2, 4]))
            w = {'file': line[0], 'lineno': line[1], 'name': f'{line[0]}:{line[1]}:{line[2]}', 'nth': rng.randrange(0, 4), 'action': 'pause', 'wait': 0.2}
            cases.append({'seed': rng.randrange(1 << 30), 'min_part': C, 'config': cfg, 'transfers': [t], 'family': 'window',
                          'yield': {'p': rng.choice([0.0, 0.1]), 'window': w}, 'plan': {'delay_p': rng.choice([0.0, 0.3])}})
    # executor / subscriber flavours: everything inline in the submitting thread (NonThreadedExecutor, what use_threads=False
    # selects), no subscribers at all, and duck-typed subscribers offering only some callbacks
    for s in cases:
        if s.get('front_end') or s.get('mode') or s.get('yield'):
            continue
        r = rng.random()
        if r < 0.12:
            s['executor'] = 'nonthreaded'
        for t in s['transfers']:
            if 'subs' not in t and rng.random() < 0.12:
                t['subs'] = rng.choice([None, [{'only': ['on_done']}], [{'only': ['on_progress']}]])
    rng.shuffle(cases)
    from ..gen import sprinkle

    sprinkle(cases, seed)
    return cases


def scenario_describe(x):
    from ..scenario import describe_outcome

    return describe_outcome(x)


def evaluate(obs):
    viol = []
    stats = {'success': 0, 'failed': 0, 'multipart': 0, 'retries_forced': len(obs.world.director.retries_forced),
             'gated_releases': len(obs.gate.released) if obs.gate else 0, 'src_reads': 0, 'wire_errors': len(obs.world.s3.wire_errors),
             'fe_' + obs.spec.get('front_end', 'manager'): 1}
    nontrivial = False
    for x in obs.xfers:
        if x.outcome == 'success':
            stats['success'] += 1
            nontrivial = True
        else:
            stats['failed'] += 1
        if any(u['label'] == x.label for u in obs.world.s3.uploads.values()):
            stats['multipart'] += 1
        viol += oracles.content_oracle(obs, x)
        viol += oracles.complete_args_oracle(obs, x)
        if x.outcome != 'success' and not [r for r in obs.world.director.raised if r['kind'] not in ('retry500', 'retryconn')]:
            # nothing was injected that could make the transfer fail: the failure itself is reported (the fake rejects what S3 rejects)
            viol.append(oracles.V(f'{x.label}: {x.kind} failed although no fault was injected: {scenario_describe(x)}',
                                  **oracles.base_mech(obs, x), sym='spurious-failure'))
        stats['src_reads'] += len([e for e in obs.events if e['kind'] == 'src.read' and e.get('label') == x.label])
        # with only absorbed (forced-retry) faults the transfer must not fail either: a failure here is C03's
        # business, but an unexpected failure makes the case trivial for C01 and is reported in the stats
    summary = {'outcomes': e2e.default_outcomes(obs),
               'parts': {u['id']: u.get('completed_parts') for u in obs.world.s3.uploads.values()},
               'gate_order': obs.gate.released if obs.gate else None}
    return viol, stats, nontrivial, summary


def run_case(case):
    return e2e.run_with(case, evaluate)
