"""C02 — downloads deliver exactly the object bytes, also across stream retries."""
import itertools
import random

from .. import e2e, oracles
from ..director import STREAM_KINDS

PROPERTY = 'C02'
LEVEL = 'fault_enumeration'
RULE = ('per front-end (transfer manager x 4 destination kinds, legacy S3Transfer.download_file, process-pool worker '
        'loop in-process): boundary object sizes x small chunk/io-chunk/concurrency/window settings; per range every '
        'sequence of fewer than num_download_attempts retryable stream faults (5 kinds) placed after b bytes for b in '
        'a boundary set, combined with scripted short reads whose chunk boundaries differ between attempts; part '
        'start/finish order steered by gates; also: concurrent download_file calls on one legacy S3Transfer, line windows over the legacy ranged downloader, sequential histories on one manager, NonThreadedExecutor and subscriber flavours; non-trivial = the future reported success and the content oracle compared '
        'destination bytes with the object; distinct = (scenario shape incl. fault plan, interleaving signature)')
ASSUMPTIONS = [
    'stream faults are raised by the fake response body as the urllib3/socket exceptions botocore translates',
    'schedules sampled by gates/delays at request and body-read boundaries',
]
CASE_TIMEOUT = 180.0


def sizes_for(T, C):
    s = {0, 1, T - 1, T, T + 1, C - 1, C, C + 1, 2 * C - 1, 2 * C, 2 * C + 1, 3 * C + 1, 5 * C + 2}
    return sorted(x for x in s if x >= 0)


def fault_positions(length, io):
    s = {0, 1, io - 1, io, io + 1, length - 1, length}
    return sorted(x for x in s if 0 <= x <= length)


def ranges_of(size, T, C):
    if size < T:
        return [('all', size)]
    n = (size + C - 1) // C
    return [(str(i * C), min(C, size - i * C)) for i in range(n)]


def gen_cases(tier, seed):
    rng = random.Random(seed)
    cases = []
    quick = tier == 'quick'
    combos = [(8, 8, 4), (12, 5, 3), (6, 10, 4)]
    dsts = ['path', 'seekable', 'nonseekable', 'fifo']
    caps_menu = [None, [[2], [3]], [[1, 4], [3, 2], [5]], [[100]]]
    for (T, C, io) in combos:
        for size in sizes_for(T, C):
            for dst in dsts:
                nvar = 3 if quick else 10
                for variant in range(nvar):
                    attempts = rng.choice([1, 2, 3, 4])
                    cfg = dict(multipart_threshold=T, multipart_chunksize=C, io_chunksize=rng.choice([io, 1, 256 * 1024]),
                               max_request_concurrency=rng.choice([1, 2, 3]),
                               max_in_memory_download_chunks=rng.choice([1, 2, 3]),
                               max_io_queue_size=rng.choice([1, 2, 1000]),
                               num_download_attempts=attempts)
                    spec = {'seed': rng.randrange(1 << 30), 'config': cfg,
                            'transfers': [{'kind': 'download', 'dst': dst, 'size': size,
                                           'preexisting': rng.random() < 0.3}],
                            'get_read_caps': rng.choice(caps_menu),
                            'plan': {'delay_p': rng.choice([0.0, 0.2])}}
                    if dst == 'fifo' and rng.random() < 0.3:
                        spec['transfers'][0]['symlink'] = True  # the FIFO is named through a symbolic link (like /dev/stdout)
                    rs = ranges_of(size, T, C)
                    faults = []
                    if variant >= 1 and attempts > 1:
                        for (start, ln) in rs:
                            if rng.random() < 0.6:
                                nf = rng.randrange(1, attempts)
                                for j in range(nf):
                                    faults.append({'at': f't0/s3:GetObject:{start}#{j}', 'phase': 'body',
                                                   'bytes': rng.choice(fault_positions(ln, cfg['io_chunksize'] if cfg['io_chunksize'] < 100 else 4)),
                                                   'kind': rng.choice(STREAM_KINDS), 'tag': f'FAULT-s{start}-{j}'})
                    if variant >= 2 and attempts >= 3 and rng.random() < 0.5:
                        # mix in a connection error raised by the request itself (also budgeted by num_download_attempts)
                        (start, ln) = rng.choice(rs)
                        faults = [f for f in faults if not f['at'].startswith(f't0/s3:GetObject:{start}#')]
                        faults.append({'at': f't0/s3:GetObject:{start}#0', 'phase': 'body', 'bytes': rng.randrange(0, ln + 1),
                                       'kind': rng.choice(STREAM_KINDS), 'tag': f'FAULT-m{start}-0'})
                        faults.append({'at': f't0/s3:GetObject:{start}#1', 'phase': rng.choice(['before', 'after']), 'kind': 'connreset',
                                       'tag': f'FAULT-m{start}-1'})
                    if faults:
                        spec['plan']['faults'] = faults
                    if len(rs) > 1 and rng.random() < 0.5:
                        spec['plan']['gate'] = {'match': 's3:GetObject', 'phase': rng.choice(['before', 'after']),
                                                'policy': rng.choice(['reverse', 'lowest_last', 'seeded'])}
                    cases.append(spec)
    # all completion orders of 3 (quick) / 4 (thorough) ranged parts, each destination kind
    n = 3 if quick else 4
    for perm in itertools.permutations(range(n)):
        for dst in dsts:
            cases.append({'seed': rng.randrange(1 << 30),
                          'config': dict(multipart_threshold=4, multipart_chunksize=4, io_chunksize=2,
                                         max_request_concurrency=n + 1, max_in_memory_download_chunks=n + 1),
                          'transfers': [{'kind': 'download', 'dst': dst, 'size': 4 * n - 1}],
                          'plan': {'gate': {'match': 's3:GetObject', 'phase': 'after', 'policy': [4 * p for p in perm]}}})
    # legacy S3Transfer.download_file
    for (T, C, io) in combos:
        for size in sizes_for(T, C):
            for variant in range(2 if quick else 6):
                attempts = rng.choice([1, 2, 3])
                spec = {'front_end': 'legacy', 'seed': rng.randrange(1 << 30),
                        'config': dict(multipart_threshold=T, multipart_chunksize=C, max_concurrency=rng.choice([1, 2, 3]),
                                       num_download_attempts=attempts, max_io_queue=rng.choice([1, 2, 100])),
                        'transfers': [{'kind': 'download', 'dst': 'path', 'size': size, 'preexisting': rng.random() < 0.3}],
                        'get_read_caps': rng.choice(caps_menu), 'plan': {}}
                faults = []
                if variant >= 1 and attempts > 1:
                    for (start, ln) in ranges_of(size, T, C):
                        if size < T:
                            start = 'all'
                        if rng.random() < 0.6:
                            for j in range(rng.randrange(1, attempts)):
                                faults.append({'at': f't0/s3:GetObject:{start}#{j}', 'phase': 'body',
                                               'bytes': rng.choice(fault_positions(ln, 4)),
                                               'kind': rng.choice(STREAM_KINDS), 'tag': f'FAULT-s{start}-{j}'})
                if faults:
                    spec['plan']['faults'] = faults
                cases.append(spec)
    # a destination whose write() STALLS for a few seconds of real time (busy disk, NFS hiccup) while the other ranges keep arriving and
    # every queue in front of it fills up: slow is not wrong - every byte still has to end up in the file.  (The one place in this check
    # where real time matters: a give-up time beyond the stall is out of reach.)
    for i in range(3 if quick else 12):
        fe = rng.choice(['legacy', 'legacy', 'manager'])
        T = C = 8
        size = rng.choice([4 * C, 6 * C + 3])
        stall = {'at': f't0/fs:write#{rng.choice([0, 1])}', 'phase': 'before', 'kind': 'stall', 'secs': 2.5 if quick else rng.choice([2.5, 6.0]), 'tag': 'STALL'}
        if fe == 'legacy':
            spec = {'front_end': 'legacy', 'seed': rng.randrange(1 << 30), 'family': 'stalling-destination',
                    'config': dict(multipart_threshold=T, multipart_chunksize=C, max_concurrency=rng.choice([2, 3]), num_download_attempts=2, max_io_queue=rng.choice([1, 2])),
                    'transfers': [{'kind': 'download', 'dst': 'path', 'size': size}], 'get_read_caps': [[2], [3]], 'plan': {'faults': [stall]}}
        else:
            spec = {'seed': rng.randrange(1 << 30), 'family': 'stalling-destination',
                    'config': dict(multipart_threshold=T, multipart_chunksize=C, io_chunksize=2, max_request_concurrency=rng.choice([2, 3]), max_io_queue_size=rng.choice([1, 2])),
                    'transfers': [{'kind': 'download', 'dst': 'path', 'size': size}], 'plan': {'faults': [stall]}}
        cases.append(spec)
    # one legacy S3Transfer object used from several threads: 2-3 download_file calls overlapping in time (requests held at a gate
    # until every call is in flight)
    for i in range(30 if quick else 300):
        T, C = rng.choice([(8, 8), (16, 8), (8, 4)])
        n = rng.choice([2, 2, 3])
        spec = {'front_end': 'legacy', 'concurrent': True, 'seed': rng.randrange(1 << 30),
                'config': dict(multipart_threshold=T, multipart_chunksize=C, max_concurrency=rng.choice([1, 2, 3]), num_download_attempts=2,
                               max_io_queue=rng.choice([1, 2, 100])),
                'transfers': [{'kind': 'download', 'dst': 'path', 'size': rng.choice([T - 1, T, 2 * C + 1, 4 * C, 5 * C + 3])} for _ in range(n)],
                'get_read_caps': rng.choice(caps_menu),
                'plan': {'gate': {'match': 's3:GetObject', 'phase': rng.choice(['before', 'after']), 'policy': rng.choice(['seeded', 'reverse'])}}}
        cases.append(spec)
    # legacy front-end: one preemption at every statement of the ranged downloader (range threads, IO thread, shutdown queue)
    from .. import yieldinj

    llines = [l for l in yieldinj.all_lines(['__init__.py'])
              if l[2].startswith(('MultipartDownloader.', 'ShutdownQueue.', 'S3Transfer._ranged_download', 'S3Transfer._download_file', 'S3Transfer._get_object',
                                  'S3Transfer.download_file', 'StreamReaderProgress.read')) and not l[2].endswith('__init__')]
    for line in llines:
        for nth in ((0, 1) if quick else (0, 1, 2, 3)):
            T, C = rng.choice([(8, 8), (8, 4)])
            cases.append({'front_end': 'legacy', 'seed': rng.randrange(1 << 30),
                          'config': dict(multipart_threshold=T, multipart_chunksize=C, max_concurrency=rng.choice([2, 3]), num_download_attempts=2,
                                         max_io_queue=rng.choice([1, 2, 100])),
                          'transfers': [{'kind': 'download', 'dst': 'path', 'size': rng.choice([2 * C + 1, 4 * C, 5 * C + 3])}],
                          'get_read_caps': rng.choice(caps_menu), 'plan': {},
                          'yield': {'p': 0.0, 'window': {'file': '__init__.py', 'lineno': line[1], 'nth': nth, 'name': f'__init__.py:{line[1]}:{line[2]}', 'wait': 0.2}}})
    # one ProcessPoolDownloader used from several threads: 2-3 download_file calls at once, one of the callers held at each
    # statement of the start-up / registration code until the others have run as far as they can
    import s3transfer.processpool  # noqa: F401  (all_lines lists the code of loaded modules)

    plines = [l for l in yieldinj.all_lines(['processpool.py'])
              if l[2].startswith(('TransferMonitor.notify_new_transfer', 'ProcessPoolDownloader.download_file', 'ProcessPoolDownloader._start',
                                  'ProcessPoolDownloader._get_transfer_future', 'BaseManager')) ]
    for line in plines:
        for rep in range((6 if 'TransferMonitor' in line[2] else 2) if quick else 12):
            n = rng.choice([2, 3])
            cases.append({'front_end': 'procpool_full', 'concurrent_submit': True, 'exit': rng.choice(['shutdown', 'with']), 'seed': rng.randrange(1 << 30),
                          'config': dict(multipart_threshold=16, multipart_chunksize=8, workers=rng.choice([1, 2, 3]), io_chunksize=4),
                          'transfers': [{'kind': 'download', 'dst': 'path', 'size': rng.choice([5, 20, 30])} for _ in range(n)],
                          'yield': {'p': 0.0, 'window': {'file': 'processpool.py', 'lineno': line[1], 'nth': rng.choice([0, 0, 1]),
                                                         'name': f'processpool.py:{line[1]}:{line[2]}', 'wait': 0.2}}})
    # several downloads one after the other on ONE manager (each finished before the next is submitted), some with stream retries
    for i in range(30 if quick else 300):
        T, C = rng.choice([(8, 8), (16, 8), (8, 4)])
        ts = [{'kind': 'download', 'dst': rng.choice(['path', 'seekable', 'nonseekable', 'fifo']), 'size': rng.choice([0, 1, T - 1, T, 2 * C + 1, 4 * C, 5 * C + 3])}
              for _ in range(rng.choice([3, 4]))]
        spec = {'seed': rng.randrange(1 << 30), 'sequential': True, 'transfers': ts, 'get_read_caps': rng.choice(caps_menu),
                'config': dict(multipart_threshold=T, multipart_chunksize=C, io_chunksize=rng.choice([2, 4, 8]), max_request_concurrency=rng.choice([1, 2, 3]),
                               max_in_memory_download_chunks=rng.choice([1, 2, 3]), num_download_attempts=3), 'plan': {}}
        k = rng.randrange(len(ts))
        if ts[k]['size'] > 0 and rng.random() < 0.6:
            st = 'all' if ts[k]['size'] < T else str(C * rng.randrange(0, (ts[k]['size'] + C - 1) // C))
            spec['plan']['faults'] = [{'at': f't{k}/s3:GetObject:{st}#0', 'phase': 'body', 'bytes': rng.randrange(0, 4), 'kind': rng.choice(STREAM_KINDS),
                                       'tag': f'FAULT-seq{k}'}]
        cases.append(spec)
    # process-pool worker loop replayed in-process (5 attempts fixed)
    for (T, C, io) in combos:
        for size in sizes_for(T, C):
            if size == 0:
                continue  # posix_fallocate(fd, 0, 0) fails: a failure, not a false success (design note N3)
            for variant in range(2 if quick else 6):
                spec = {'front_end': 'procpool', 'seed': rng.randrange(1 << 30),
                        'config': dict(multipart_threshold=T, multipart_chunksize=C, workers=rng.choice([1, 2, 3]),
                                       io_chunksize=rng.choice([io, 1, 2 * 1024 * 1024])),
                        'transfers': [{'kind': 'download', 'dst': 'path', 'size': size,
                                       'expected_size': rng.choice([None, size])}],
                        'get_read_caps': rng.choice(caps_menu), 'plan': {}}
                faults = []
                if variant >= 1:
                    for (start, ln) in ranges_of(size, T, C):
                        if rng.random() < 0.6:
                            for j in range(rng.randrange(1, 5)):
                                faults.append({'at': f't0/s3:GetObject:{start}#{j}', 'phase': 'body',
                                               'bytes': rng.choice(fault_positions(ln, 4)),
                                               'kind': rng.choice(STREAM_KINDS), 'tag': f'FAULT-s{start}-{j}'})
                if faults:
                    spec['plan']['faults'] = faults
                cases.append(spec)
    # a request/IO thread preempted at each statement of the write-ordering code until the others have run as far as they can
    from .. import windows

    lines = [l for l in windows.candidate_lines() if l[2].startswith(('DownloadNonSeekableOutputManager', 'DownloadOutputManager', 'DeferQueue',
                                                                      'GetObjectTask', 'ImmediatelyWriteIOGetObjectTask', 'IO', 'CountCallbackInvoker',
                                                                      'DownloadChunkIterator', 'BoundedExecutor.submit'))]
    for line in lines:
        for rep in range(2 if quick else 8):
            dst = rng.choice(['nonseekable', 'fifo', 'nonseekable', 'seekable', 'path'])
            cfg = dict(multipart_threshold=8, multipart_chunksize=8, io_chunksize=rng.choice([2, 4]), max_request_concurrency=rng.choice([2, 3, 4]),
                       max_in_memory_download_chunks=rng.choice([2, 3, 4]), max_io_queue_size=rng.choice([1, 2, 1000]), num_download_attempts=2)
            w = {'file': line[0], 'lineno': line[1], 'name': f'{line[0]}:{line[1]}:{line[2]}', 'nth': rng.randrange(0, 8), 'action': 'pause', 'wait': 0.2}
            spec = {'seed': rng.randrange(1 << 30), 'config': cfg, 'transfers': [{'kind': 'download', 'dst': dst, 'size': rng.choice([24, 33, 41])}],
                    'yield': {'p': rng.choice([0.0, 0.1]), 'window': w}, 'plan': {'delay_p': rng.choice([0.0, 0.3])}}
            if rng.random() < 0.3:
                spec['plan']['faults'] = [{'at': f't0/s3:GetObject:{8 * rng.randrange(0, 3)}#0', 'phase': 'body', 'bytes': rng.randrange(0, 8),
                                           'kind': 'connreset', 'tag': 'FAULT-w'}]
            cases.append(spec)
    # ... and one preemption INSIDE each read-modify-write statement of that code (the defer queue's frontier, the count of
    # outstanding parts that triggers the final task): a lost update there loses or duplicates data
    from .. import yieldinj

    for site in yieldinj.rmw_sites(['download.py', 'utils.py']):
        if not site[2].startswith(('DeferQueue.', 'CountCallbackInvoker.', 'SlidingWindowSemaphore.')):
            continue
        for nth in ((0, 1, 2) if quick else (0, 1, 2, 3, 4, 5)):
            for rep in range(2 if quick else 4):
                dst = rng.choice(['nonseekable', 'fifo', 'seekable', 'path']) if not site[2].startswith(('DeferQueue', 'Sliding')) else rng.choice(['nonseekable', 'fifo'])
                cfg = dict(multipart_threshold=8, multipart_chunksize=8, io_chunksize=rng.choice([2, 4]), max_request_concurrency=rng.choice([2, 3, 4]),
                           max_in_memory_download_chunks=rng.choice([2, 3, 4]), max_io_queue_size=rng.choice([1, 2, 1000]), num_download_attempts=2)
                w = {'file': site[0], 'lineno': site[1], 'name': f'rmw:{site[0]}:{site[1]}:{site[2]}', 'nth': nth, 'action': 'pause', 'wait': 0.2, 'rmw': True}
                size = rng.choice([24, 33, 41])
                if site[2].startswith('CountCallbackInvoker.') and rep % 2 == 0:
                    # many parts: the first ones finish (and are counted off) while the submission thread is still counting parts in
                    size = rng.choice([200, 333, 480])
                    cfg['io_chunksize'] = 8
                    cfg['max_request_concurrency'] = rng.choice([3, 4])
                cases.append({'seed': rng.randrange(1 << 30), 'config': cfg, 'transfers': [{'kind': 'download', 'dst': dst, 'size': size}],
                              'yield': {'p': 0.0, 'window': w}, 'plan': {'delay_p': rng.choice([0.0, 0.3]) if size < 100 else 0.0}, 'family': 'rmw-window'})
    # downloads of an OLDER version (VersionId among the extra arguments) while the key's current version is other data
    for i in range(24 if quick else 240):
        C = 8
        T = rng.choice([8, 16, 100])
        cases.append({'seed': rng.randrange(1 << 30), 'family': 'versioned',
                      'transfers': [{'kind': 'download', 'dst': rng.choice(['path', 'seekable', 'nonseekable', 'fifo']), 'size': rng.choice([1, 7, 16, 19, 33, 41]),
                                     'versioned': True}],
                      'config': dict(multipart_threshold=T, multipart_chunksize=C, io_chunksize=rng.choice([2, 4]), max_request_concurrency=rng.choice([1, 2, 3]),
                                     num_download_attempts=2),
                      'plan': ({'faults': [{'at': f't0/s3:GetObject:{rng.choice(["all", 0, 8])}#0', 'phase': 'body', 'bytes': rng.randrange(0, 5), 'kind': 'connreset',
                                            'tag': 'FAULT-v'}]} if rng.random() < 0.4 else {})})
    # executor / subscriber flavours: everything inline in the submitting thread (NonThreadedExecutor, what use_threads=False
    # selects), no subscribers at all, and duck-typed subscribers offering only some callbacks
    for s in cases:
        if s.get('front_end') or s.get('mode') or s.get('yield'):
            continue
        r = rng.random()
        if r < 0.12:
            s['executor'] = 'nonthreaded'
        for t in s['transfers']:
            if 'subs' not in t and rng.random() < 0.12:
                t['subs'] = rng.choice([None, [{'only': ['on_done']}], [{'only': ['on_progress']}]])
    rng.shuffle(cases)
    from ..gen import sprinkle

    sprinkle(cases, seed)
    return cases


def evaluate(obs):
    viol = []
    stats = {'success': 0, 'failed': 0, 'stream_faults': 0, 'get_requests': 0, 'bytes_compared': 0,
             'gated_releases': len(obs.gate.released) if obs.gate else 0}
    nontrivial = False
    fe = obs.spec.get('front_end', 'manager')
    stats['fe_' + fe] = 1
    for x in obs.xfers:
        if x.outcome == 'success':
            stats['success'] += 1
            stats['bytes_compared'] += len(x.data)
            nontrivial = True
        else:
            stats['failed'] += 1
        viol += oracles.content_oracle(obs, x)
    stats['stream_faults'] = len([r for r in obs.world.director.raised if r['phase'] == 'body'])
    stats['get_requests'] = len([e for e in obs.events if e['kind'] == 'api.begin' and e.get('op') == 'GetObject'])
    if stats['stream_faults'] and stats['success']:
        stats['success_after_retry'] = 1
    summary = {'outcomes': e2e.default_outcomes(obs), 'faults': [(r['key'], r['kind'], r.get('delivered')) for r in obs.world.director.raised],
               'writes': [(e.get('offset'), e.get('nbytes')) for e in obs.events if e['kind'] in ('dst.write', 'fs.write')][:40]}
    return viol, stats, nontrivial, summary


def run_case(case):
    return e2e.run_with(case, evaluate)
