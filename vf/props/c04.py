"""C04 — every transfer terminates: no deadlock, hang or lost wake-up.

Restated for a finite observer: in every explored run each submitted transfer's
future becomes done and result()/cancel()/shutdown() return before the process
becomes quiescent with obligations outstanding (vf/watchdog.py)."""
import copy
import itertools
import random

from .. import e2e, gen, oracles

PROPERTY = 'C04'
LEVEL = 'exploration'
RULE = ('families: (A) every transfer kind under small-integer settings (1..2 exhaustively sampled, 3 sampled) of the seven '
        'concurrency/queue/in-memory limits x {no fault, one fault at a sampled boundary, cancel at a sampled boundary}; (B) 2-4 '
        'concurrent mixed transfers contending for 1-slot stages and a 1-token sliding window, with gates making the lowest '
        'part the slowest; (C) cancel landing before the submission task starts (single submission thread parked in an '
        'earlier transfer\'s on_queued), inside named race windows, and at sampled statement lines of every concurrency-relevant '
        'function (a thread is preempted there until all others are stuck, or a cancel runs concurrently: sys.monitoring line steering); (D) subscribers that call '
        'back into their own future (done/meta/cancel/set_exception from on_queued/on_progress/on_done, result from on_done) in '
        'success, failure, cancelled and cancelled-before-start outcomes; (E) stress: line-level yield injection with a 5 us '
        'switch interval.  Verdict per run: result(), cancel() and shutdown() returned before the /proc-based quiescence '
        'detector found every thread asleep with the event counter frozen and nothing parked by the harness (= deadlock, a '
        'logical verdict). families (I) executor / subscriber flavours (NonThreadedExecutor, no subscribers, duck-typed partial subscribers) and (J) failures whose cleanup fails too (part + abort, write + temp removal); non-trivial = the run finished or deadlocked with all obligations tracked; distinct = (shape, '
        'interleaving signature)')
ASSUMPTIONS = [
    'no scheduler owns CPython thread switching: schedules are randomized (delays, line-level yields, switch interval) and '
    'steered at boundary events / named source lines, not enumerated up to a preemption bound',
    'unbounded "eventually" is restated as "never quiescent while unfinished"',
]
CASE_TIMEOUT = 60.0
REENTER = {
    'on_queued': ['done', 'meta', 'cancel', 'set_exception'],
    'on_progress': ['done', 'meta', 'cancel', 'set_exception'],
    'on_done': ['done', 'meta', 'result', 'cancel', 'set_exception'],
}


def sites_for(t, T=16, C=8):
    """Boundary events that exist for transfer t (as t0) under threshold T / chunk C."""
    kind, size = t['kind'], t.get('size', 0)
    multi = size >= T
    nparts = (size + C - 1) // C if multi else 0
    sites = ['t0/cb:on_queued:s0#0']
    if kind == 'upload':
        src = t.get('src', 'path')
        if src == 'path':
            sites += ['t0/fs:size#0', 't0/fs:openr#0', 't0/src:read#0']
        else:
            sites += ['t0/src:read#0', 't0/src:read#1']
        if multi:
            sites += ['t0/s3:CreateMultipartUpload#0', 't0/s3:CompleteMultipartUpload#0'] + [f't0/s3:UploadPart:{i}#0' for i in range(1, nparts + 1)]
        else:
            sites += ['t0/s3:PutObject#0']
        if size:
            sites += ['t0/cb:on_progress:s0#0']
    elif kind == 'download':
        dst = t.get('dst', 'path')
        sites += ['t0/s3:HeadObject#0']
        if multi:
            sites += [f't0/s3:GetObject:{i * C}#0' for i in range(nparts)]
        else:
            sites += ['t0/s3:GetObject:all#0']
        if dst in ('path', 'fifo'):
            sites += ['t0/fs:openw#0', 't0/fs:write#0', 't0/fs:write#1']
            if dst == 'path':
                sites += ['t0/fs:rename#0']
        else:
            sites += ['t0/dst:write#0', 't0/dst:write#1']
        if size:
            sites += ['t0/cb:on_progress:s0#0', 't0/cb:on_progress:s0#1']
    elif kind == 'copy':
        sites += ['t0/s3:HeadObject#0']
        if multi:
            sites += ['t0/s3:CreateMultipartUpload#0', 't0/s3:CompleteMultipartUpload#0'] + [f't0/s3:UploadPartCopy:{i}#0' for i in range(1, nparts + 1)]
        else:
            sites += ['t0/s3:CopyObject#0']
    else:
        sites += ['t0/s3:DeleteObject#0']
    return sites


def fault_or_cancel(rng, t, spec, T=None, C=None):
    """Attach one sampled fault or cancel aimed at transfer 0."""
    cfg = spec.get('config') or {}
    T = T or cfg.get('multipart_threshold', 16)
    C = C or cfg.get('multipart_chunksize', 8)
    at = rng.choice(sites_for(t, T, C))
    phase = rng.choice(['before', 'after'])
    what = rng.choice(['fault', 'cancel', 'cancel_main'])
    plan = spec.setdefault('plan', {})
    if what == 'fault':
        if '/fs:' in at and 'write' not in at:
            phase = 'before'
        kind_f = 'oserror' if ('/fs:' in at or '/dst:' in at) else rng.choice(['exc', 'client4xx'] if '/s3:' in at else ['exc'])
        plan['faults'] = [{'at': at, 'phase': phase, 'kind': kind_f, 'tag': 'FAULT-c04'}]
    else:
        plan['cancel'] = {'at': at, 'phase': phase, 'how': 'future.cancel', 'from': 'event' if what == 'cancel' else 'main'}


def gen_cases(tier, seed):
    rng = random.Random(seed)
    quick = tier == 'quick'
    cases = []
    # (A) lattice
    lat = list(itertools.product([1, 2], repeat=len(gen.LIMIT_NAMES)))
    rng.shuffle(lat)
    nlat = 40 if quick else len(lat)
    for vals in lat[:nlat]:
        for kind, extra in gen.KINDS:
            for variant in range(3):
                t = dict({'kind': kind, 'size': rng.choice([0, 7, 16, 27])}, **extra)
                cfg = dict(multipart_threshold=16, multipart_chunksize=8, io_chunksize=4, num_download_attempts=2)
                cfg.update(dict(zip(gen.LIMIT_NAMES, vals)))
                if rng.random() < 0.25:
                    cfg[rng.choice(gen.LIMIT_NAMES)] = 3
                spec = {'seed': rng.randrange(1 << 30), 'min_part': 8, 'config': cfg, 'transfers': [t],
                        'plan': {'delay_p': rng.choice([0.0, 0.2])}}
                if variant:
                    fault_or_cancel(rng, t, spec)
                cases.append(spec)
    # (B) contention
    for i in range(150 if quick else 1500):
        n = rng.choice([2, 3, 4])
        spec = gen.mix(rng, n, hi=rng.choice([1, 1, 2]))
        if rng.random() < 0.6:
            spec['plan']['gate'] = {'match': rng.choice(['s3:GetObject', 's3:UploadPart', 's3:']),
                                    'phase': rng.choice(['before', 'after']), 'policy': rng.choice(['lowest_last', 'reverse', 'seeded'])}
        r = rng.random()
        if r < 0.3:
            fault_or_cancel(rng, spec['transfers'][0], spec)
        cases.append(spec)
    # (C) cancel before start: single submission thread parked in t0's on_queued
    for kind, extra in gen.KINDS:
        for acts in ([], ['done'], ['meta'], ['result'], ['cancel'], ['set_exception'], ['done', 'meta', 'result', 'cancel', 'set_exception']):
            t0 = {'kind': 'upload', 'src': 'path', 'size': 5}
            t1 = dict({'kind': kind, 'size': rng.choice([5, 20])}, **extra)
            t1['subs'] = [{'reenter': {'on_done': acts}}]
            cfg = dict(multipart_threshold=16, multipart_chunksize=8, io_chunksize=4, max_submission_concurrency=1)
            cases.append({'seed': rng.randrange(1 << 30), 'min_part': 8, 'config': cfg, 'transfers': [t0, t1], 'family': 'C-notstarted',
                          'plan': {'gate': {'match': 't0/cb:on_queued', 'phase': 'before', 'count': 1, 'after_cancel_begin': True},
                                   'cancel': {'at': '@after_submit', 'target': 1, 'how': 'future.cancel'}}})
    # (C2) race windows
    windows = [
        {'file': 'tasks.py', 'text': 'return self._execute_main(kwargs)', 'name': 'task-after-done-check'},
        {'file': 'futures.py', 'text': "self._status = 'cancelled'", 'name': 'cancel-status-set', 'line_offset': 1},
        {'file': 'futures.py', 'text': 'self._done_event.set()', 'name': 'announce-after-event-set', 'line_offset': 1},
        {'file': 'tasks.py', 'text': 'self._transfer_coordinator.set_result(return_value)', 'name': 'before-set-result'},
        {'file': 'tasks.py', 'text': 'self._transfer_coordinator.set_status_to_running()', 'name': 'before-running'},
        {'file': 'tasks.py', 'text': 'self._transfer_coordinator.set_status_to_queued()', 'name': 'before-queued'},
        {'file': 'tasks.py', 'text': 'self._transfer_coordinator.announce_done()', 'name': 'before-announce', 'occ': 0},
        {'file': 'utils.py', 'text': 'self._callback()', 'name': 'count-callback', 'occ': 0},
    ]
    for wdw in windows:
        for kind, extra in gen.KINDS:
            for nth in range(3 if quick else 8):
                t = dict({'kind': kind, 'size': rng.choice([5, 20])}, **extra)
                cfg = dict(multipart_threshold=16, multipart_chunksize=8, io_chunksize=4, max_request_concurrency=2)
                cases.append({'seed': rng.randrange(1 << 30), 'min_part': 8, 'config': cfg, 'transfers': [t], 'family': 'C-window',
                              'yield': {'p': rng.choice([0.0, 0.05]), 'window': dict(wdw, nth=nth, target=0)}})
    # (C2b) the manager as a whole is cancelled from another user thread exactly while a transfer is being started (its submission task has
    # checked that the transfer is not done, and has not marked it queued yet); the canceller itself is held once more between recording
    # the cancellation and announcing it, until the starting thread has run as far as it can
    for kind, extra in gen.KINDS:
        for rep in range(2 if quick else 8):
            n = rng.choice([1, 2, 3])
            ts = [dict({'kind': kind, 'size': rng.choice([5, 20])}, **extra)] + [dict({'kind': k2, 'size': rng.choice([5, 20])}, **e2) for (k2, e2) in rng.sample(gen.KINDS, n - 1)]
            # (one submission thread, and the cancel lands when the LAST transfer is being started: every transfer has been handed to the
            # manager by then - handing one to a manager that was shut down is the caller's error, not a case)
            cfg = dict(multipart_threshold=16, multipart_chunksize=8, io_chunksize=4, max_request_concurrency=2, max_submission_concurrency=1)
            cases.append({'seed': rng.randrange(1 << 30), 'min_part': 8, 'config': cfg, 'transfers': ts, 'family': 'C-start-vs-manager-cancel',
                          'yield': {'p': rng.choice([0.0, 0.05]),
                                    'window': {'file': 'tasks.py', 'text': 'self._transfer_coordinator.set_status_to_queued()', 'name': 'before-queued',
                                               'nth': n - 1, 'how': 'manager_cancel', 'target': 0, 'wait': 0.3},
                                    'more_windows': [{'file': 'futures.py', 'text': 'if should_announce_done:', 'name': 'cancel-before-announce',
                                                      'nth': rng.choice([0, 0, 1]), 'wait': 0.6}]}})
    # (C3) systematic line windows: preempt the nth thread reaching a statement of the concurrency-relevant functions until
    # everybody else has run as far as they can (lost wake-ups), or cancel concurrently while it sits there
    from .. import windows

    for action, n in (('pause', 60 if quick else 2500), ('cancel', 40 if quick else 1500)):
        for sp in windows.cases(rng, action, n, core_reps=1 if quick else 3, nths=(0, 1) if quick else (0, 1, 2, 3), all_lines=not quick):
            sp['family'] = 'C-line-' + action
            cases.append(sp)
    # (C4) one preemption inside each read-modify-write statement on shared state (lost updates -> lost wake-ups)
    for sp in windows.rmw_cases(rng, nths=(0, 1) if quick else (0, 1, 2, 3), reps=1 if quick else 3):
        sp['family'] = 'C-rmw'
        cases.append(sp)
    # (E) a BaseException that is neither an Exception nor a KeyboardInterrupt raised inside the submission step
    from .c03 import base_in_submission_cases

    cases += base_in_submission_cases(rng, quick, family='E-base-in-submission')
    # (E2) ... and raised inside REQUEST-stage work (a request, an on_progress callback; also inside the transfer's final task): whatever
    # result() then reports (see finding F9, judged under C03), the transfer must come to an end
    from .c03 import base_scenarios

    for bi, base in enumerate(base_scenarios(rng)):
        if base.get('executor'):
            continue
        t = base['transfers'][0]
        sites = [k for k in sites_for(t, 16, 8) if ('/s3:' in k and 'HeadObject' not in k) or '/cb:on_progress' in k]
        for k in (sites if not quick else rng.sample(sites, min(2, len(sites)))):
            sp = copy.deepcopy(base)
            sp['seed'] = rng.randrange(1 << 30)
            sp['family'] = 'E2-base-in-request-stage'
            sp['plan'] = {'faults': [{'at': k, 'phase': rng.choice(['before', 'after']), 'kind': rng.choice(['base', 'systemexit']), 'tag': f'FAULT-breq-{bi}'}]}
            cases.append(sp)
    # (D) re-entrant subscribers
    for kind, extra in gen.KINDS:
        for where, acts in REENTER.items():
            for act in acts:
                for outcome in ('success', 'fault', 'cancel'):
                    t = dict({'kind': kind, 'size': rng.choice([5, 20])}, **extra)
                    t['subs'] = [{'reenter': {where: [act]}}, {}]
                    cfg = dict(multipart_threshold=16, multipart_chunksize=8, io_chunksize=4, max_request_concurrency=2)
                    spec = {'seed': rng.randrange(1 << 30), 'min_part': 8, 'config': cfg, 'transfers': [t], 'family': 'D-reenter',
                            'plan': {}}
                    if outcome != 'success':
                        fault_or_cancel(rng, t, spec)
                    cases.append(spec)
    # (D2) subscribers acting on OTHER transfers of the same manager from inside on_done: the fail-fast pattern (cancel the siblings,
    # some of which have not started yet) and the chained pattern (start a fresh transfer on the manager)
    for kind, extra in gen.KINDS:
        for act in ('cancel_sibling', 'submit_new'):
            for outcome in ('success', 'fault', 'cancel'):
                for rep in range(1 if quick else 3):
                    t = dict({'kind': kind, 'size': rng.choice([5, 20])}, **extra)
                    t['subs'] = [{'reenter': {'on_done': [act]}}, {}]
                    ts = [t] + [dict({'kind': k2, 'size': rng.choice([5, 20])}, **e2) for (k2, e2) in rng.sample(gen.KINDS, rng.choice([1, 2]))]
                    cfg = dict(multipart_threshold=16, multipart_chunksize=8, io_chunksize=4, max_request_concurrency=rng.choice([1, 2]),
                               max_submission_concurrency=rng.choice([1, 1, 2]))
                    spec = {'seed': rng.randrange(1 << 30), 'min_part': 8, 'config': cfg, 'transfers': ts, 'family': 'D2-callbacks-on-others',
                            'plan': {}, 'chained': True}
                    if outcome != 'success':
                        fault_or_cancel(rng, t, spec)
                    if rng.random() < 0.3:
                        spec['executor'] = 'nonthreaded'  # the callback runs inside the manager call that started the first transfer
                    cases.append(spec)
    # (E) stress
    for i in range(60 if quick else 600):
        spec = gen.mix(rng, rng.choice([1, 2, 3]), hi=rng.choice([1, 2, 3]))
        spec['yield'] = {'p': rng.choice([0.05, 0.2]), 'switch': 5e-6}
        if rng.random() < 0.4:
            fault_or_cancel(rng, spec['transfers'][0], spec)
        cases.append(spec)
    # (J) failures whose cleanup fails too: the part request and the abort both fail (network gone); the destination write and the
    # removal of the temporary file both fail
    for i in range(60 if quick else 600):
        vk = rng.choice(['upload', 'copy', 'download'])
        if vk == 'upload':
            t = {'kind': 'upload', 'src': rng.choice(['path', 'seekable', 'nonseekable']), 'size': 27}
            f1, f2 = rng.choice([f't0/s3:UploadPart:{rng.choice([1, 2, 3])}#0', 't0/s3:CompleteMultipartUpload#0']), 't0/s3:AbortMultipartUpload#0'
        elif vk == 'copy':
            t = {'kind': 'copy', 'size': 27}
            f1, f2 = rng.choice([f't0/s3:UploadPartCopy:{rng.choice([1, 2, 3])}#0', 't0/s3:CompleteMultipartUpload#0']), 't0/s3:AbortMultipartUpload#0'
        else:
            t = {'kind': 'download', 'dst': 'path', 'size': rng.choice([7, 27])}
            f1, f2 = rng.choice([f't0/fs:write#{rng.choice([0, 1])}', 't0/s3:GetObject:0#0' if t['size'] > 16 else 't0/s3:GetObject:all#0', 't0/fs:rename#0']), 't0/fs:remove#0'
        cfg = dict(multipart_threshold=16, multipart_chunksize=8, io_chunksize=4, num_download_attempts=1)
        cfg.update(gen.small_limits(rng, 3))
        spec = {'seed': rng.randrange(1 << 30), 'min_part': 8, 'config': cfg, 'transfers': [t], 'family': 'J-cleanup-fails',
                'plan': {'delay_p': rng.choice([0.0, 0.2])}}
        if rng.random() < 0.3:
            spec['plan']['cancel'] = {'at': f1, 'phase': rng.choice(['before', 'after']), 'how': 'future.cancel', 'from': rng.choice(['event', 'main'])}
            spec['plan']['faults'] = []
        else:
            spec['plan']['faults'] = [{'at': f1, 'phase': rng.choice(['before', 'after']), 'kind': 'oserror' if '/fs:' in f1 else 'exc', 'tag': 'FAULT-c04'}]
        spec['plan']['faults'].append({'at': f2, 'phase': 'before', 'kind': 'oserror' if '/fs:' in f2 else rng.choice(['exc', 'client4xx']),
                                       'tag': 'FAULT-c04-cleanup'})
        if rng.random() < 0.3:
            spec['mode'] = rng.choice(['shutdown_plain', 'shutdown_cancel', 'with_exc'])
            spec['trigger'] = 'immediate'
        cases.append(spec)
    # (K) calls the manager rejects at call time (a bucket it does not support, an extra argument outside the allow-list) among
    # ordinary transfers, the caller carrying on: every exit still has to return
    LAMBDA_ARN = 'arn:aws:s3-object-lambda:us-west-2:123456789012:accesspoint/vf'
    for i in range(40 if quick else 400):
        spec = gen.mix(rng, rng.choice([1, 2]), hi=rng.choice([1, 2, 3]))
        spec['family'] = 'K-rejected-call'
        kind, extra = rng.choice(gen.KINDS)
        bad = dict({'kind': kind, 'size': rng.choice([5, 20])}, **extra)
        if rng.random() < 0.6:
            bad['bucket'] = LAMBDA_ARN
        else:
            bad['extra_args'] = {'VfNotAnArgument': 'x'}
        spec['transfers'].insert(rng.randrange(len(spec['transfers']) + 1), bad)
        spec['mode'] = rng.choice(['plain', 'shutdown_plain', 'shutdown_plain', 'shutdown_cancel', 'with_exc'])
        if spec['mode'] == 'plain':
            spec.pop('mode')
        else:
            spec['trigger'] = 'immediate'
        cases.append(spec)
    # (I) executor / subscriber flavours: everything inline in the submitting thread (NonThreadedExecutor), no subscribers,
    # duck-typed subscribers offering only some callbacks, under small limits, faults and cancels
    for i in range(150 if quick else 1500):
        spec = gen.mix(rng, rng.choice([1, 2, 3]), hi=rng.choice([1, 2, 3]))
        spec['family'] = 'I-flavours'
        if rng.random() < 0.6:
            spec['executor'] = 'nonthreaded'
        for t in spec['transfers']:
            t['subs'] = rng.choice([None, [{'only': ['on_done']}], [{'only': ['on_progress']}], [{}],
                                    [{'only': ['on_queued', 'on_done'], 'reenter': {'on_done': ['result', 'done']}}]])
        if rng.random() < 0.5:
            fault_or_cancel(rng, spec['transfers'][0], spec)
        cases.append(spec)
    # a quarter of the runs in which something is cancelled or fails have the package's loggers at DEBUG with a handler that formats
    # every record (log calls made while a lock is held then run the objects' __str__ / __repr__ under that lock)
    r2 = random.Random(seed + 77)
    for c in cases:
        plan = c.get('plan') or {}
        if (plan.get('cancel') or plan.get('faults') or c.get('mode')) and 'debug_log' not in c and r2.random() < 0.25:
            c['debug_log'] = True
    rng.shuffle(cases)
    return cases


def evaluate(obs):
    stats = {'finished_runs': 1, 'success': 0, 'raised': 0, 'submit_blocked': 0,
             'cancel_fired': 1 if (obs.world.director.cancel_fired or obs.cancel_events) else 0,
             'faults_hit': len(obs.world.director.raised),
             'yield_events': obs.injector.events if obs.injector else 0,
             'window_hits': len(obs.injector.window_hits) if obs.injector else 0,
             'reenter_calls': len([e for e in obs.events if e['kind'] == 'cb.reenter'])}
    fam = obs.spec.get('family')
    if fam:
        stats['fam_' + fam] = 1
    for x in obs.xfers:
        stats['success' if x.outcome == 'success' else 'raised'] += 1
    summary = {'outcomes': e2e.default_outcomes(obs), 'window': obs.injector.window_hits if obs.injector else None}
    viol = []
    co = getattr(obs, 'chained_outcomes', None)
    if co is not None:
        stats['chained_started'] = len(co)
        summary['chained'] = co
        for (k, how, what) in co:
            # the manager stays usable (C18): a fresh transfer started from a callback, with nothing wrong with it and no cancelling
            # exit in progress, succeeds
            if how != 'success':
                viol.append(oracles.V(f'a fresh upload ({k}) started on the same manager from inside on_done ended {how}: {what}', sym='chained-failed',
                                      family=fam))
    return viol, stats, True, summary


def run_case(case):
    return e2e.run_with(case, evaluate, liveness=True)
