"""C15 — extra arguments reach exactly the S3 operations that accept them."""
import datetime
import itertools
import os
import random
import tempfile

from .. import scenario
from ..oracles import V

PROPERTY = 'C15'
LEVEL = 'exploration'
EXHAUSTIVE = {'quick': True, 'thorough': True}
RULE = ('exhaustive over the finite table: every allowed extra-argument name of TransferManager.upload/download/copy/delete (and of '
        'legacy S3Transfer.upload_file/download_file and ProcessPoolDownloader.download_file) x every mode (single / multipart or '
        'ranged / multipart with a failing part so that AbortMultipartUpload is issued; size provided or discovered), one real transfer '
        'per cell against the API-level fake with a typed distinctive value generated from the botocore shape; every subset of the '
        'checksum-related names; both request_checksum_calculation modes; every non-allowed parameter name of the ten S3 operations '
        'plus junk names for rejection.  Oracle: the keyword arguments captured at provide-client-params (exactly what s3transfer '
        'passed) are compared with the input shapes of the INSTALLED botocore S3 model: A in shape(O) => O received A unchanged; A not '
        'in shape(O) => O did not receive it; copy-source names arrive at HeadObject under their mapped names; a full-object checksum '
        'only at PutObject / CompleteMultipartUpload together with ChecksumType=FULL_OBJECT and the matching ChecksumAlgorithm on the '
        'create/part requests; CRC32 default under when_supported; disallowed names raise before any request; the when_supported table is run a second time with the s3transfer loggers at DEBUG.  non-trivial = a cell in '
        'which at least one operation was compared; distinct = distinct (front-end, method, mode, argument set)')
ASSUMPTIONS = ['HeadObject issued by a copy addresses the SOURCE object: only the statement\'s mapped copy-source names, RequestPayer and '
               'ExpectedBucketOwner (which it has under the same name) are demanded there; destination-side encryption / metadata names are not',
               'checked against the botocore version installed in /venv (1.43.x)']
CASE_TIMEOUT = 600.0

HEAD_MAP = {
    'CopySourceIfMatch': 'IfMatch', 'CopySourceIfModifiedSince': 'IfModifiedSince', 'CopySourceIfNoneMatch': 'IfNoneMatch',
    'CopySourceIfUnmodifiedSince': 'IfUnmodifiedSince', 'CopySourceSSECustomerKey': 'SSECustomerKey',
    'CopySourceSSECustomerAlgorithm': 'SSECustomerAlgorithm', 'CopySourceSSECustomerKeyMD5': 'SSECustomerKeyMD5',
}
FULL = ['ChecksumCRC32', 'ChecksumCRC32C', 'ChecksumCRC64NVME', 'ChecksumSHA1', 'ChecksumSHA256']
NEEDS_CRT = ('ChecksumCRC32C', 'ChecksumCRC64NVME')
OPS10 = ['PutObject', 'GetObject', 'HeadObject', 'DeleteObject', 'CopyObject', 'CreateMultipartUpload', 'UploadPart', 'UploadPartCopy',
         'CompleteMultipartUpload', 'AbortMultipartUpload']
_model = {}


def service_model():
    if not _model:
        from ..fakes3 import get_session

        sm = get_session().get_service_model('s3')
        for op in OPS10:
            shape = sm.operation_model(op).input_shape
            _model[op] = shape.members
    return _model


def value_for(name, shape, salt=''):
    t = shape.type_name
    if getattr(shape, 'enum', None):
        if name == 'ChecksumAlgorithm':
            return 'SHA256'
        if name == 'ChecksumType':
            return 'FULL_OBJECT'
        return shape.enum[0]
    if t == 'timestamp':
        return datetime.datetime(2031, 5, 17, 12, 0, 0, tzinfo=datetime.timezone.utc)
    if t == 'map':
        return {'vf-key': f'vf-{name}{salt}'}
    if t in ('integer', 'long'):
        return 4242
    if t == 'boolean':
        return True
    return f'vf-{name}{salt}'


def find_shape(name):
    for op in OPS10:
        m = service_model()[op]
        if name in m:
            return m[name]
    return None


class Harness:
    """One API-level world + manager; runs one transfer per cell and returns its calls."""

    def __init__(self, checksum_mode='when_supported', fail_part=False):
        from s3transfer.manager import TransferConfig, TransferManager
        from ..director import Director
        from ..events import EventLog
        from ..fakes3 import FakeS3
        from ..io import HookedOSUtils

        self.log = EventLog()
        self.d = Director(self.log, 0, {})
        self.s3 = FakeS3(self.log, self.d)
        self.s3.api_only = True
        self.s3.api_sizes = {}
        self.client = self.s3.make_client(checksum_mode, 'https')

        class W:
            pass

        w = W()
        w.log, w.director, w.s3 = self.log, self.d, self.s3
        self.w = w
        self.tmp = tempfile.mkdtemp(prefix='vf-c15-', dir=scenario.scratch_root())
        self.osu = HookedOSUtils(w)
        self.cfg = TransferConfig(multipart_threshold=10 * 1024 * 1024, multipart_chunksize=5 * 1024 * 1024, max_request_concurrency=2)
        self.mgr = TransferManager(self.client, self.cfg, osutil=self.osu)
        self.n = 0
        self.bucket = 'bkt'
        self.source_client = None  # a SEPARATE client for the source object of copies (copy(..., source_client=...)), when set
        if fail_part:
            self.s3.api_fail_ops = {'UploadPart', 'UploadPartCopy'}

    def calls_for(self, key):
        return [(c['op'], dict(c['params'])) for c in sorted(self.s3.calls.values(), key=lambda c: c['call_id'])
                if c['params'].get('Key') == key or (isinstance(c['params'].get('CopySource'), dict) and c['params']['CopySource'].get('Key') == key)]

    def run_pair(self, method, mode, extra_a, extra_b):
        """Two transfers with different arguments at the same time on the one manager.  Returns [(error-or-None, calls), ...]."""
        import threading

        size = 12 * 1024 * 1024 if mode != 'single' else 1024
        subm = []
        for extra in (extra_a, extra_b):
            self.n += 1
            key = f'cell{self.n}'
            rec = {'key': key, 'extra': extra, 'f': None, 'err': None}
            subm.append(rec)

            def go(rec=rec, key=key, extra=extra):
                try:
                    if method == 'upload':
                        path = os.path.join(self.tmp, key)
                        self.osu.virtual_sizes[path] = size
                        rec['f'] = self.mgr.upload(path, 'bkt', key, extra_args=dict(extra))
                    elif method == 'download':
                        self.s3.api_sizes[('bkt', key)] = size
                        rec['f'] = self.mgr.download('bkt', key, os.path.join(self.tmp, key + '.out'), extra_args=dict(extra))
                    else:
                        self.s3.api_sizes[('srcbkt', key)] = size
                        rec['f'] = self.mgr.copy({'Bucket': 'srcbkt', 'Key': key}, 'bkt', key, extra_args=dict(extra))
                except Exception as e:  # noqa
                    rec['err'] = ('submit', e)
            rec['th'] = threading.Thread(target=go, name=f'vf-c15-submit-{key}', daemon=True)
        for rec in subm:
            rec['th'].start()
        for rec in subm:
            rec['th'].join(60)
        out = []
        for rec in subm:
            if rec['f'] is not None:
                try:
                    rec['f'].result()
                except Exception as e:  # noqa
                    rec['err'] = ('result', e)
            out.append((rec['err'], self.calls_for(rec['key'])))
        return out

    def run(self, method, mode, extra, provide_size):
        """Returns (error-or-None, calls)."""
        from ..io import RecordingSubscriber

        self.n += 1
        key = f'cell{self.n}'
        size = 12 * 1024 * 1024 if mode != 'single' else 1024
        subs = []
        if provide_size:
            subs = [RecordingSubscriber(self.w, key, 's0', {'provide_size': size})]
        try:
            if method == 'upload':
                path = os.path.join(self.tmp, key)
                self.osu.virtual_sizes[path] = size
                f = self.mgr.upload(path, self.bucket, key, extra_args=dict(extra), subscribers=subs)
            elif method == 'download':
                self.s3.api_sizes[(self.bucket, key)] = size
                f = self.mgr.download(self.bucket, key, os.path.join(self.tmp, key + '.out'), extra_args=dict(extra), subscribers=subs)
            elif method == 'copy':
                self.s3.api_sizes[('srcbkt', key)] = size
                self.last_copy_source = {'Bucket': 'srcbkt', 'Key': key}
                kw = {'source_client': self.source_client} if self.source_client is not None else {}
                f = self.mgr.copy(self.last_copy_source, self.bucket, key, extra_args=dict(extra), subscribers=subs, **kw)
            else:
                f = self.mgr.delete(self.bucket, key, extra_args=dict(extra), subscribers=subs)
        except Exception as e:  # noqa
            return ('submit', e), self.calls_for(key)
        try:
            f.result()
            err = None
        except Exception as e:  # noqa
            err = ('result', e)
        return err, self.calls_for(key)

    def close(self):
        import shutil

        try:
            self.mgr.shutdown()
        finally:
            shutil.rmtree(self.tmp, ignore_errors=True)


def check_cell(fe, method, mode, extra, calls, checksum_mode, provide_size, err, expect_fail=False):
    """Compare the calls of one transfer with the model."""
    out = []
    M = service_model()
    mech0 = {'front_end': fe, 'method': method, 'mode': mode}
    ctx = f'{fe}.{method}[{mode}{",size-provided" if provide_size else ""}] extra_args={sorted(extra)}'
    if err is not None and not expect_fail:
        out.append(V(f'{ctx}: transfer failed: {err[1]!r}', sym='cell-failed', args=','.join(sorted(extra)), **mech0))
        return out, 0
    compared = 0
    has_full = [a for a in extra if a in FULL]
    for (op, params) in calls:
        members = M.get(op)
        if members is None:
            continue
        compared += 1
        unknown = [k for k in params if k not in members]
        if unknown:
            out.append(V(f'{ctx}: {op} received parameter(s) {unknown} that the operation does not have', sym='unknown-param', op=op,
                         arg=unknown[0], **mech0))
        if method == 'copy' and op in ('CopyObject', 'UploadPartCopy'):
            cs = params.get('CopySource')
            if isinstance(cs, dict) and set(cs) - {'Bucket', 'Key', 'VersionId'}:
                out.append(V(f'{ctx}: {op} received a CopySource with extra entries {sorted(set(cs) - {"Bucket", "Key", "VersionId"})} '
                             f'(the user supplied only Bucket and Key)', sym='copy-source-modified', op=op, arg='CopySource', **mech0))
        is_copy_head = method == 'copy' and op == 'HeadObject'
        for a, v in extra.items():
            if is_copy_head:
                if a in HEAD_MAP:
                    if params.get(HEAD_MAP[a]) != v:
                        out.append(V(f'{ctx}: HeadObject on the copy source did not receive {HEAD_MAP[a]} (mapped from {a})',
                                     sym='missing-mapped', op=op, arg=a, **mech0))
                elif a in ('RequestPayer', 'ExpectedBucketOwner') and a in members and params.get(a) != v:
                    # names HeadObject has under the SAME name and which say nothing about the object's content or encryption
                    out.append(V(f'{ctx}: HeadObject has a parameter {a} but did not receive it', sym='missing', op=op, arg=a, **mech0))
                continue
            if a in FULL:
                should = op in ('PutObject', 'CompleteMultipartUpload')
                if should and params.get(a) != v:
                    out.append(V(f'{ctx}: {op} did not receive the full-object checksum {a}', sym='missing', op=op, arg=a, **mech0))
                if not should and a in params:
                    out.append(V(f'{ctx}: {op} received the full-object checksum {a}', sym='full-checksum-leak', op=op, arg=a, **mech0))
                continue
            if a == 'ChecksumAlgorithm' and has_full:
                continue  # the library replaces it with the algorithm of the supplied checksum (checked below)
            if a == 'ChecksumType' and has_full:
                continue
            if a in members:
                if a not in params:
                    out.append(V(f'{ctx}: {op} has a parameter {a} but did not receive it', sym='missing', op=op, arg=a, **mech0))
                elif params[a] != v:
                    out.append(V(f'{ctx}: {op} received {a}={params[a]!r}, user supplied {v!r}', sym='modified', op=op, arg=a, **mech0))
            elif a in params:
                pass  # reported as unknown-param above
        # derived checksum parameters
        if method == 'upload' and fe == 'manager':
            if has_full:
                algo = has_full[0].replace('Checksum', '')
                if op == 'CreateMultipartUpload':
                    if params.get('ChecksumType') != 'FULL_OBJECT' or params.get('ChecksumAlgorithm') != algo:
                        out.append(V(f'{ctx}: CreateMultipartUpload got ChecksumType={params.get("ChecksumType")!r} '
                                     f'ChecksumAlgorithm={params.get("ChecksumAlgorithm")!r}; expected FULL_OBJECT / {algo}',
                                     sym='full-checksum-derivation', op=op, arg=has_full[0], **mech0))
                if op == 'CompleteMultipartUpload' and params.get('ChecksumType') != 'FULL_OBJECT':
                    out.append(V(f'{ctx}: CompleteMultipartUpload without ChecksumType=FULL_OBJECT', sym='full-checksum-derivation', op=op,
                                 arg=has_full[0], **mech0))
                if op == 'PutObject' and 'ChecksumAlgorithm' not in extra and params.get('ChecksumAlgorithm') not in (None, algo):
                    out.append(V(f'{ctx}: PutObject carries the user\'s {has_full[0]} but ChecksumAlgorithm={params.get("ChecksumAlgorithm")!r} '
                                 f'was added: not the matching algorithm', sym='full-checksum-derivation', op=op, arg=has_full[0], **mech0))
                if op == 'UploadPart' and params.get('ChecksumAlgorithm') != algo:
                    out.append(V(f'{ctx}: UploadPart ChecksumAlgorithm={params.get("ChecksumAlgorithm")!r}; expected {algo}',
                                 sym='full-checksum-derivation', op=op, arg=has_full[0], **mech0))
            elif 'ChecksumAlgorithm' not in extra and op in ('PutObject', 'CreateMultipartUpload', 'UploadPart'):
                got = params.get('ChecksumAlgorithm')
                if checksum_mode == 'when_supported' and got != 'CRC32':
                    out.append(V(f'{ctx}: {op} ChecksumAlgorithm={got!r}; CRC32 is the default when the client asks for checksums',
                                 sym='default-checksum', op=op, arg='ChecksumAlgorithm', **mech0))
                if checksum_mode == 'when_required' and got is not None:
                    out.append(V(f'{ctx}: {op} ChecksumAlgorithm={got!r} although nothing asked for a checksum', sym='default-checksum',
                                 op=op, arg='ChecksumAlgorithm', **mech0))
    return out, compared


def manager_cells():
    from s3transfer.manager import TransferManager

    cells = []
    for method, allowed in (('upload', TransferManager.ALLOWED_UPLOAD_ARGS), ('download', TransferManager.ALLOWED_DOWNLOAD_ARGS),
                            ('copy', TransferManager.ALLOWED_COPY_ARGS), ('delete', TransferManager.ALLOWED_DELETE_ARGS)):
        modes = {'upload': ['single', 'multi', 'multi-fail'], 'download': ['single', 'multi'], 'copy': ['single', 'multi', 'multi-fail'],
                 'delete': ['single']}[method]
        for a in allowed:
            for mode in modes:
                if method == 'upload' and mode == 'multi' and a in NEEDS_CRT:
                    continue  # (botocore cannot compute these part checksums without awscrt; the failing-part mode below still shows
                    # what CreateMultipartUpload / UploadPart / AbortMultipartUpload are called with)
                for ps in ((False, True) if method in ('download', 'copy') else (False,)):
                    cells.append((method, mode, [a], ps))
    # checksum-related subsets for uploads
    names = ['ChecksumAlgorithm', 'ChecksumType', 'MpuObjectSize']
    for k in range(0, len(names) + 1):
        for sub in itertools.combinations(names, k):
            for full in [None] + FULL:
                for mode in ('single', 'multi'):
                    args = list(sub) + ([full] if full else [])
                    if mode == 'multi' and full in NEEDS_CRT:
                        # botocore cannot compute these part checksums without awscrt (not installed): only the failing-part mode
                        if 'ChecksumAlgorithm' not in sub:
                            cells.append(('upload', 'multi-fail', args, False))
                        continue
                    if len(args) >= 2 or not args:
                        cells.append(('upload', mode, args, False))
    # allowed arguments given with an EMPTY value (Metadata={}, Tagging='', ContentType=''): a value like any other, forwarded unchanged
    # (marked by a trailing '=' on the name; only names whose shape accepts an empty value)
    for method, allowed in (('upload', TransferManager.ALLOWED_UPLOAD_ARGS), ('copy', TransferManager.ALLOWED_COPY_ARGS),
                            ('download', TransferManager.ALLOWED_DOWNLOAD_ARGS)):
        for a in allowed:
            shp = find_shape(a)
            if shp is None or getattr(shp, 'enum', None) or shp.type_name not in ('string', 'map') or (shp.metadata or {}).get('min'):
                continue
            if a.startswith(('Checksum', 'SSECustomerKey', 'CopySourceSSECustomerKey')) or a in ('IfMatch', 'IfNoneMatch'):
                continue
            for mode in ('single', 'multi'):
                cells.append((method, mode, [a + '='], False))
    # a few multi-argument cells
    cells.append(('copy', 'multi', ['CopySourceIfMatch', 'SSECustomerKey', 'SSECustomerAlgorithm', 'RequestPayer', 'MetadataDirective', 'Metadata'], False))
    cells.append(('upload', 'multi', ['SSECustomerKey', 'SSECustomerAlgorithm', 'RequestPayer', 'ExpectedBucketOwner', 'Metadata', 'Tagging'], False))
    cells.append(('download', 'multi', ['VersionId', 'SSECustomerKey', 'SSECustomerAlgorithm', 'RequestPayer', 'ChecksumMode'], False))
    return cells


def gen_cases(tier, seed):
    cells = manager_cells()
    cases = []
    for cm in ('when_supported', 'when_required'):
        for fail in (False, True):
            sub = [c for c in cells if (c[1] == 'multi-fail') == fail]
            if cm == 'when_required':
                sub = [c for c in sub if c[0] == 'upload']
            # shard
            n = 6
            for i in range(n):
                cases.append({'type': 'manager', 'checksum_mode': cm, 'fail_part': fail, 'cells': [list(c) for c in sub[i::n]]})
    # the same argument table for bucket names of other classes: an S3 Express directory-bucket name, a dotted name (both checksum modes,
    # a third of the cells each)
    for bname in ('vfbucket--usw2-az1--x-s3', 'vf.dotted.bucket-name'):
        for cm in ('when_supported', 'when_required'):
            sub = [c for c in cells if c[1] != 'multi-fail' and (cm == 'when_supported' or c[0] == 'upload')]
            k = {'vfbucket--usw2-az1--x-s3': 0, 'vf.dotted.bucket-name': 1}[bname]
            cases.append({'type': 'manager', 'checksum_mode': cm, 'fail_part': False, 'bucket': bname, 'cells': [list(c) for c in sub[k::3]]})
    # copies whose source is read through a SEPARATE client (copy(..., source_client=other)): the same routing
    sub = [c for c in cells if c[0] == 'copy' and c[1] != 'multi-fail']
    for i in range(2):
        cases.append({'type': 'manager', 'checksum_mode': 'when_supported', 'fail_part': False, 'source_client': True, 'cells': [list(c) for c in sub[i::2]]})
    cases.append({'type': 'reject'})
    cases.append({'type': 'reject_other'})
    cases.append({'type': 'legacy'})
    cases.append({'type': 'procpool'})
    cases += [dict(c, debug_log=True) for c in cases if c['type'] != 'reject' and c.get('checksum_mode', 'when_supported') == 'when_supported']
    cases += pair_cases(random.Random(seed), tier == 'quick')
    return [c for c in cases if c.get('cells', True)]


def run_manager_cells(case):
    h = Harness(case['checksum_mode'], case['fail_part'])
    if case.get('bucket'):
        h.bucket = case['bucket']  # a bucket name of another class (an S3 Express directory bucket, a dotted name)
    if case.get('source_client'):
        h.source_client = h.s3.make_client(case['checksum_mode'], 'https')  # copies read their source through another client
    viol = []
    stats = {'cells': 0, 'ops_compared': 0}
    keys = set()
    try:
        for (method, mode, args, ps) in case['cells']:
            extra = {}
            for a in args:
                if a.endswith('='):
                    a = a[:-1]
                    extra[a] = {} if find_shape(a).type_name == 'map' else ''
                    continue
                shp = find_shape(a)
                extra[a] = value_for(a, shp) if shp is not None else f'vf-{a}'
            if 'ChecksumType' in extra and not any(a in FULL for a in extra):
                extra['ChecksumType'] = 'COMPOSITE'
            m = 'multi' if mode == 'multi-fail' else mode
            err, calls = h.run(method, m, extra, ps)
            v, n = check_cell('manager', method, mode, extra, calls, case['checksum_mode'], ps, err, expect_fail=case['fail_part'])
            if case['fail_part'] and not any(op == 'AbortMultipartUpload' for op, _ in calls):
                v.append(V(f'manager.{method}[multi-fail]: no AbortMultipartUpload observed', sym='no-abort', front_end='manager', method=method, mode=mode))
            viol += v
            stats['cells'] += 1
            stats['ops_compared'] += n
            if n:
                keys.add(('manager', method, mode, tuple(sorted(extra)), ps, case['checksum_mode']))
            if method == 'copy' and not ps and not case['fail_part'] and extra:
                # the caller's copy_source dict must come back untouched, and a second copy reusing it without extra
                # arguments must not carry anything over
                src = h.last_copy_source
                if set(src) != {'Bucket', 'Key'}:
                    viol.append(V(f'manager.copy[{mode}] extra_args={sorted(extra)}: the caller\'s copy_source dict was modified: {sorted(src)}',
                                  sym='copy-source-modified', front_end='manager', method='copy', mode=mode, arg='CopySource'))
                h.n += 1
                key2 = f'cell{h.n}'
                h.s3.api_sizes[(src['Bucket'], src['Key'])] = 1024
                try:
                    h.mgr.copy(src, 'bkt', key2).result()
                except Exception:
                    pass
                for (op2, p2) in h.calls_for(key2):
                    stray = [a for a in p2 if a in HEAD_MAP.values() or a in ('RequestPayer', 'ExpectedBucketOwner')]
                    if op2 == 'HeadObject' and stray:
                        viol.append(V(f'manager.copy: a second copy reusing the same copy_source dict without extra_args sent {stray} to HeadObject',
                                      sym='stale-args', front_end='manager', method='copy', mode=mode, op='HeadObject', arg=stray[0]))
                stats['reuse_checks'] = stats.get('reuse_checks', 0) + 1
    finally:
        h.close()
    return viol, stats, keys


PAIR_QUALS = ('UploadSubmissionTask', 'CopySubmissionTask', 'DownloadSubmissionTask', 'PutObjectTask', 'UploadPartTask', 'CopyObjectTask', 'CopyPartTask',
              'GetObjectTask', 'ImmediatelyWriteIOGetObjectTask', 'CreateMultipartUploadTask', 'CompleteMultipartUploadTask', 'Task._get_all_main_kwargs',
              'Task._execute_main', 'TransferManager._submit_transfer', 'SubmissionTask._main')


def pair_cases(rng, quick):
    """Two transfers with DIFFERENT arguments (names and values) running at the same time on one manager, one thread held at a statement
    of the submission / request code until the others have run as far as they can: the arguments of one never show up in the other's calls."""
    from .. import windows
    from s3transfer.manager import TransferManager

    lines = [l for l in windows.candidate_lines() if l[2].startswith(PAIR_QUALS)]
    pairs = []
    for line in lines:
        for rep in range(2 if quick else 8):
            if line[0] == 'upload.py' or line[2].startswith(('PutObjectTask', 'UploadPartTask')):
                method = 'upload'
            elif line[0] == 'copies.py':
                method = 'copy'
            elif line[0] == 'download.py':
                method = 'download'
            else:
                method = rng.choice(['upload', 'copy', 'download'])
            mode = 'multi' if rep == 0 else rng.choice(['multi', 'multi', 'single'])
            allowed = [a for a in {'upload': TransferManager.ALLOWED_UPLOAD_ARGS, 'copy': TransferManager.ALLOWED_COPY_ARGS,
                                   'download': TransferManager.ALLOWED_DOWNLOAD_ARGS}[method]
                       if not a.startswith('Checksum') and a not in ('MpuObjectSize', 'IfNoneMatch', 'IfMatch')]
            a = rng.sample(allowed, 3)
            b = rng.sample(allowed, 3)
            if method == 'upload' and (rep == 0 or rng.random() < 0.8):
                # each with the caller's own full-object checksum, of different algorithms
                fa, fb = rng.sample([f for f in FULL if f not in NEEDS_CRT], 2)
                a.append(fa)
                if rep == 0 or rng.random() < 0.85:
                    b.append(fb)
            # (two transfers: the first or the second thread to reach the line is the one held)
            w = {'file': line[0], 'lineno': line[1], 'name': f'{line[0]}:{line[1]}:{line[2]}', 'nth': 0 if rep == 0 else rng.choice([0, 0, 1]), 'action': 'pause', 'wait': 0.2}
            pairs.append({'method': method, 'mode': mode, 'a': a, 'b': b, 'window': w, 'seed': rng.randrange(1 << 30)})
    rng.shuffle(pairs)
    n = 12
    return [{'type': 'pairs', 'pairs': pairs[i::n]} for i in range(n) if pairs[i::n]]


def run_pairs(case):
    from .. import yieldinj

    viol, keys = [], set()
    stats = {'cells': 0, 'ops_compared': 0, 'pairs': 0, 'pair_window_hits': 0}
    h = Harness('when_supported', False)
    try:
        for pr in case['pairs']:
            extras = []
            for names, salt in ((pr['a'], 'A'), (pr['b'], 'B')):
                extra = {}
                for a in names:
                    shp = find_shape(a)
                    extra[a] = value_for(a, shp, salt) if shp is not None else f'vf-{a}-{salt}'
                extras.append(extra)
            w = pr['window']
            inj = yieldinj.Injector(p=0.0, seed=pr['seed'], files=[w['file']],
                                    windows=[{'file': w['file'], 'line': w['lineno'], 'nth': w['nth'], 'action': 'pause', 'name': w['name'], 'wait': 0.2}]).install()
            try:
                res = h.run_pair(pr['method'], pr['mode'], extras[0], extras[1])
            finally:
                inj.uninstall()
            stats['pairs'] += 1
            stats['pair_window_hits'] += 1 if inj.window_hits else 0
            for extra, (err, calls) in zip(extras, res):
                v, n = check_cell('manager', pr['method'], pr['mode'], extra, calls, 'when_supported', False, err)
                # nothing of the OTHER transfer's arguments
                other = extras[1] if extra is extras[0] else extras[0]
                for (op, params) in calls:
                    for a, val in other.items():
                        if a in params and params[a] == val and extra.get(a) != val:
                            v.append(V(f'manager.{pr["method"]}[{pr["mode"]}] extra_args={sorted(extra)}: {op} carries {a}={val!r}, which is the value given to '
                                       f'ANOTHER transfer running at the same time', sym='cross-transfer-arg', front_end='manager', method=pr['method'],
                                       mode=pr['mode'], op=op, arg=a))
                for x in v:
                    x['mech']['pair'] = True
                viol += v
                stats['cells'] += 1
                stats['ops_compared'] += n
                if n:
                    keys.add(('manager-pair', pr['method'], pr['mode'], tuple(sorted(extra)), pr['window']['name']))
    finally:
        h.close()
    return viol, stats, keys


def run_reject(case):
    from s3transfer.manager import TransferManager

    h = Harness()
    viol = []
    stats = {'reject_cells': 0}
    keys = set()
    try:
        allp = set()
        for op in OPS10:
            allp |= set(service_model()[op])
        allp -= {'Bucket', 'Key', 'Body', 'UploadId', 'PartNumber', 'MultipartUpload', 'CopySource', 'Range', 'CopySourceRange'}
        allp |= {'Junk', 'acl', 'Versionid', ''}
        table = {'upload': TransferManager.ALLOWED_UPLOAD_ARGS, 'download': TransferManager.ALLOWED_DOWNLOAD_ARGS,
                 'copy': TransferManager.ALLOWED_COPY_ARGS, 'delete': TransferManager.ALLOWED_DELETE_ARGS}
        # twice on the SAME manager: first fresh, then after every method has been used with each of its own allowed arguments (what
        # is legal for one method must not become acceptable to another)
        for history in (False, True):
            if history:
                for method, allowed in table.items():
                    for a in allowed:
                        shp = find_shape(a)
                        h.run(method, 'single', {a: value_for(a, shp) if shp is not None else f'vf-{a}'}, False)
            for method, allowed in table.items():
                for a in sorted(allp):
                    if a in allowed:
                        continue
                    before = len(h.s3.calls)
                    err, calls = h.run(method, 'single', {a: 'x'}, False)
                    stats['reject_cells'] += 1
                    keys.add(('reject', method, a, history))
                    if err is None or err[0] != 'submit' or not isinstance(err[1], ValueError):
                        viol.append(V(f'manager.{method}: extra_args name {a!r} is outside the allow-list but was not rejected at call time '
                                      f'({err!r})' + (' after the other methods had been used with it on the same manager' if history else ''),
                                      sym='not-rejected', front_end='manager', method=method, arg=a, after_history=history))
                    if len(h.s3.calls) != before:
                        viol.append(V(f'manager.{method}: requests were issued although {a!r} is not allowed', sym='request-before-reject',
                                      front_end='manager', method=method, arg=a, after_history=history))
    finally:
        h.close()
    return viol, stats, keys


def run_reject_other(case):
    """The other front-ends (legacy S3Transfer.upload_file / download_file, ProcessPoolDownloader.download_file): a name outside the
    method's allow-list is rejected with ValueError before ANY request - also the size-discovery one - is made."""
    import s3transfer
    from s3transfer.constants import ALLOWED_DOWNLOAD_ARGS
    from .. import frontends
    from .c14 import run_api_frontend

    viol = []
    stats = {'reject_cells': 0}
    keys = set()
    allp = set()
    for op in OPS10:
        allp |= set(service_model()[op])
    allp -= {'Bucket', 'Key', 'Body', 'UploadId', 'PartNumber', 'MultipartUpload', 'CopySource', 'Range', 'CopySourceRange'}
    allp |= {'Junk', 'acl', 'Versionid'}
    for fe, method, allowed in (('legacy', 'download', s3transfer.S3Transfer.ALLOWED_DOWNLOAD_ARGS), ('legacy', 'upload', s3transfer.S3Transfer.ALLOWED_UPLOAD_ARGS),
                                ('procpool_full', 'download', ALLOWED_DOWNLOAD_ARGS)):
        for a in sorted(allp):
            if a in allowed:
                continue
            for size in (5, 20):
                shp = find_shape(a)
                spec = {'front_end': fe, 'seed': 1, 'config': dict(multipart_threshold=16, multipart_chunksize=8, **({'max_concurrency': 2} if fe == 'legacy' else {'workers': 2})), 'exit': 'shutdown',
                        'transfers': [{'kind': method, 'dst': 'path', 'size': size, 'extra_args': {a: value_for(a, shp) if shp is not None else 'x'}}]}
                obs = run_api_frontend(spec, size) if method == 'download' else frontends.run_legacy(spec)
                try:
                    x = obs.xfers[0]
                    calls = [c['op'] for c in sorted(obs.world.s3.calls.values(), key=lambda c: c['call_id'])]
                    stats['reject_cells'] += 1
                    keys.add(('reject', fe, method, a, size))
                    exc = x.submit_exc or (x.exc if x.outcome == 'raised' else None)
                    if not isinstance(exc, ValueError):
                        viol.append(V(f'{fe}.{method}: extra_args name {a!r} is outside the allow-list but was not rejected with ValueError ({exc!r})',
                                      sym='not-rejected', front_end=fe, method=method, arg=a))
                    if calls:
                        viol.append(V(f'{fe}.{method}: {calls} issued although {a!r} is not an allowed extra argument (rejection has to come before any '
                                      f'request)', sym='request-before-reject', front_end=fe, method=method, arg=a))
                finally:
                    scenario.cleanup(obs)
    return viol, stats, keys


def run_legacy(case):
    import s3transfer
    from .. import frontends
    from .c14 import run_api_frontend

    viol = []
    stats = {'cells': 0, 'ops_compared': 0}
    keys = set()
    for method, allowed in (('download', s3transfer.S3Transfer.ALLOWED_DOWNLOAD_ARGS), ('upload', s3transfer.S3Transfer.ALLOWED_UPLOAD_ARGS)):
        for a in allowed:
            for mode in ('single', 'multi'):
                shp = find_shape(a)
                extra = {a: value_for(a, shp) if shp is not None else f'vf-{a}'}
                size = 20 if mode == 'multi' else 5
                spec = {'front_end': 'legacy', 'seed': 1, 'config': dict(multipart_threshold=16, multipart_chunksize=8, max_concurrency=2),
                        'transfers': [{'kind': method, 'dst': 'path', 'size': size, 'extra_args': extra}]}
                if method == 'download':
                    obs = run_api_frontend(spec, size)
                else:
                    obs = frontends.run_legacy(spec)
                try:
                    x = obs.xfers[0]
                    calls = [(c['op'], dict(c['params'])) for c in sorted(obs.world.s3.calls.values(), key=lambda c: c['call_id'])]
                    err = None if x.outcome == 'success' else ('result', x.exc)
                    v, n = check_cell('legacy', method, mode, extra, calls, 'when_supported', False, err)
                    viol += v
                    stats['cells'] += 1
                    stats['ops_compared'] += n
                    if n:
                        keys.add(('legacy', method, mode, a))
                finally:
                    scenario.cleanup(obs)
    return viol, stats, keys


def run_procpool(case):
    from s3transfer.constants import ALLOWED_DOWNLOAD_ARGS
    from .c14 import run_api_frontend

    viol = []
    stats = {'cells': 0, 'ops_compared': 0}
    keys = set()
    for a in ALLOWED_DOWNLOAD_ARGS:
        for mode in ('single', 'multi'):
            for expected in (False, True):
                shp = find_shape(a)
                extra = {a: value_for(a, shp)}
                size = 20 if mode == 'multi' else 5
                spec = {'front_end': 'procpool', 'seed': 1, 'config': dict(multipart_threshold=16, multipart_chunksize=8, workers=2),
                        'transfers': [{'kind': 'download', 'dst': 'path', 'size': size, 'extra_args': extra,
                                       'expected_size': size if expected else None}]}
                obs = run_api_frontend(spec, size)
                try:
                    x = obs.xfers[0]
                    calls = [(c['op'], dict(c['params'])) for c in sorted(obs.world.s3.calls.values(), key=lambda c: c['call_id'])]
                    err = None if x.outcome == 'success' else ('result', x.exc)
                    v, n = check_cell('procpool', 'download', mode, extra, calls, 'when_supported', expected, err)
                    viol += v
                    stats['cells'] += 1
                    stats['ops_compared'] += n
                    if n:
                        keys.add(('procpool', 'download', mode, a, expected))
                finally:
                    scenario.cleanup(obs)
    return viol, stats, keys


from ..e2e import debug_logging  # noqa: E402


def run_case(case):
    with debug_logging(case.get('debug_log')):
        r = _run_case(case)
    if case.get('debug_log'):
        r['stats']['debug_log_cells'] = r['stats'].get('cells', 0)
        if r.get('key'):
            r['key'] = 'dbg-' + r['key']
        for v in r['violations']:
            v['mech']['debug_log'] = True
    return r


def _run_case(case):
    t = case['type']
    if t == 'manager':
        viol, stats, keys = run_manager_cells(case)
    elif t == 'pairs':
        viol, stats, keys = run_pairs(case)
    elif t == 'reject':
        viol, stats, keys = run_reject(case)
    elif t == 'reject_other':
        viol, stats, keys = run_reject_other(case)
    elif t == 'legacy':
        viol, stats, keys = run_legacy(case)
    else:
        viol, stats, keys = run_procpool(case)
    import hashlib

    stats['distinct_cells'] = len(keys)
    return {'verdict': 'violated' if viol else 'held', 'key': hashlib.sha1(repr(sorted(map(repr, keys))).encode()).hexdigest()[:16] if keys else None,
            'violations': viol, 'stats': stats, 'summary': {'type': t, 'cells': len(keys), 'sample': [repr(k) for k in sorted(map(repr, keys))[:3]]}}
