"""C20 — CRT manager glue: one permit per transfer, ordered completion, temp cleanup."""
import itertools
import os
import random
import shutil
import tempfile
import threading
import time

from .. import scenario, watchdog
from ..events import EventLog, trim
from ..oracles import V

PROPERTY = 'C20'
LEVEL = 'exploration'
EXHAUSTIVE = {'quick': False, 'thorough': False}
RULE = ('the real CRTTransferManager Python layer against a stub awscrt (the native library is absent) whose client honours the '
        'documented contract (on_done(error) once, then finished_future resolves): sequences of upload / download (path or stream) / '
        'delete submissions whose requests succeed, fail, are cancelled, fail in the request serializer or in make_request; (enum) '
        'every outcome assignment over {ok, error, cancel, serialize-fail, make-fail} for <= 3 (quick) / 4 (thorough) transfers x '
        'completion orders {fifo, reverse, seeded}; (rand) up to 300 transfers with far more transfers than permits (counting '
        'semaphore substituted for the fixed Semaphore(128), sizes 1..3 and 128), completions delivered from stub CRT threads in '
        'arbitrary order, exits through shutdown(), shutdown(cancel=True), with-block, with-block + exception, with some requests '
        'still pending and a subscriber on_done that is slow (raising subscribers are outside the statement and not generated).  Oracle: exactly one permit release per submitted transfer (attributed '
        'through the completing/submitting thread), semaphore back at its initial value at quiescence and never above it, release '
        'only after every subscriber on_done returned, on_queued/on_done exactly once, path downloads renamed on success and temp '
        'removed otherwise, result() outcome matches, exit returns only after every on_done chain finished; plus one-preemption line windows over the glue in crt.py and path downloads whose destination name is an existing directory (request succeeds, rename fails); non-trivial = at least one '
        'non-ok outcome or more transfers than permits; distinct = distinct specs')
ASSUMPTIONS = ['whether the real awscrt honours the callback contract is outside this repository',
               'CRTTransferManager(osutil=...) is not used: its constructor only sets _osutil when osutil is None (observed, not part of C20)']
CASE_TIMEOUT = 180.0
OUTCOMES = ['ok', 'error', 'cancel', 'serialize_fail', 'make_fail', 'queued_fail', 'reject']
LAMBDA_ARN = 'arn:aws:s3-object-lambda:us-west-2:123456789012:accesspoint/vf-ap'


def bkt_of(t):
    """'reject': a call the manager refuses at call time (an S3 Object Lambda access point as bucket); the caller carries on."""
    return LAMBDA_ARN if t['outcome'] == 'reject' else 'bkt'


class CountingSemaphore:
    def __init__(self, n, log):
        self.n0 = n
        self.value = n
        self.cv = threading.Condition()
        self.acquires = 0
        self.refused = 0
        self.releases = 0
        self.max_value = n
        self.log = log

    def acquire(self, blocking=True, timeout=None):
        # the threading.Semaphore contract: a non-blocking acquire on an exhausted semaphore returns False at once
        with self.cv:
            if not blocking and self.value == 0:
                self.refused += 1
                return False
            while self.value == 0:
                self.cv.wait()
            self.value -= 1
            self.acquires += 1
        return True

    def release(self, n=1):
        with self.cv:
            self.value += n
            self.releases += 1
            self.max_value = max(self.max_value, self.value)
            self.cv.notify()


class Sub:
    def __init__(self, run, idx, name, raise_on_done=False, slow=False, raise_on_queued=False, chain=None):
        self.run, self.idx, self.name, self.raise_on_done, self.slow = run, idx, name, raise_on_done, slow
        self.raise_on_queued = raise_on_queued
        self.chain = chain

    def on_queued(self, future, **kw):
        self.run.log.add('cb.on_queued', idx=self.idx, sub=self.name)
        if self.raise_on_queued:
            raise RuntimeError(f'vf-on_queued-raises-{self.idx}')

    def on_progress(self, future, bytes_transferred, **kw):
        self.run.log.add('cb.on_progress', idx=self.idx, sub=self.name, nbytes=bytes_transferred)

    def on_done(self, future, **kw):
        self.run.log.add('cb.on_done', idx=self.idx, sub=self.name)
        if self.slow:
            ev = threading.Event()
            with self.run.slow_lock:
                self.run.slow_waiting.append(ev)
            ev.wait(20)
        if self.chain is not None:
            self.chain(self.idx)  # a follow-up transfer started on the same manager from inside the callback
        if self.raise_on_done:
            self.run.log.add('cb.on_done.ret', idx=self.idx, sub=self.name, raised=True)
            raise RuntimeError('vf-on_done-raises')
        self.run.log.add('cb.on_done.ret', idx=self.idx, sub=self.name)


class Run:
    pass


def run_spec(spec):
    from .. import crtstub

    crt = crtstub.install()
    rng = random.Random(spec['seed'])
    run = Run()
    run.log = log = EventLog()
    tls = threading.local()
    tmp = tempfile.mkdtemp(prefix='vf-crt-', dir=scenario.scratch_root())
    ts = spec['transfers']
    ser_fail = {i for i, t in enumerate(ts) if t['outcome'] == 'serialize_fail'}
    make_fail = {i for i, t in enumerate(ts) if t['outcome'] == 'make_fail'}
    client = crtstub.StubCRTClient(log, tls, fail_make=make_fail)

    class Ser(crt.BaseCRTRequestSerializer):
        def serialize_http_request(self, transfer_type, future):
            idx = getattr(tls, 'submitting', None)
            if idx in ser_fail:
                raise RuntimeError(f'vf-serialize-failure-{idx}')
            return object()

        def translate_crt_exception(self, exception):
            return None

    mgr = crt.CRTTransferManager(client, Ser())
    sem = CountingSemaphore(spec.get('permits', 3), log)
    mgr._semaphore = sem
    releases = {}
    orig_rel = mgr._release_semaphore

    def path_state(i):
        # (temporary files present, destination file present) for a path download, else None
        p = dests.get(i)
        if not isinstance(p, str):
            return None
        base = os.path.basename(p)
        try:
            names = os.listdir(tmp)
        except OSError:
            return None
        return ([n for n in names if n.startswith(base + '.') and scenario.TEMP_RE.search(n)], os.path.isfile(p))

    def counted_release(**kw):
        idx = getattr(tls, 'completing', None)
        if idx is None:
            idx = getattr(tls, 'submitting', None)
        releases[idx] = releases.get(idx, 0) + 1
        log.add('sem.release', idx=idx)
        try:
            return orig_rel(**kw)
        finally:
            log.add('sem.released', idx=idx)

    # the moment a transfer is reported as having finished its done callbacks: publishing / removing the temporary file of a path
    # download is one of those callbacks
    orig_report = crt.CRTTransferCoordinator.set_done_callbacks_complete

    def reporting(self_c):
        # (which transfer: from the harness's own thread context, as for the permit releases - the manager's transfer ids are its
        # own numbering, which skips calls it refuses)
        idx = getattr(tls, 'completing', None)
        if idx is None:
            idx = getattr(tls, 'submitting', None)
        log.add('done.report', idx=idx, path_state=path_state(idx), transfer_id=self_c.transfer_id)
        return orig_report(self_c)

    crt.CRTTransferCoordinator.set_done_callbacks_complete = reporting
    run.restore = lambda: setattr(crt.CRTTransferCoordinator, 'set_done_callbacks_complete', orig_report)

    mgr._release_semaphore = counted_release
    run.slow_waiting = []
    run.slow_lock = threading.Lock()
    run.delivering = 0  # completions being delivered right now (the delivering thread counts as a library thread meanwhile)
    futures = {}
    datas = {}
    dests = {}
    prevs = {}
    submit_exc = {}
    sub_done = threading.Event()
    exit_began = threading.Event()

    def tspec(idx):
        # (chained follow-up transfers, numbered from 1000, are plain successful deletes)
        return ts[idx] if isinstance(idx, int) and idx < len(ts) else {'outcome': 'ok', 'kind': 'delete'}

    chained = run.chained = {}

    def chain(i):
        j = 1000 + i
        old = getattr(tls, 'submitting', None)
        tls.submitting = j
        log.add('submit.begin', idx=j, chained=True)
        try:
            chained[j] = mgr.delete('bkt', f'chained-{i}', subscribers=[Sub(run, j, 's0')])
        except BaseException as e:  # noqa
            chained[j] = e
        finally:
            tls.submitting = old
        log.add('submit.end', idx=j)

    def submit_all():
        try:
            for i, t in enumerate(ts):
                tls.submitting = i
                data = bytes(rng.randrange(256) for _ in range(t.get('size', 10)))
                datas[i] = data
                nsub = t.get('subs', 1)
                subs = [Sub(run, i, f's{k}', raise_on_done=(t.get('raise_on_done') and k == 0), slow=(t.get('slow') and k == 0),
                            raise_on_queued=(t['outcome'] == 'queued_fail' and k == nsub - 1), chain=(chain if t.get('chain') and k == 0 else None))
                        for k in range(nsub)]
                log.add('submit.begin', idx=i)
                try:
                    if t['kind'] == 'upload':
                        if t.get('src', 'path') == 'path':
                            p = os.path.join(tmp, f'src-{i}')
                            with open(p, 'wb') as f:
                                f.write(data)
                            futures[i] = mgr.upload(p, bkt_of(t), f'key-{i}', subscribers=subs)
                        else:
                            import io

                            futures[i] = mgr.upload(io.BytesIO(data), bkt_of(t), f'key-{i}', subscribers=subs)
                    elif t['kind'] == 'download':
                        if t.get('dst', 'path') == 'path':
                            p = os.path.join(tmp, f'dst-{i}')
                            if t.get('dst_is_dir'):
                                # the destination name is an existing non-empty directory: the request can succeed, the final rename cannot
                                os.mkdir(p)
                                with open(os.path.join(p, 'keep'), 'wb') as f:
                                    f.write(b'k')
                            elif t.get('preexisting'):
                                prevs[i] = b'previous-' + str(i).encode()
                                with open(p, 'wb') as f:
                                    f.write(prevs[i])
                            dests[i] = p
                            futures[i] = mgr.download(bkt_of(t), f'key-{i}', p, subscribers=subs)
                        else:
                            import io

                            dests[i] = io.BytesIO()
                            futures[i] = mgr.download(bkt_of(t), f'key-{i}', dests[i], subscribers=subs)
                    else:
                        futures[i] = mgr.delete(bkt_of(t), f'key-{i}', subscribers=subs)
                except BaseException as e:  # noqa
                    submit_exc[i] = e
                log.add('submit.end', idx=i, error=repr(submit_exc.get(i)) if i in submit_exc else None)
                if t['outcome'] == 'cancel' and i in futures:
                    log.add('cancel.begin', idx=i)
                    futures[i].cancel()
                    log.add('cancel.end', idx=i)
                if t.get('poll') and i in futures:
                    # the caller polls the transfer with a short timeout while it is (most likely) still in flight
                    try:
                        futures[i].result(timeout=0.0005)
                        log.add('poll.result', idx=i, exc=None)
                    except BaseException as e:  # noqa
                        log.add('poll.result', idx=i, exc=repr(e)[:80])
        finally:
            tls.submitting = None
            sub_done.set()

    def inline_hook(r):
        t = tspec(r.idx)
        if t.get('inline') and t['outcome'] in ('ok', 'error'):
            return ('ok' if t['outcome'] == 'ok' else 'error', datas.get(r.idx, b''))
        return None

    client.inline_hook = inline_hook
    order = spec.get('order', 'fifo')
    stop = threading.Event()
    crng = random.Random(spec['seed'] + 1)

    def completer():
        while not stop.is_set():
            # (a harness poller only while it looks for something to complete: the delivery itself runs the library's done chain on
            # this thread, which then counts like any library thread - and the harness owes the delivery until it has returned)
            with watchdog.polling():
                with client.lock:
                    pend = [r for r in client.requests if not r.completed]
                avail = [r for r in pend if not (tspec(r.idx).get('hold') and not exit_began.is_set())]
                if not avail:
                    time.sleep(0.0005)
                    continue
                # choose at quiescence so that the choice is among everything that could be submitted under the permit limit
                if not watchdog.quiescent():
                    continue
                with client.lock:
                    pend = [r for r in client.requests if not r.completed]
                avail = [r for r in pend if not (tspec(r.idx).get('hold') and not exit_began.is_set())]
                if not avail:
                    continue
                if order == 'fifo':
                    r = avail[0]
                elif order == 'reverse':
                    r = avail[-1]
                else:
                    r = crng.choice(avail)
                with run.slow_lock:
                    run.delivering += 1
            try:
                o = tspec(r.idx)['outcome']
                # half of the failing / cancelled path downloads fail before the CRT has created its receive file
                r.no_partial_file = (spec['seed'] + r.idx) % 2 == 0
                client.complete(r, 'ok' if o == 'ok' else 'error', datas.get(r.idx, b''))
            finally:
                with run.slow_lock:
                    run.delivering -= 1

    if spec.get('prior_exit'):
        # the manager has been through an exit before (an earlier batch of work that is over: here an empty one) and is used again
        try:
            if spec['prior_exit'] == 'with':
                with mgr:
                    pass
            else:
                mgr.shutdown()
        except BaseException as e:  # noqa
            log.add('prior_exit.raised', exc=repr(e))
    sth = threading.Thread(target=submit_all, name='vf-crt-submit', daemon=True)
    cths = [threading.Thread(target=completer, name=f'vf-crt-thread{k}', daemon=True) for k in range(spec.get('crt_threads', 1))]
    sth.start()
    for c in cths:
        c.start()
    hang = None
    stacks = None
    exit_exc = [None]
    mode = spec.get('exit', 'shutdown')

    def leave():
        # any transfer with 'hold' is still pending when the exit begins
        log.add('shutdown.begin', mode=mode)
        exit_began.set()
        try:
            if mode == 'shutdown':
                mgr.shutdown()
            elif mode == 'shutdown_cancel':
                mgr.shutdown(cancel=True)
            elif mode == 'with':
                with mgr:
                    pass
            elif mode == 'with_exc':
                try:
                    with mgr:
                        raise ValueError('vf-with-exc')
                except ValueError:
                    pass
        except BaseException as e:  # noqa
            exit_exc[0] = e
        # what the file system looks like at the moment the exit returns
        log.add('shutdown.end', path_states={i: path_state(i) for i in list(dests)})

    def await_(pred, what):
        nonlocal hang, stacks
        def owes():
            # a request the stub CRT could complete right now has not been completed yet: the harness, not the library, is behind
            with client.lock:
                pend = [r for r in client.requests if not r.completed]
            if any(not (tspec(r.idx).get('hold') and not exit_began.is_set()) for r in pend):
                return True
            with run.slow_lock:
                # ... or a slow on_done is waiting for the harness to let it return
                return bool(run.slow_waiting)

        r = watchdog.await_or_deadlock(pred, None, log, wall_timeout=40.0, harness_busy=owes)
        if r != 'done':
            hang = (r, what)
            stacks = watchdog.all_stacks()
        return r == 'done'

    stop_slow = threading.Event()

    def slow_releaser():
        # a slow on_done simply pauses until everybody else is stuck or idle (process quiescent), then returns
        with watchdog.polling():
            while not stop_slow.is_set():
                with run.slow_lock:
                    waiting = list(run.slow_waiting)
                if waiting and watchdog.quiescent():
                    with run.slow_lock:
                        ev = run.slow_waiting.pop(0) if run.slow_waiting else None
                    if ev is not None:
                        log.add('slow.release')
                        ev.set()
                else:
                    time.sleep(0.001)

    threading.Thread(target=slow_releaser, name='vf-slow-releaser', daemon=True).start()
    ok = await_(sub_done.is_set, 'submit')
    if ok:
        ob = watchdog.Obligation(leave, 'exit').start()
        ok = await_(ob.done.is_set, 'exit')
    stop_slow.set()
    with run.slow_lock:
        for ev in run.slow_waiting:
            ev.set()
    outcomes = {}
    if ok:
        for i, f in futures.items():
            o = watchdog.Obligation(lambda f=f: f.result(), f'result-{i}').start()
            if not await_(o.done.is_set, f'result-{i}'):
                ok = False
                break
            outcomes[i] = ('raised', o.exc) if o.exc is not None else ('success', None)
    if ok:
        with watchdog.polling():
            watchdog.wait_quiescent(3.0)
    stop.set()
    run.events = log.snapshot()
    run.tmp, run.sem, run.releases, run.futures, run.outcomes = tmp, sem, releases, futures, outcomes
    run.datas, run.dests, run.prevs, run.submit_exc, run.hang, run.stacks, run.exit_exc = datas, dests, prevs, submit_exc, hang, stacks, exit_exc[0]
    run.client = client
    return run


def evaluate(spec, run):
    viol = []
    ts = spec['transfers']
    ev = run.events
    mech0 = {'exit': spec.get('exit', 'shutdown')}
    stats = {'transfers': len(ts), 'permits': spec.get('permits', 3), 'sem_acquires': run.sem.acquires, 'sem_releases': run.sem.releases,
             'requests_made': len(run.client.requests), 'non_ok': len([t for t in ts if t['outcome'] != 'ok'])}
    se = [e['n'] for e in ev if e['kind'] == 'shutdown.end']
    for i, t in enumerate(ts):
        m = dict(mech0, outcome=t['outcome'], kind=t['kind'])
        began = [e for e in ev if e['kind'] == 'submit.begin' and e['idx'] == i]
        if not began:
            continue
        n_rel = run.releases.get(i, 0)
        if t['outcome'] == 'reject':
            # refused at call time with ValueError: nothing of it may linger (no permit taken, no callback, no request)
            e = run.submit_exc.get(i)
            if not isinstance(e, ValueError):
                viol.append(V(f'transfer {i} ({t["kind"]}): a bucket the manager does not support was not rejected with ValueError at call time ({e!r})',
                              sym='not-rejected', **m))
            if n_rel:
                viol.append(V(f'transfer {i} ({t["kind"]}, rejected call): {n_rel} permit releases', sym='release-count', count=n_rel, **m))
            continue
        if n_rel != 1:
            viol.append(V(f'transfer {i} ({t["kind"]}, {t["outcome"]}): {n_rel} permit releases', sym='release-count', count=n_rel, **m))
        rel = [e['n'] for e in ev if e['kind'] == 'sem.release' and e['idx'] == i]
        dn_ret = [e['n'] for e in ev if e['kind'] == 'cb.on_done.ret' and e['idx'] == i]
        dn = [e for e in ev if e['kind'] == 'cb.on_done' and e['idx'] == i]
        q = [e for e in ev if e['kind'] == 'cb.on_queued' and e['idx'] == i]
        nsubs = t.get('subs', 1)
        if len(q) != nsubs:
            viol.append(V(f'transfer {i}: on_queued ran {len(q)} times for {nsubs} subscriber(s)', sym='on_queued-count', **m))
        if len(dn) != nsubs and not t.get('raise_on_done'):
            viol.append(V(f'transfer {i} ({t["outcome"]}): on_done ran {len(dn)} times for {nsubs} subscriber(s)', sym='on_done-count', **m))
        if rel and dn_ret and min(rel) < max(dn_ret) and not t.get('raise_on_done'):
            viol.append(V(f'transfer {i}: permit released before the last subscriber on_done returned', sym='release-before-on_done', **m))
        if se and dn_ret and max(dn_ret) > se[0]:
            viol.append(V(f'transfer {i}: {spec.get("exit")} returned before its on_done callbacks finished', sym='exit-before-on_done', **m))
        released = [e['n'] for e in ev if e['kind'] == 'sem.released' and e['idx'] == i]
        if se and released and max(released) > se[0]:
            # (giving the permit back is one of the transfer's done callbacks)
            viol.append(V(f'transfer {i}: {spec.get("exit")} returned while the transfer still held its concurrency permit (the done callback that gives it '
                          f'back had not finished)', sym='exit-before-release', **m))
        if se and not dn and not t.get('raise_on_done'):
            pass
        # outcome
        oc = run.outcomes.get(i)
        if i in run.submit_exc:
            viol.append(V(f'transfer {i}: submission itself raised {run.submit_exc[i]!r}', sym='submit-raised', **m))
        elif oc is not None:
            if t.get('dst_is_dir'):
                if oc[0] == 'success':
                    viol.append(V(f'transfer {i}: the temporary file could not be renamed onto a directory but result() returned normally', sym='false-success', **m))
            elif t['outcome'] == 'ok' and oc[0] != 'success' and spec.get('exit') not in ('shutdown_cancel', 'with_exc'):
                viol.append(V(f'transfer {i}: request succeeded but result() raised {oc[1]!r}', sym='false-failure', **m))
            if t['outcome'] != 'ok' and oc[0] == 'success':
                viol.append(V(f'transfer {i}: request outcome {t["outcome"]} but result() returned normally', sym='false-success', **m))
        # path downloads: published (or cleaned up) by the time the permit is released and by the time the exit returns
        if t['kind'] == 'download' and t.get('dst', 'path') == 'path' and i in run.dests and not t.get('dst_is_dir'):
            for e in ev:
                if e['kind'] == 'done.report' and e['idx'] == i and e.get('path_state') and e['path_state'][0]:
                    viol.append(V(f'transfer {i} (download to path, {t["outcome"]}): temporary file {e["path_state"][0]} still present when the '
                                  f'transfer was reported as having finished its done callbacks', sym='temp-at-done-report', **m))
                if e['kind'] == 'shutdown.end' and (e.get('path_states') or {}).get(i) and e['path_states'][i][0] and began[0]['n'] < e['n']:
                    viol.append(V(f'transfer {i} (download to path, {t["outcome"]}): temporary file {e["path_states"][i][0]} still present when '
                                  f'{spec.get("exit")} returned', sym='temp-at-exit', **m))
        if t['kind'] == 'download' and t.get('dst', 'path') == 'path' and i in run.dests:
            p = run.dests[i]
            base = os.path.basename(p)
            left = [n for n in os.listdir(run.tmp) if n.startswith(base + '.') and scenario.TEMP_RE.search(n)]
            if left:
                viol.append(V(f'transfer {i} (download to path, {t["outcome"]}): temporary file {left} left behind', sym='temp-left', **m))
            if t.get('dst_is_dir'):
                if not os.path.isdir(p) or os.listdir(p) != ['keep']:
                    viol.append(V(f'transfer {i}: the directory at the destination name was changed', sym='dest-changed', **m))
                continue
            cur = open(p, 'rb').read() if os.path.exists(p) else None
            if oc is not None and oc[0] == 'success' and cur != run.datas[i]:
                viol.append(V(f'transfer {i}: successful path download but destination is {None if cur is None else len(cur)} bytes',
                              sym='not-renamed', **m))
            if oc is not None and oc[0] == 'raised' and cur != run.prevs.get(i):
                viol.append(V(f'transfer {i}: failed path download changed the destination', sym='dest-changed', **m))
    for j, f in getattr(run, 'chained', {}).items():
        stats['chained'] = stats.get('chained', 0) + 1
        dn_ret = [e['n'] for e in ev if e['kind'] == 'cb.on_done.ret' and e['idx'] == j]
        if isinstance(f, BaseException):
            continue  # refused at call time (e.g. the manager was already shut down): nothing to wait for
        if not dn_ret:
            viol.append(V(f'transfer {j} (started from an on_done callback of transfer {j - 1000} before {spec.get("exit")} returned): its on_done never '
                          f'ran', sym='on_done-count', chained=True, **mech0))
        elif se and max(dn_ret) > se[0]:
            viol.append(V(f'transfer {j} (started from an on_done callback while {spec.get("exit")} was waiting): {spec.get("exit")} returned before its '
                          f'on_done callbacks finished', sym='exit-before-on_done', chained=True, **mech0))
        if run.releases.get(j, 0) != 1:
            viol.append(V(f'transfer {j} (chained delete): {run.releases.get(j, 0)} permit releases', sym='release-count', chained=True, **mech0))
    if run.sem.value != run.sem.n0:
        viol.append(V(f'semaphore value {run.sem.value} at quiescence, initial {run.sem.n0} (acquires {run.sem.acquires}, releases '
                      f'{run.sem.releases})', sym='semaphore-value', leaked=run.sem.value < run.sem.n0, **mech0))
    if run.sem.max_value > run.sem.n0:
        viol.append(V(f'semaphore value rose to {run.sem.max_value}, above its initial {run.sem.n0}', sym='over-release', **mech0))
    if run.exit_exc is not None:
        viol.append(V(f'{spec.get("exit")} raised {run.exit_exc!r}', sym='exit-raised', **mech0))
    return viol, stats


def gen_cases(tier, seed):
    rng = random.Random(seed)
    quick = tier == 'quick'
    cases = []
    kinds = [('upload', {'src': 'path'}), ('upload', {'src': 'stream'}), ('download', {'dst': 'path'}), ('download', {'dst': 'stream'}),
             ('delete', {})]
    nmax = 3 if quick else 4
    for n in range(1, nmax + 1):
        for combo in itertools.product(OUTCOMES, repeat=n):
            for order in ('fifo', 'reverse', 'seeded'):
                if n >= 3 and quick and order == 'seeded':
                    continue
                ts = []
                for o in combo:
                    k, extra = rng.choice(kinds)
                    t = dict({'kind': k, 'outcome': o, 'size': rng.choice([0, 5, 40]), 'subs': rng.choice([1, 2])}, **extra)
                    if k == 'download' and extra['dst'] == 'path':
                        t['preexisting'] = rng.random() < 0.4
                        if rng.random() < 0.15:
                            t['dst_is_dir'] = True
                    ts.append(t)
                cases.append({'seed': rng.randrange(1 << 30), 'permits': rng.choice([1, 2, 3]), 'transfers': ts, 'order': order,
                              'exit': rng.choice(['shutdown', 'with'])})
    # exits with pending requests, slow on_done, raising on_done
    for i in range(120 if quick else 1000):
        n = rng.randint(1, 6)
        ts = []
        for j in range(n):
            k, extra = rng.choice(kinds)
            t = dict({'kind': k, 'outcome': rng.choice(OUTCOMES + ['ok', 'ok']), 'size': rng.choice([0, 5, 40]), 'subs': rng.choice([1, 2, 3])}, **extra)
            if k == 'download' and extra['dst'] == 'path' and rng.random() < 0.2:
                t['dst_is_dir'] = True
            ts.append(t)
        permits = rng.choice([1, 2, 3, 128])
        # requests still pending when the exit begins: fewer than the permits, or the submitter itself could not finish
        cand = [t for t in ts if t['outcome'] in ('ok', 'error')]
        rng.shuffle(cand)
        for t in cand[:min(len(cand), permits - 1, 2)]:
            t['hold'] = True
        if rng.random() < 0.5:
            rng.choice(ts)['slow'] = True
        ex = rng.choice(['shutdown', 'shutdown_cancel', 'with', 'with_exc'])
        cases.append({'seed': rng.randrange(1 << 30), 'permits': permits, 'transfers': ts, 'order': rng.choice(['fifo', 'reverse', 'seeded']),
                      'exit': ex, 'crt_threads': rng.choice([1, 2, 3])})
    # follow-up transfers: an on_done subscriber starts another transfer on the same manager (delete the source after a download ...)
    # while the exit is already waiting - one of the held requests is only completed once the exit has begun; the exit has to wait
    # for the follow-up too
    for i in range(60 if quick else 600):
        n = rng.randint(1, 3)
        ts = []
        for j in range(n):
            k, extra = rng.choice(kinds)
            ts.append(dict({'kind': k, 'outcome': rng.choice(['ok', 'ok', 'error']), 'size': rng.choice([0, 5, 40]), 'subs': rng.choice([1, 2])}, **extra))
        tc = rng.choice(ts)
        tc['chain'] = True
        tc['hold'] = True  # completed only after the exit has begun
        cases.append({'seed': rng.randrange(1 << 30), 'permits': rng.choice([8, 128]), 'transfers': ts, 'order': rng.choice(['fifo', 'reverse', 'seeded']),
                      'exit': rng.choice(['shutdown', 'with']), 'crt_threads': rng.choice([1, 2, 3]), 'family': 'chained'})
    # many more transfers than permits
    for i in range(6 if quick else 40):
        n = rng.choice([40, 150, 300]) if not quick else rng.choice([40, 150])
        ts = []
        for j in range(n):
            k, extra = rng.choice(kinds)
            ts.append(dict({'kind': k, 'outcome': rng.choice(OUTCOMES + ['ok'] * 5), 'size': 5, 'subs': 1}, **extra))
        cases.append({'seed': rng.randrange(1 << 30), 'permits': rng.choice([2, 3, 128]), 'transfers': ts, 'order': 'seeded',
                      'exit': rng.choice(['shutdown', 'with']), 'crt_threads': rng.choice([1, 3])})
    # one preemption at every statement of the glue (coordinator, future, submit / shutdown paths, completion callbacks, temp-file
    # handler): the nth thread reaching the line is held until every other thread (stub CRT threads, submitter, exit) has run
    # as far as it can
    from .. import crtstub, yieldinj

    crtstub.install()
    import s3transfer.crt  # noqa: F401

    lines = [l for l in yieldinj.all_lines(['crt.py'])
             if l[2].startswith(('CRTTransferCoordinator.', 'CRTTransferFuture.', 'CRTTransferManager._submit_transfer', 'CRTTransferManager._shutdown',
                                 'CRTTransferManager._cancel_transfers', 'CRTTransferManager._finish_transfers', 'CRTTransferManager._wait_transfers_done',
                                 'CRTTransferManager._release_semaphore', 'CRTTransferManager.__exit__', 'RenameTempFileHandler.__call__',
                                 'S3ClientArgsCreator.get_crt_callback', 'S3ClientArgsCreator.get_make_request_args', 'S3ClientArgsCreator._get_make_request_args',
                                 'S3ClientArgsCreator._default_get_make_request_args', 'OnBodyFileObjWriter.__call__'))
             and not l[2].endswith('__init__')]
    for line in lines:
        for nth in ((0, 1) if quick else (0, 1, 2, 4)):
            for rep in range(1 if quick else 3):
                n = rng.randint(2, 5)
                ts = []
                for j in range(n):
                    k, extra = rng.choice(kinds)
                    ts.append(dict({'kind': k, 'outcome': rng.choice(OUTCOMES + ['ok', 'ok']), 'size': rng.choice([0, 5, 40]), 'subs': rng.choice([1, 2])}, **extra))
                cases.append({'seed': rng.randrange(1 << 30), 'permits': rng.choice([1, 2, 3]), 'transfers': ts, 'order': rng.choice(['fifo', 'reverse', 'seeded']),
                              'exit': rng.choice(['shutdown', 'shutdown_cancel', 'with', 'with_exc']), 'crt_threads': rng.choice([2, 3]),
                              'window': {'file': 'crt.py', 'line': line[1], 'nth': nth, 'action': 'pause', 'name': f'crt.py:{line[1]}:{line[2]}', 'wait': 0.2}})
    # the exit as a barrier when the manager's own result() loop ended early: the FIRST transfer fails (the loop stops there), the later
    # ones complete while the exit waits for their done callbacks, and the completing thread is held at each statement of the done chain
    # until everything else - the waiting exit included - has run as far as it can
    chain = [l for l in yieldinj.all_lines(['crt.py'])
             if l[2].startswith(('CRTTransferManager._release_semaphore', 'AfterDoneHandler.__call__', 'CRTTransferCoordinator.set_done_callbacks_complete',
                                 'S3ClientArgsCreator.get_crt_callback', 'RenameTempFileHandler.__call__'))]
    for line in chain:
        for nth in ((0, 1, 2) if quick else (0, 1, 2, 3, 4, 5)):
            for rep in range(1 if quick else 3):
                n = rng.randint(2, 4)
                k0, e0 = rng.choice(kinds)
                ts = [dict({'kind': k0, 'outcome': rng.choice(['error', 'error', 'serialize_fail', 'make_fail', 'cancel']), 'size': 5, 'subs': 1}, **e0)]
                for j in range(n - 1):
                    k, extra = rng.choice(kinds)
                    ts.append(dict({'kind': k, 'outcome': 'ok', 'size': rng.choice([5, 40]), 'subs': rng.choice([1, 2])}, **extra))
                    if rng.random() < 0.4:
                        ts[-1]['poll'] = True  # result(timeout=...) that times out before the exit
                cases.append({'seed': rng.randrange(1 << 30), 'permits': n + 1, 'transfers': ts, 'order': 'fifo', 'family': 'exit-barrier',
                              'exit': rng.choice(['shutdown', 'with']), 'crt_threads': rng.choice([2, 3]),
                              'window': {'file': 'crt.py', 'line': line[1], 'nth': nth, 'action': 'pause', 'name': f'crt.py:{line[1]}:{line[2]}', 'wait': 0.2}})
    # a manager that has already been through an exit and is used again
    for c in cases:
        if not c.get('window') and rng.random() < 0.1:
            c['prior_exit'] = rng.choice(['shutdown', 'with'])
    # requests that complete BEFORE make_request() returns (the done chain runs inside the submitting call)
    for c in cases:
        if c.get('window') or c.get('family'):
            continue
        for t in c['transfers']:
            if isinstance(t, dict) and t.get('outcome') in ('ok', 'error') and not t.get('hold') and rng.random() < 0.12:
                t['inline'] = True
    rng.shuffle(cases)
    return cases


def run_case(case):
    import hashlib
    import json

    inj = None
    if case.get('window'):
        from .. import yieldinj

        inj = yieldinj.Injector(p=0.0, seed=case['seed'], files=['crt.py'], windows=[case['window']]).install()
    try:
        run = run_spec(case)
    finally:
        if inj is not None:
            inj.uninstall()
    window_hit = bool(inj.window_hits) if inj is not None else None
    try:
        if run.hang is not None:
            viol = []
            if run.hang[0] == 'deadlock':
                from .. import e2e

                viol = [V(f'CRT manager glue deadlocked in "{run.hang[1]}": blocked in {e2e.lib_frames(run.stacks)}', sym='deadlock',
                          exit=case.get('exit'), blocked_call=run.hang[1].split('-')[0])]
            return {'verdict': 'violated' if viol else 'inconclusive', 'key': None, 'violations': viol, 'stats': {'hang_' + run.hang[0]: 1},
                    'summary': {'hang': run.hang, 'tail': [trim(e) for e in run.events[-20:]]}, 'fatal': True}
        viol, stats = evaluate(case, run)
        if window_hit is not None:
            stats['window_cases'] = 1
            stats['window_hits'] = 1 if window_hit else 0
        nontrivial = stats['non_ok'] > 0 or len(case['transfers']) > case.get('permits', 3)
        key = hashlib.sha1(json.dumps(case, sort_keys=True).encode()).hexdigest()[:16] if nontrivial else None
        res = {'verdict': 'violated' if viol else 'held', 'key': key, 'violations': viol[:8], 'stats': stats,
               'summary': {'n': len(case['transfers']), 'exit': case.get('exit'), 'permits': case.get('permits'),
                           'outcomes': {str(i): (o[0], repr(o[1])[:60]) for i, o in list(run.outcomes.items())[:6]}}}
        if viol:
            res['trace'] = [trim(e) for e in run.events[:200]]
        return res
    finally:
        if getattr(run, 'restore', None):
            run.restore()
        shutil.rmtree(run.tmp, ignore_errors=True)
