"""C14 — part planning tiles the object and respects S3 limits."""
import math
import os
import random
import tempfile

from .. import scenario
from ..oracles import V

PROPERTY = 'C14'
LEVEL = 'exploration'
EXHAUSTIVE = {'quick': False, 'thorough': True}
RULE = ('real transfers against the API-level fake (requests short-circuited at before-call, bodies never read, sizes virtual): '
        '(scaled) EVERY (size 0..64, threshold 1..16, chunksize 1..16) for uploads from a path, copies and downloads with the minimum '
        'part size patched to 1 (thorough: all 16x16 pairs; quick: a seeded third of them, all sizes), checking the exact tiling; '
        '(real scale) sizes from {0, 1, 5 MiB+-1, 8 MiB+-1, k*chunk+-1, 10000*chunk+-1, 5 GiB+-1, 50 GiB, 5 TiB-1, 5 TiB} x chunk sizes '
        '{1, 5 MiB-1, 5 MiB, 8 MiB, 64 MiB, 5 GiB, 5 GiB+1, 6 GiB} x thresholds, incl. float-rounding edges k*p+1 for large k, through '
        'TransferManager.upload (virtual-size path source), copy and download, and downloads through legacy S3Transfer and the '
        'process-pool submitter; oracle over the request log (integers only): multipart iff size >= threshold; Range / CopySourceRange '
        '/ part body lengths consecutive from byte 0 to size-1 with part numbers 1..n; for uploads/copies effective part size in '
        '[5 MiB, 5 GiB], n <= 10000, and a chunk size differing from the configured one only when a limit required it; also history sequences: mixed kinds one after the other on ONE manager, starting with transfers whose part size must be adjusted, each later plan judged against the configured values; non-trivial = '
        'a multipart/ranged plan with >= 2 parts was checked; distinct = distinct (kind, front-end, size, threshold, chunksize)')
ASSUMPTIONS = ['non-seekable streams of unknown size cannot be planned (only limit-adjusted); n <= 10000 for them would need > 48 GiB '
               'of streamed data and is not exercised',
               'upload part offsets are checked through lengths here and byte-for-byte in C01']
CASE_TIMEOUT = 600.0
MB = 1024 * 1024
GB = 1024 * MB
TB = 1024 * GB
MIN_P, MAX_P, MAX_N = 5 * MB, 5 * GB, 10000


def parse_range(r):
    a, _, b = r.split('=')[1].partition('-')
    return int(a), (int(b) if b != '' else None)


def check_plan(kind, fe, size, T, C, calls, scaled):
    """calls: list of (op, params, body_len) in issue order for one transfer."""
    out = []
    ctx = f'{fe} {kind} size={size} threshold={T} chunksize={C}'
    mech = {'kind': kind, 'front_end': fe, 'scaled': scaled}
    ops = [c[0] for c in calls]
    want_multi = size >= T
    if kind == 'download':
        gets = [c for c in calls if c[0] == 'GetObject']
        ranged = [g for g in gets if g[1].get('Range')]
        is_multi = bool(ranged)
        if is_multi != want_multi:
            return [V(f'{ctx}: ranged={is_multi} but size>=threshold is {want_multi}', sym='mode', **mech)], 0
        if not want_multi:
            if len(gets) != 1:
                out.append(V(f'{ctx}: {len(gets)} GetObject requests for a single-request download', sym='single-count', **mech))
            return out, 0
        rs = sorted(parse_range(g[1]['Range']) for g in ranged)
        n = math.ceil(size / C)
        if len(rs) != n:
            out.append(V(f'{ctx}: {len(rs)} ranged requests, expected ceil(size/chunk)={n}', sym='part-count', **mech))
        pos = 0
        for i, (a, b) in enumerate(rs):
            if a != pos:
                out.append(V(f'{ctx}: range {i} starts at {a}, expected {pos} (gap/overlap)', sym='tiling', **mech))
                break
            last = i == len(rs) - 1
            end = size - 1 if b is None else b
            if b is None and not last:
                out.append(V(f'{ctx}: open-ended range {a}- is not the last one', sym='tiling', **mech))
                break
            if end > size - 1 or end < a and size > 0:
                out.append(V(f'{ctx}: range {a}-{b} outside the object', sym='tiling', **mech))
                break
            if not last and end - a + 1 != C:
                out.append(V(f'{ctx}: range {a}-{b} has length {end - a + 1}, chunksize {C}', sym='part-size', **mech))
                break
            pos = end + 1
        else:
            if pos != size:
                out.append(V(f'{ctx}: ranges end at byte {pos - 1}, object ends at {size - 1}', sym='tiling', **mech))
        return out, len(rs)
    # uploads / copies
    part_op = 'UploadPart' if kind == 'upload' else 'UploadPartCopy'
    single_op = 'PutObject' if kind == 'upload' else 'CopyObject'
    parts = [c for c in calls if c[0] == part_op]
    is_multi = 'CreateMultipartUpload' in ops
    if is_multi != want_multi:
        return [V(f'{ctx}: multipart={is_multi} but size>=threshold is {want_multi}', sym='mode', **mech)], 0
    if not want_multi:
        if ops.count(single_op) != 1 or parts:
            out.append(V(f'{ctx}: single-request transfer issued {ops}', sym='single-count', **mech))
        if kind == 'upload':
            bl = [c[2] for c in calls if c[0] == 'PutObject']
            if bl and bl[0] is not None and bl[0] != size:
                out.append(V(f'{ctx}: PutObject body length {bl[0]}', sym='tiling', **mech))
        return out, 0
    nums = sorted(p[1]['PartNumber'] for p in parts)
    n = len(parts)
    if nums != list(range(1, n + 1)):
        out.append(V(f'{ctx}: part numbers {nums[:5]}...{nums[-3:]} are not 1..{n}', sym='part-numbers', **mech))
        return out, n
    byn = {p[1]['PartNumber']: p for p in parts}
    if kind == 'copy':
        lens = []
        pos = 0
        for k in range(1, n + 1):
            a, b = parse_range(byn[k][1]['CopySourceRange'])
            if a != pos or b is None or b < a or b > size - 1:
                out.append(V(f'{ctx}: part {k} CopySourceRange bytes={a}-{b}, expected to start at {pos} within the object', sym='tiling', **mech))
                return out, n
            lens.append(b - a + 1)
            pos = b + 1
        if pos != size:
            out.append(V(f'{ctx}: copy ranges end at byte {pos - 1}, object ends at {size - 1}', sym='tiling', **mech))
    else:
        lens = [byn[k][2] for k in range(1, n + 1)]
        if any(l is None for l in lens):
            return out, n
        if sum(lens) != size:
            out.append(V(f'{ctx}: part bodies sum to {sum(lens)} bytes', sym='tiling', **mech))
    if n == 0:
        if size > 0:
            out.append(V(f'{ctx}: multipart upload with no parts', sym='tiling', **mech))
        return out, 0
    eff = lens[0] if n > 1 else None
    if n > 1:
        for k, l in enumerate(lens[:-1], 1):
            if l != eff:
                out.append(V(f'{ctx}: part {k} has length {l}, first part {eff}', sym='part-size', **mech))
                break
        if not (0 < lens[-1] <= eff):
            out.append(V(f'{ctx}: last part length {lens[-1]} (part size {eff})', sym='part-size', **mech))
    lo, hi = (1, MAX_P) if scaled else (MIN_P, MAX_P)
    if n > MAX_N:
        out.append(V(f'{ctx}: {n} parts, more than {MAX_N}', sym='too-many-parts', **mech))
    if eff is not None:
        if not scaled and not (lo <= eff <= hi):
            out.append(V(f'{ctx}: effective part size {eff} outside [{lo}, {hi}]', sym='part-size-limit', **mech))
        # the configured size may be changed only when a limit requires it: if it is itself within the part-size
        # limits and yields <= 10000 parts it must be used as is (how an invalid one is repaired is the library's choice,
        # as long as the result respects the limits, checked above)
        if lo <= C <= hi and math.ceil(size / C) <= MAX_N and eff != C:
            out.append(V(f'{ctx}: effective part size {eff} differs from the configured {C} although no limit required a change '
                         f'(ceil(size/chunk)={math.ceil(size / C)})', sym='needless-adjust', **mech))
    elif n == 1 and not scaled:
        clamp = min(max(C, lo), hi)
        if math.ceil(size / clamp) > 1:
            out.append(V(f'{ctx}: a single part for {size} bytes although the configured part size {clamp} needs '
                         f'{math.ceil(size / clamp)}', sym='part-count', **mech))
    return out, n


class ZeroStream:
    """A readable, non-seekable stream of ``size`` zero bytes whose length the library cannot know in advance."""

    def __init__(self, size):
        self.left = size

    def read(self, n=-1):
        if n is None or n < 0 or n > self.left:
            n = self.left
        self.left -= n
        return bytes(n)


def run_manager(case):
    """One manager, many transfers of one kind at API level."""
    from s3transfer.manager import TransferConfig, TransferManager
    from ..fakes3 import FakeS3
    from ..director import Director
    from ..events import EventLog
    from ..io import HookedOSUtils
    import s3transfer.utils as s3utils

    log = EventLog()
    d = Director(log, 0, {})
    s3 = FakeS3(log, d)
    s3.api_only = True
    s3.api_sizes = {}
    client = s3.make_client('when_supported', 'https')

    class W:
        pass

    w = W()
    w.log, w.director, w.s3 = log, d, s3
    tmp = tempfile.mkdtemp(prefix='vf-c14-', dir=scenario.scratch_root())
    old = scenario._patch_min_part(1 if case.get('scaled') else None)
    viol = []
    stats = {'transfers': 0, 'multipart_plans': 0, 'max_parts': 0, 'requests': 0}
    keys = set()
    try:
        T, C = case['T'], case['C']
        cfg = TransferConfig(multipart_threshold=T, multipart_chunksize=C, max_request_concurrency=4, max_request_queue_size=200000,
                             max_io_queue_size=200000, max_in_memory_download_chunks=200000, max_in_memory_upload_chunks=200000,
                             max_submission_queue_size=1000)
        osu = HookedOSUtils(w)
        mgr = TransferManager(client, cfg, osutil=osu)
        futs = []
        # 'seq': transfers of mixed kinds on ONE manager, each finished before the next starts - the plan of a transfer must not
        # depend on what the manager did before
        items = case.get('seq') or [(case['kind'], s) for s in case['sizes']]
        for i, (kind, size) in enumerate(items):
            key = f'k{i}'
            if kind == 'upload_stream':
                # size unknown to the library: only the part-size limits can be applied to the configured chunk size
                futs.append((size, key, mgr.upload(ZeroStream(size), 'bkt', key), 'upload'))
            elif kind == 'upload':
                path = os.path.join(tmp, f'src{i}')
                osu.virtual_sizes[path] = size
                futs.append((size, key, mgr.upload(path, 'bkt', key), kind))
            elif kind == 'upload_provided':
                # the size was recorded earlier by the caller and is supplied by a subscriber; the file has grown since (it is longer
                # than the transfer): the transfer is `size` bytes, and its parts end at byte size-1
                from s3transfer.subscribers import BaseSubscriber

                class Provide(BaseSubscriber):
                    def __init__(self, n):
                        self.n = n

                    def on_queued(self, future, **kw):
                        future.meta.provide_transfer_size(self.n)

                path = os.path.join(tmp, f'src{i}')
                osu.virtual_sizes[path] = size + case.get('grown_by', 70000)
                futs.append((size, key, mgr.upload(path, 'bkt', key, subscribers=[Provide(size)]), 'upload'))
            elif kind == 'copy':
                s3.api_sizes[('srcbkt', key)] = size
                futs.append((size, key, mgr.copy({'Bucket': 'srcbkt', 'Key': key}, 'bkt', key), kind))
            else:
                s3.api_sizes[('bkt', key)] = size
                futs.append((size, key, mgr.download('bkt', key, os.path.join(tmp, f'dst{i}')), kind))
            if case.get('seq'):
                try:
                    futs[-1][2].result()
                except Exception:  # noqa - judged below
                    pass
        for size, key, f, kind in futs:
            try:
                f.result()
                err = None
            except Exception as e:  # noqa
                err = e
            calls = []
            for c in sorted(s3.calls.values(), key=lambda c: c['call_id']):
                p = c['params']
                if p.get('Key') == key and c['op'] not in ('HeadObject',):
                    if c['op'] == 'HeadObject':
                        continue
                    calls.append((c['op'], p, c.get('body_len')))
            stats['transfers'] += 1
            stats['requests'] += len(calls)
            if err is not None:
                viol.append(V(f'manager {kind} size={size} threshold={T} chunksize={C}: failed with {err!r}', sym='failed',
                              kind=kind, front_end='manager', scaled=bool(case.get('scaled'))))
                continue
            v, n = check_plan(kind, 'manager', size, T, C, calls, bool(case.get('scaled')))
            if case.get('seq'):
                for vv in v:
                    vv['what'] += f' (transfer {key[1:]} of the sequence {[(k, sz) for k, sz in items][:6]} on one manager)'
                    vv['mech']['after_history'] = True
                stats['history_transfers'] = stats.get('history_transfers', 0) + 1
            viol += v[:2]
            if n >= 2:
                stats['multipart_plans'] += 1
                keys.add((kind, size, T, C))
            stats['max_parts'] = max(stats['max_parts'], n)
        mgr.shutdown()
    finally:
        scenario._unpatch_min_part(old)
        import shutil

        shutil.rmtree(tmp, ignore_errors=True)
    return viol, stats, keys


def run_other_frontend(case):
    """Download planning through legacy S3Transfer / the process-pool submitter at API level."""
    from .. import frontends
    from ..frontends import PPOSUtils

    viol = []
    stats = {'transfers': 0, 'multipart_plans': 0, 'max_parts': 0, 'requests': 0}
    keys = set()
    T, C = case['T'], case['C']
    for size in case['sizes']:
        if case['fe'] == 'legacy':
            spec = {'front_end': 'legacy', 'seed': 1, 'config': dict(multipart_threshold=T, multipart_chunksize=C, max_concurrency=4),
                    'transfers': [{'kind': 'download', 'dst': 'path', 'size': 0}], '_api': size}
        else:
            spec = {'front_end': 'procpool', 'seed': 1, 'config': dict(multipart_threshold=T, multipart_chunksize=C, workers=2),
                    'transfers': [{'kind': 'download', 'dst': 'path', 'size': 0}], '_api': size}
        obs = run_api_frontend(spec, size)
        try:
            x = obs.xfers[0]
            calls = [(c['op'], c['params'], None) for c in sorted(obs.world.s3.calls.values(), key=lambda c: c['call_id']) if c['op'] != 'HeadObject']
            stats['transfers'] += 1
            stats['requests'] += len(calls)
            if obs.hang or x.outcome != 'success':
                viol.append(V(f'{case["fe"]} download size={size} threshold={T} chunksize={C}: ended {scenario.describe_outcome(x)} hang={obs.hang}',
                              sym='failed', kind='download', front_end=case['fe'], scaled=bool(case.get('scaled'))))
                if obs.hang:
                    return viol, stats, keys, True
                continue
            v, n = check_plan('download', case['fe'], size, T, C, calls, bool(case.get('scaled')))
            viol += v[:2]
            if n >= 2:
                stats['multipart_plans'] += 1
                keys.add(('download', case['fe'], size, T, C))
            stats['max_parts'] = max(stats['max_parts'], n)
        finally:
            scenario.cleanup(obs)
    return viol, stats, keys, False


def run_api_frontend(spec, size):
    from .. import frontends
    from ..fakes3 import FakeS3

    orig_make = FakeS3.make_client
    orig_alloc = frontends.PPOSUtils.allocate

    def make_client(self, *a, **k):
        self.api_only = True
        self.api_sizes = _AnySize(size)
        return orig_make(self, *a, **k)

    def allocate(self, filename, sz):
        with open(filename, 'wb'):
            pass

    FakeS3.make_client = make_client
    frontends.PPOSUtils.allocate = allocate
    try:
        if spec['front_end'] == 'legacy':
            return frontends.run_legacy(spec)
        if spec['front_end'] == 'procpool_full':
            return frontends.run_procpool_full(spec)  # through the real ProcessPoolDownloader object (its call-time validation)
        return frontends.run_procpool(spec)
    finally:
        FakeS3.make_client = orig_make
        frontends.PPOSUtils.allocate = orig_alloc


class _AnySize(dict):
    def __init__(self, size):
        super().__init__()
        self.size = size

    def get(self, k, default=None):
        return self.size


def adjuster_sweep(case):
    """The real ChunksizeAdjuster on many (chunksize, size) pairs: result within limits, <= 10000 parts, and unchanged
    when the configured value already satisfied every limit."""
    from s3transfer.utils import ChunksizeAdjuster

    rng = random.Random(case['seed'])
    adj = ChunksizeAdjuster()
    viol = []
    n = 0
    edge_chunks = [1, MIN_P - 1, MIN_P, MIN_P + 1, 8 * MB, 7 * MB + 1, 64 * MB, MAX_P - 1, MAX_P, MAX_P + 1, 6 * GB]
    for i in range(case['count']):
        C = rng.choice(edge_chunks) if rng.random() < 0.6 else rng.randrange(1, 6 * GB)
        clamp = min(max(C, MIN_P), MAX_P)
        r = rng.random()
        if r < 0.5:
            k = rng.choice([1, 2, 3, 4, 5, 6, 7])
            base = MAX_N * (2 ** k) * rng.choice([C, clamp])
            size = base + rng.choice([-1, 0, 1, rng.randrange(1, max(2, C))])
        elif r < 0.8:
            size = rng.randrange(0, 5 * TB + 1)
        else:
            size = rng.choice([MAX_N, MAX_N + 1, 2 * MAX_N + 1, 3 * MAX_N - 1]) * rng.choice([C, clamp]) + rng.choice([-1, 0, 1])
        size = max(0, min(size, 5 * TB))
        eff = adj.adjust_chunksize(C, size)
        n += 1
        parts = math.ceil(size / eff) if eff else 0
        ctx = f'ChunksizeAdjuster.adjust_chunksize({C}, {size}) = {eff}'
        if not (MIN_P <= eff <= MAX_P):
            viol.append(V(f'{ctx}: outside [{MIN_P}, {MAX_P}]', sym='part-size-limit', kind='adjuster', front_end='adjuster', scaled=False))
        elif parts > MAX_N:
            viol.append(V(f'{ctx}: {parts} parts, more than {MAX_N}', sym='too-many-parts', kind='adjuster', front_end='adjuster', scaled=False))
        elif MIN_P <= C <= MAX_P and math.ceil(size / C) <= MAX_N and eff != C:
            viol.append(V(f'{ctx}: changed although no limit required it', sym='needless-adjust', kind='adjuster', front_end='adjuster', scaled=False))
        if len(viol) >= 5:
            break
    return viol, n


def gen_cases(tier, seed):
    rng = random.Random(seed)
    quick = tier == 'quick'
    cases = []
    for i in range(16):
        cases.append({'type': 'adjuster', 'seed': rng.randrange(1 << 30), 'count': 20000 if quick else 200000})
    pairs = [(T, C) for T in range(1, 17) for C in range(1, 17)]
    if quick:
        rng.shuffle(pairs)
        pairs = pairs[:len(pairs) // 3]
    sizes = list(range(0, 65))
    for (T, C) in pairs:
        for kind in ('upload', 'copy', 'download'):
            cases.append({'type': 'mgr', 'kind': kind, 'T': T, 'C': C, 'sizes': sizes, 'scaled': True})
    for (T, C) in (pairs if not quick else pairs[:20]):
        for fe in ('legacy', 'procpool'):
            cases.append({'type': 'fe', 'fe': fe, 'T': T, 'C': C, 'sizes': [s for s in (0, 1, T - 1, T, T + 1, 2 * C - 1, 2 * C, 2 * C + 1, 5 * C + 1, 64) if s >= 0 and (fe != 'procpool' or s > 0)],
                          'scaled': True})
    # real scale
    chunks = [1, 5 * MB - 1, 5 * MB, 8 * MB, 64 * MB, 5 * GB, 5 * GB + 1, 6 * GB]
    for C in chunks:
        for T in ([8 * MB] if quick else [1, 8 * MB, 5 * GB + 1]):
            clamp = min(max(C, MIN_P), MAX_P)
            base = {0, 1, 5 * MB - 1, 5 * MB, 5 * MB + 1, 8 * MB - 1, 8 * MB, 8 * MB + 1, 5 * GB - 1, 5 * GB, 5 * GB + 1, 50 * GB, 5 * TB - 1, 5 * TB}
            for k in (2, 3, 7, 100):
                base |= {k * clamp - 1, k * clamp, k * clamp + 1}
            big = {MAX_N * clamp - 1, MAX_N * clamp, MAX_N * clamp + 1, 9999 * clamp + 1, (MAX_N // 2) * clamp + 1,
                   2 * MAX_N * clamp + 1, 4 * MAX_N * clamp + 1, (2 * MAX_N + 1) * clamp, 3 * MAX_N * clamp - 1}
            szs = sorted(s for s in base if 0 <= s <= 5 * TB)
            # keep request counts affordable: a plan with P parts costs ~P requests
            cheap = [s for s in szs if math.ceil(s / clamp) <= 300]
            costly = [s for s in szs if math.ceil(s / clamp) > 300] + [s for s in big if s <= 5 * TB]
            if quick:
                costly = rng.sample(costly, min(2, len(costly)))
            for kind in ('upload', 'copy'):
                cases.append({'type': 'mgr', 'kind': kind, 'T': T, 'C': C, 'sizes': cheap})
                for s in costly:
                    cases.append({'type': 'mgr', 'kind': kind, 'T': T, 'C': C, 'sizes': [s]})
            dl = [s for s in szs if math.ceil(s / C) <= 2000]
            if dl:
                cases.append({'type': 'mgr', 'kind': 'download', 'T': T, 'C': C, 'sizes': dl})
                for fe in ('legacy', 'procpool'):
                    d2 = [s for s in dl if math.ceil(s / C) <= 300 and (fe != 'procpool' or s > 0)]
                    cases.append({'type': 'fe', 'fe': fe, 'T': T, 'C': C, 'sizes': d2 if not quick else d2[::3]})
    # path uploads whose size was supplied by a subscriber while the file has grown since (it is longer than the transfer)
    for (T, C) in ((8 * MB, 5 * MB), (8 * MB, 8 * MB), (16 * MB, 6 * MB)):
        for grown in (1, 70000, 3 * C):
            cases.append({'type': 'mgr', 'kind': 'upload_provided', 'T': T, 'C': C, 'grown_by': grown,
                          'sizes': sorted({T - 1, T, T + 1000, 2 * C + 1000, 2 * C, 3 * C - 1, 3 * C + 12345})})
    for (T, C) in ((4, 2), (6, 4), (8, 8)):
        cases.append({'type': 'mgr', 'kind': 'upload_provided', 'T': T, 'C': C, 'scaled': True, 'grown_by': rng.choice([1, 3, 17]), 'sizes': list(range(1, 40))})
    # thresholds beyond 5 GiB (the largest single PutObject / CopyObject): the threshold alone decides, also between 5 GiB and it
    for T in (5 * GB + 1, 6 * GB, 7 * GB + 5):
        for C in (GB, 5 * GB):
            szs = sorted({5 * GB - 1, 5 * GB, 5 * GB + 1, T - 1, T, T + 1})
            for kind in ('upload', 'copy', 'download'):
                cases.append({'type': 'mgr', 'kind': kind, 'T': T, 'C': C, 'sizes': szs})
    # uploads from non-seekable streams of unknown size: the configured chunk size can only be brought within [5 MiB, 5 GiB]
    for C in ([1, MB, 5 * MB - 1, 5 * MB, 8 * MB] if quick else [1, 4096, MB, 5 * MB - 1, 5 * MB, 5 * MB + 1, 8 * MB, 16 * MB]):
        for T in ([8 * MB] if quick else [MB, 8 * MB, 20 * MB]):
            cases.append({'type': 'mgr', 'kind': 'upload_stream', 'T': T, 'C': C,
                          'sizes': sorted({T - 1, T, T + 1, 2 * max(C, 5 * MB) + 1, 17 * MB + 3})})
    for (T, C) in ((4, 1), (4, 3), (8, 8), (6, 16)):
        cases.append({'type': 'mgr', 'kind': 'upload_stream', 'T': T, 'C': C, 'scaled': True, 'sizes': list(range(0, 40))})
    # history: mixed kinds one after the other on one manager, starting with transfers whose part size has to be adjusted
    for rep in range(6 if quick else 40):
        C = rng.choice([1, 2, 3])
        T = rng.choice([C, 2 * C, 5])
        first = [('copy', MAX_N * C + rng.choice([1, C, 2 * C + 1])), ('upload', MAX_N * C + 1)]
        rng.shuffle(first)
        rest = [(rng.choice(['download', 'upload', 'copy']), rng.choice([T - 1, T, 2 * C + 1, 6 * C + 1, 9 * C, 31])) for _ in range(6)]
        cases.append({'type': 'mgr', 'T': T, 'C': C, 'scaled': True, 'kind': 'mixed', 'sizes': [], 'seq': first[:rng.choice([1, 2])] + rest})
    for (T, C) in ((MB, MB), (8 * MB, 1), (8 * MB, 6 * GB), (8 * MB, 8 * MB)):
        first = [('copy', rng.choice([11 * MB + 1, 16 * MB])), ('upload', 12 * MB)] if C != 8 * MB else [('copy', MAX_N * C + 1)]
        if C == 6 * GB:
            first = [('copy', 13 * GB)]
        rest = [('download', 3 * MB + 1), ('upload', 17 * MB), ('copy', 24 * MB + 5)] + ([('download', 20 * MB)] if C >= MB else [])
        cases.append({'type': 'mgr', 'T': T, 'C': C, 'kind': 'mixed', 'sizes': [], 'seq': first + rest})
    # float-rounding edges: ceil(size / float(part)) for large k
    for C in (5 * MB, 8 * MB, 7 * MB + 1):
        for k in (9999, 10000):
            for dlt in (-1, 0, 1):
                s = k * C + dlt
                cases.append({'type': 'mgr', 'kind': rng.choice(['upload', 'copy']), 'T': 8 * MB, 'C': C, 'sizes': [s]})
                if quick:
                    break
    rng.shuffle(cases)
    return cases


def run_case(case):
    fatal = False
    if case['type'] == 'adjuster':
        viol, n = adjuster_sweep(case)
        return {'verdict': 'violated' if viol else 'held', 'key': f'adjuster-{case["seed"]}', 'violations': viol, 'stats': {'adjuster_inputs': n},
                'summary': {'type': 'adjuster', 'inputs': n}}
    if case['type'] == 'mgr':
        viol, stats, keys = run_manager(case)
    else:
        viol, stats, keys, fatal = run_other_frontend(case)
    import hashlib

    stats['plans_checked'] = stats['transfers']
    key = hashlib.sha1(repr(sorted(keys)).encode()).hexdigest()[:16] if keys else None
    return {'verdict': 'violated' if viol else 'held', 'key': key, 'violations': viol[:5],
            'stats': dict(stats, distinct_plans=len(keys)), 'summary': {k: v for k, v in case.items() if k not in ('sizes', 'seq')} | {'nsizes': len(case['sizes']), 'max_parts': stats['max_parts']},
            'fatal': fatal}
