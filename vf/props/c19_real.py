"""Real-process runs of ProcessPoolDownloader (fork): the fake client factory is
inherited by the children; only what the parent can observe is judged
(result(), destination directory, temp files)."""
import os
import shutil
import signal
import tempfile
import threading
import time

from .. import scenario
from ..oracles import V


def _child_client_factory(objects, fail_keys):
    """Returns a create_client() replacement; runs inside the child processes."""
    def create_client(self):
        from ..director import Director
        from ..events import EventLog
        from ..fakes3 import FakeS3

        log = EventLog()
        plan = {'faults': [{'at': f'{k}/s3:GetObject:{st}#0', 'phase': 'before', 'kind': 'exc', 'tag': 'FAULT-real'} for (k, st) in fail_keys]}
        d = Director(log, 0, plan)
        s3 = FakeS3(log, d)
        s3.objects.update(objects)
        return s3.make_client()
    return create_client


def run_real(case):
    import multiprocessing

    from s3transfer import processpool as pp
    from s3transfer.exceptions import CancelledError
    from ..fakes3 import payload

    if multiprocessing.get_start_method(allow_none=True) not in (None, 'fork'):
        return {'verdict': 'inconclusive', 'key': None, 'violations': [], 'stats': {'real_skipped': 1}, 'summary': 'start method not fork'}
    tmp = tempfile.mkdtemp(prefix='vf-ppreal-', dir=scenario.scratch_root())
    viol = []
    what = case['what']
    objects = {}
    datas = []
    for i, sz in enumerate(case['sizes']):
        data = payload(case['seed'] + i, sz)
        objects[('bkt', f'key-{i}')] = data
        datas.append(data)
    fail_keys = [('key-0', '0' if case['sizes'][0] >= 16 else 'all')] if what == 'fail' else []
    orig = pp.ClientFactory.create_client
    pp.ClientFactory.create_client = _child_client_factory(objects, fail_keys)
    outcomes = []
    t0 = time.monotonic()
    result = {'hung': False}
    try:
        cfg = pp.ProcessTransferConfig(multipart_threshold=16, multipart_chunksize=8, max_request_processes=case['workers'])

        def session():
            dl = pp.ProcessPoolDownloader(config=cfg)
            futs = []
            try:
                with dl:
                    for i, sz in enumerate(case['sizes']):
                        futs.append(dl.download_file('bkt', f'key-{i}', os.path.join(tmp, f'dst-{i}'), expected_size=sz))
                    if what == 'cancel':
                        futs[0].cancel()
                    if what == 'kbi':
                        raise KeyboardInterrupt()
                    # the monitor lives in a manager process that the with-exit shuts down: collect inside the block
                    for f in futs:
                        try:
                            f.result()
                            outcomes.append(('success', None))
                        except BaseException as e:  # noqa
                            outcomes.append(('raised', e))
            except KeyboardInterrupt:
                pass

        def guarded():
            try:
                session()
            except BaseException as e:  # noqa  (the manager process is gone after exit: result() may fail to connect)
                result['session_exc'] = e

        th = threading.Thread(target=guarded, daemon=True)
        th.start()
        th.join(60)
        result['hung'] = th.is_alive()
    finally:
        pp.ClientFactory.create_client = orig
    stats = {'real_runs': 1, 'real_' + what: 1}
    left = [n for n in os.listdir(tmp) if scenario.TEMP_RE.search(n)]
    if result['hung']:
        shutil.rmtree(tmp, ignore_errors=True)
        return {'verdict': 'inconclusive', 'key': None, 'violations': [], 'stats': {'real_hung': 1}, 'summary': {'what': what}, 'fatal': True}
    if left:
        viol.append(V(f'real processes ({what}): temporary files {left} remain after the with-block exited', sym='temp-left-real', what=what))
    for i, data in enumerate(datas):
        p = os.path.join(tmp, f'dst-{i}')
        cur = open(p, 'rb').read() if os.path.exists(p) else None
        if cur is not None and cur != data:
            viol.append(V(f'real processes ({what}): destination {i} holds {len(cur)} bytes that are not the object', sym='partial-real', what=what))
        if what == 'ok' and cur != data:
            viol.append(V(f'real processes (ok): destination {i} is {None if cur is None else len(cur)} bytes', sym='incomplete-real', what=what))
        if what == 'fail' and i == 0 and cur is not None:
            viol.append(V('real processes (fail): a failed download published its destination', sym='published-on-failure-real', what=what))
    if what == 'ok' and any(k != 'success' for k, _ in outcomes):
        viol.append(V(f'real processes (ok): outcomes {[(k, repr(e)) for k, e in outcomes]}', sym='failed-real', what=what))
    if what == 'fail' and (not outcomes or outcomes[0][0] != 'raised'):
        viol.append(V('real processes (fail): the download whose GetObject failed reported success', sym='false-success-real', what=what))
    if what == 'cancel' and outcomes and outcomes[0][0] == 'raised' and not isinstance(outcomes[0][1], CancelledError):
        viol.append(V(f'real processes (cancel): result() raised {outcomes[0][1]!r}', sym='cancel-wrong-error-real', what=what))
    if what in ('ok', 'fail', 'cancel') and len(outcomes) != len(datas):
        viol.append(V(f'real processes ({what}): only {len(outcomes)} of {len(datas)} results obtained ({result.get("session_exc")!r})',
                      sym='session-broken-real', what=what))
    shutil.rmtree(tmp, ignore_errors=True)
    return {'verdict': 'violated' if viol else 'held', 'key': f'real-{what}-{case["workers"]}-{case["sizes"]}', 'violations': viol, 'stats': stats,
            'summary': {'what': what, 'outcomes': [(k, repr(e)) for k, e in outcomes], 'session_exc': repr(result.get('session_exc')),
                        'wall': round(time.monotonic() - t0, 2)}}
