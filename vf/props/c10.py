"""C10 — configured concurrency and queue limits are never exceeded."""
import random

from .. import bounds, e2e, gen

PROPERTY = 'C10'
LEVEL = 'exploration'
RULE = ('2-4 concurrent transfers of mixed kinds on one manager with asymmetric small limits (three concurrency and three queue-size '
        'limits and both in-memory limits drawn from 1..4, plus defaults), every S3 call held at a gate until the process is quiescent '
        'so that the maximum concurrency the code allows is actually reached; offline sweep over the begin/end log: in-flight transfer '
        'requests (abort excluded; GetObject counts until its body is drained) <= max_request_concurrency, in-flight HeadObject <= '
        'max_submission_concurrency, each request issued from a worker of the right stage, destination writes one at a time and IO '
        'tasks executed in queue order, queued-or-running tasks per stage (counting executor) <= its queue size (+ in-memory limits '
        'for the request stage), executors built with the configured thread counts, NoResourcesAvailable never surfaces; non-trivial '
        '= at least two requests overlapped or a bound was reached; distinct = (shape, interleaving signature)')
ASSUMPTIONS = ['each measured count is a lower bound of the real one (observed intervals lie inside the real call intervals)']
CASE_TIMEOUT = 120.0


def gen_cases(tier, seed):
    rng = random.Random(seed)
    quick = tier == 'quick'
    cases = []
    for i in range(400 if quick else 4000):
        n = rng.choice([2, 3, 4])
        spec = gen.mix(rng, n, hi=4, sizes=[0, 7, 16, 19, 27, 40, 41])
        if rng.random() < 0.1:
            for k in ('max_request_queue_size', 'max_submission_queue_size', 'max_io_queue_size'):
                spec['config'][k] = 1000
        r = rng.random()
        if r < 0.7:
            spec['plan']['gate'] = {'match': '/s3:', 'phase': 'before', 'policy': rng.choice(['seeded', 'reverse', 'lowest_last'])}
        elif r < 0.85:
            spec['plan']['gate'] = {'match': '.read#', 'phase': 'before', 'policy': 'seeded'}
        cases.append(spec)
    # sizes at the part-count boundaries (one part and a bit, just under two parts, exact multiples, +-1) with the destination's
    # write() calls held at a gate, so that writers that CAN be inside write() at the same time are seen there together
    for i in range(120 if quick else 1200):
        C = 8
        T = rng.choice([8, 8, 9, 12, 16])
        size = rng.choice([C + 1, 2 * C - 1, 2 * C, 2 * C + 1, 3 * C - 1, 3 * C, T, T + 1, T - 1])
        dst = rng.choice(['path', 'seekable', 'nonseekable', 'fifo'])
        cfg = dict(multipart_threshold=T, multipart_chunksize=C, io_chunksize=rng.choice([2, 4]), max_request_concurrency=rng.choice([2, 3, 4]),
                   max_io_queue_size=rng.choice([1, 2, 1000]), max_in_memory_download_chunks=rng.choice([2, 3]))
        ts = [{'kind': 'download', 'dst': dst, 'size': size}]
        if rng.random() < 0.3:
            ts.append({'kind': 'download', 'dst': rng.choice(['path', 'seekable']), 'size': rng.choice([C + 3, 2 * C - 2])})
        cases.append({'seed': rng.randrange(1 << 30), 'config': cfg, 'transfers': ts, 'family': 'boundary-sizes',
                      'plan': {'gate': {'match': rng.choice(['/fs:write', ':write', '/s3:GetObject']), 'phase': rng.choice(['before', 'after']),
                                        'policy': rng.choice(['seeded', 'reverse'])}, 'delay_p': rng.choice([0.0, 0.2])}})
    # a transfer that has already failed / been cancelled still has tasks to hand on (the last GetObject task of a ranged download
    # queues the final IO task) while the receiving stage is full: they wait for room like any other
    for i in range(60 if quick else 600):
        C = 8
        cfg = dict(multipart_threshold=C, multipart_chunksize=C, io_chunksize=rng.choice([2, 4]), max_io_queue_size=rng.choice([1, 1, 2]),
                   max_request_concurrency=rng.choice([2, 3]), max_in_memory_download_chunks=rng.choice([2, 3]), num_download_attempts=1)
        ts = [{'kind': 'download', 'dst': rng.choice(['path', 'seekable', 'nonseekable']), 'size': rng.choice([3 * C, 4 * C + 3])},
              {'kind': 'download', 'dst': rng.choice(['path', 'seekable']), 'size': rng.choice([3 * C, 5 * C])}]
        plan = {'gate': {'match': [':write'], 'phase': 'before', 'policy': 'seeded'}, 'delay_p': 0.0}
        site = f't0/s3:GetObject:{C * rng.choice([0, 1])}#0'
        if rng.random() < 0.5:
            plan['faults'] = [{'at': site, 'phase': rng.choice(['before', 'body']), 'bytes': 2, 'kind': 'exc', 'tag': 'FAULT-c10'}]
        else:
            plan['cancel'] = {'at': site, 'phase': 'after', 'how': 'future.cancel', 'from': 'event', 'target': 0}
        cases.append({'seed': rng.randrange(1 << 30), 'config': cfg, 'transfers': ts, 'family': 'failed-with-full-stage', 'plan': plan})
    # contention on the tag semaphores: several stream transfers, a thread preempted at each statement of the semaphores /
    # BoundedExecutor.submit until the others have run as far as they can
    from .. import windows

    lines = [l for l in windows.candidate_lines() if l[2].startswith(('SlidingWindowSemaphore', 'TaskSemaphore', 'BoundedExecutor.submit'))]
    for line in lines:
        for rep in range(2 if quick else 8):
            n = rng.choice([2, 3])
            down = rng.random() < 0.6
            cfg = dict(multipart_threshold=8, multipart_chunksize=8, io_chunksize=4, max_request_concurrency=rng.choice([2, 3, 4]),
                       max_submission_concurrency=n, max_in_memory_download_chunks=rng.choice([1, 1, 2]), max_in_memory_upload_chunks=rng.choice([1, 2]),
                       max_io_queue_size=rng.choice([1, 1000]), max_request_queue_size=rng.choice([1, 2, 1000]))
            if down:
                ts = [{'kind': 'download', 'dst': rng.choice(['nonseekable', 'fifo']), 'size': rng.choice([24, 33, 41])} for _ in range(n)]
            else:
                ts = [{'kind': 'upload', 'src': rng.choice(['nonseekable', 'seekable']), 'size': rng.choice([24, 33, 41])} for _ in range(n)]
            w = {'file': line[0], 'lineno': line[1], 'name': f'{line[0]}:{line[1]}:{line[2]}', 'nth': rng.randrange(0, 6), 'action': 'pause', 'wait': 0.2}
            cases.append({'seed': rng.randrange(1 << 30), 'min_part': 8, 'config': cfg, 'transfers': ts,
                          'yield': {'p': rng.choice([0.0, 0.1]), 'window': w}, 'plan': {'delay_p': rng.choice([0.0, 0.3])}})
    # user code that starts another transfer on the same manager from a callback running ON A STAGE'S OWN THREAD (on_queued: the
    # submission stage) while that stage's queue is full: the nested hand-over waits for room like any other
    for i in range(60 if quick else 600):
        n = rng.choice([3, 4])
        q = rng.choice([2, 2, 3])
        ts = []
        for j in range(n):
            kind, extra = rng.choice([k for k in gen.KINDS if k[1].get('dst') != 'fifo'])
            ts.append(dict({'kind': kind, 'size': rng.choice([5, 20, 27])}, **extra))
        # (fewer such callbacks than slots: with as many, every slot could be held by a task waiting for a slot - the caller's own doing)
        for j in rng.sample(range(n), rng.choice([1, q - 1])):
            ts[j]['subs'] = [{'reenter': {'on_queued': ['submit_new']}}, {}]
        cfg = dict(multipart_threshold=16, multipart_chunksize=8, io_chunksize=4, max_submission_queue_size=q, max_submission_concurrency=q,
                   max_request_concurrency=rng.choice([1, 2]), max_request_queue_size=rng.choice([1, 2, 1000]))
        cases.append({'seed': rng.randrange(1 << 30), 'min_part': 8, 'config': cfg, 'transfers': ts, 'family': 'callback-submits', 'chained': True,
                      'plan': {'gate': {'match': '/s3:', 'phase': 'before', 'policy': 'seeded'}, 'delay_p': 0.0}})
    return cases


def evaluate(obs):
    v1, s1 = bounds.concurrency_oracle(obs)
    v2, s2 = bounds.write_order_oracle(obs)
    v3, s3 = bounds.occupancy_oracle(obs)
    stats = {}
    for s in (s1, s2, s3):
        for k, v in s.items():
            stats[('max_' + k) if k.startswith('max_') is False and k.startswith('max') else k] = v
    nontrivial = s1['max_inflight_data'] >= 2 or s1['reached_request_concurrency'] or s1['reached_submission_concurrency']
    summary = {'outcomes': e2e.default_outcomes(obs), 'max_inflight': s1['max_inflight_data'], 'limits': {k: getattr(obs.config, k) for k in gen.LIMIT_NAMES},
               'outstanding': {ex.stage: ex.max_outstanding for ex in obs.execs.made}}
    return v1 + v2 + v3, stats, bool(nontrivial), summary


def run_case(case):
    r = e2e.run_with(case, evaluate)
    if r.get('verdict') == 'inconclusive' and (r.get('summary') or {}).get('hang') == 'deadlock':
        # the run came to rest unfinished: if a task was refused a hand-over to a full stage (NoResourcesAvailable escaped it), that
        # refusal - "fails rather than blocks" - is the violation; any other deadlock is not this property's business
        esc = [e for e in ((r.get('summary') or {}).get('escaped') or []) if 'NoResourcesAvailable' in str(e.get('escaped'))]
        if esc:
            from ..oracles import V

            r['verdict'] = 'violated'
            r['violations'] = [V(f'a {esc[0].get("task")} of the {esc[0].get("stage_of")} stage was refused a hand-over to a full stage ({esc[0]["escaped"]}) '
                                 f'instead of waiting for room; the transfer never finished', sym='submit-refused', stage=esc[0].get('stage_of'))]
    return r
