"""C13 — bandwidth limit is respected without starving or over-throttling."""
import random
import threading

from .. import lockset as lockset_mod
from .. import vtime
from ..oracles import V

PROPERTY = 'C13'
LEVEL = 'exploration'
RULE = ('real LeakyBucket + BandwidthLimitedStream objects (one real thread per stream, baton-scheduled) under a virtual TimeUtils: '
        '1..8 streams, read sizes and think times drawn from adversarial sets around amount/max_bandwidth (just below, equal, just '
        'above, zero, 10x), late wake-ups (none / small / large), default clock (strictly increasing) and coarse clock (ticks; two '
        'calls may return the same value), streams abandoned at each of their wait points (their transfer fails while they sleep, or '
        'the reader is interrupted and dropped); plus an end-to-end smoke through TransferManager(max_bandwidth=...) with the virtual '
        'clock installed.  Offline oracles over the (virtual time, bytes, stream) read log and the sleep log: O1 bytes in every window '
        '<= 1.25*max*T + B with B = (2*streams+1)*batch; O2 saturated streams <= max*T + B over the run; O3 evenly staggered demand '
        'below the limit is never made to sleep, and after a contended burst (with threads preempted right after reading the clock) a '
        'stream reading a tiny fraction of the limit is no longer delayed once 20 further reads have passed; O4 every refused read is granted on its first retry and its sleep <= (bytes of reads '
        'currently waiting + own)/max + eps; O5 a read of a failed transfer raises that error without sleeping again; O6 = O4 after '
        'abandonments.  the end-to-end family covers every stream kind x single/multipart incl. bodies below the 256 KiB read threshold; non-trivial = at least one throttled read (or, for O3 runs, >= 10 reads); distinct = distinct scenario specs')
ASSUMPTIONS = ['real wall-clock behaviour (sleep overshoot) is represented only by the lateness parameter',
               'B is deliberately loose (calibrated: observed excess <= 5 batches with 8 streams)']
CASE_TIMEOUT = 120.0
EPS = 1e-6


class Dummy:
    def read(self, amount=None):
        return b'x'

    def seek(self, where, whence=0):
        return where

    def tell(self):
        return 0

    def close(self):
        pass


class Vanish(BaseException):
    pass


def run_sim(spec):
    from s3transfer.bandwidth import BandwidthLimitedStream, LeakyBucket
    from s3transfer.futures import TransferCoordinator

    rng = random.Random(spec['seed'])
    late = spec.get('lateness', 'none')
    lat_fn = {'none': lambda r: 0.0, 'small': lambda r: r.random() * 0.002, 'large': lambda r: r.choice([0.0, 0.0, 0.5, 2.0])}[late]
    coarse = spec.get('profile') == 'coarse'
    sim = vtime.Sim(seed=spec['seed'], eps=0.0 if coarse else 1e-9, tick=spec.get('tick', 0.015625) if coarse else None, lateness=lat_fn)
    mx = float(spec['max'])
    consumes = []  # (t, amt, token id, 'grant' | 'refuse', retry_time)

    class LoggingBucket(LeakyBucket):
        def consume(self_b, amt, request_token):
            from s3transfer.bandwidth import RequestExceededException

            try:
                r = LeakyBucket.consume(self_b, amt, request_token)
            except RequestExceededException as e:
                consumes.append((sim.now, amt, id(request_token), 'refuse', e.retry_time))
                raise
            consumes.append((sim.now, amt, id(request_token), 'grant', 0.0))
            return r

    bucket = LoggingBucket(mx, time_utils=sim)
    lockset = {'applied': False, 'violations': [], 'count': [0]}
    plain = lockset_mod.is_plain_lock(getattr(bucket, '_lock', None))
    if spec.get('time_yield'):
        # the clock read becomes a preemption point; the bucket's lock is made baton-aware so that a preempted holder does
        # not wedge the simulator
        sim.yield_p = spec['time_yield']
        sim.yield_until = spec.get('yield_until', float('inf'))
        sim.yield_delays = spec.get('yield_delays', [0.0])
        bucket._lock = vtime.SimLock(sim)
        held = (lambda: bucket._lock.owner == threading.current_thread().name)
    else:
        if plain:
            bucket._lock = lockset_mod.OwnerLock()
        held = (lambda: bucket._lock.held_by_me())
    if plain:
        # lockset monitor: the bucket's collaborators (the backlog scheduler, the rate tracker) are only ever touched under the
        # bucket's lock, so every write to them must come from the thread holding it (a lost update of the backlog needs a
        # preemption inside one statement, which no schedule this harness can force will produce)
        for attr in ('_consumption_scheduler', '_rate_tracker'):
            o = getattr(bucket, attr, None)
            if o is not None and hasattr(o, '__dict__'):
                lockset_mod.guard(o, held, lockset['violations'], attr, lockset['count'])
                lockset['applied'] = True
    reads = []  # (t_end, amt, stream, n_sleeps, slept_total, t_start)
    cur_op = {}  # stream -> index of the read it is inside
    raised = {}
    bodies = {}
    streams = {}
    token_of = {}
    from s3transfer.bandwidth import BandwidthLimiter

    # streams are made the way the manager makes them: by the BandwidthLimiter of the shared bucket, one per request body; with
    # 'same_transfer' they all belong to ONE transfer (the parts of a ranged download / multipart upload), else to one each
    limiter = BandwidthLimiter(bucket, time_utils=sim)
    shared_coord = TransferCoordinator(transfer_id=0) if spec.get('same_transfer') else None
    for si, st in enumerate(spec['streams']):
        name = f's{si}'
        coord = shared_coord or TransferCoordinator(transfer_id=si)
        stream = limiter.get_bandwith_limited_stream(Dummy(), coord)
        stream._bytes_threshold = spec.get('threshold', 100)  # scaled-down read threshold (the constructor default is 256 KiB)
        streams[name] = (stream, coord, st)
        token_of[id(stream._request_token)] = name

        def body(name=name, stream=stream, coord=coord, st=st):
            nsleep_total = [0]
            orig_sleep = sim.sleep
            for oi, (amt, think) in enumerate(st['ops']):
                if think:
                    sim.park(sim.now + think)
                if oi in st.get('rewind_before', ()):
                    # the transport rewinds the body for a retry of the request: what is read again goes over the wire again
                    stream.seek(0)
                t0 = sim.now
                cur_op[name] = oi
                before = len([s for s in sim.sleeps if s[0] == name])
                try:
                    stream.read(amt)
                except Vanish:
                    raised[name] = ('vanish', oi)
                    return
                except BaseException as e:  # noqa
                    after = len([s for s in sim.sleeps if s[0] == name])
                    raised[name] = ('raise', oi, repr(e), after - before, e is coord.exception)
                    return
                mine = [s for s in sim.sleeps if s[0] == name][before:]
                reads.append((sim.now, amt, name, len(mine), sum(s[2] for s in mine), t0))

        bodies[name] = (st.get('start', 0.0), body)

    # abandonment hooks: wrap sim.sleep
    cur_op.clear()
    sleep_count = {}
    orig = sim.sleep
    aband = {}

    def sleep(d):
        name = threading.current_thread().name
        k = sleep_count.get(name, 0)
        sleep_count[name] = k + 1
        st = streams[name][2]
        ab = st.get('abandon')
        if ab and ab['at_sleep'] == k:
            aband[name] = (sim.now, ab['how'], cur_op.get(name))
            if ab['how'] == 'fail':
                streams[name][1].set_exception(RuntimeError(f'transfer-of-{name}-failed'))
            elif ab['how'] == 'cancel':
                streams[name][1].cancel('bye')
            else:
                raise Vanish()
        return orig(d)

    sim.sleep = sleep
    ok = sim.run(bodies)
    return {'ok': ok, 'lockset': {'applied': lockset['applied'], 'violations': lockset['violations'][:5], 'writes': lockset['count'][0]},
            'reads': reads, 'consumes': consumes, 'sleeps': [tuple(s) for s in sim.sleeps], 'raised': raised, 'abandoned': aband,
            'token_of': token_of, 'end': sim.now}


def check(spec, r):
    viol = []
    mx = float(spec['max'])
    S = len(spec['streams'])
    thr = spec.get('threshold', 100)
    reads = sorted(r['reads'])
    max_read = max([a for st in spec['streams'] for (a, _) in st['ops']] + [1])
    batch = max_read + thr
    B = (2 * S + 1) * batch
    coarse = spec.get('profile') == 'coarse'
    stats = {'reads': len(reads), 'throttled_reads': len([x for x in reads if x[3] > 0]), 'sleeps': len(r['sleeps']),
             'abandoned': len(r['abandoned']), 'max_excess_batches_x100': 0, 'raised': len(r['raised'])}
    mech0 = {'clock': 'coarse' if coarse else 'default', 'lateness': spec.get('lateness', 'none'), 'abandoned': bool(r['abandoned']),
             'family': spec.get('family')}
    ls = r.get('lockset') or {}
    stats['lockset_applied'] = 1 if ls.get('applied') else 0
    stats['lockset_writes_checked'] = ls.get('writes', 0)
    if ls.get('violations'):
        what, name, th = ls['violations'][0]
        viol.append(V(f'limiter state {what}.{name} was written by thread {th} without the bucket lock (the waiting-time backlog / rate estimate '
                      f'are shared by all streams: an unlocked update can be lost and leave every later read waiting for bytes nobody is '
                      f'waiting for)', sym='lockset', **mech0))
    # O1 / O2
    ts = [x[0] for x in reads]
    am = [x[1] for x in reads]
    pref = [0]
    for a in am:
        pref.append(pref[-1] + a)
    worst = 0.0
    n = len(reads)
    if n <= 700:
        for i in range(n):
            for j in range(i + 1, n):
                got = pref[j + 1] - pref[i + 1]
                allowed = 1.25 * mx * (ts[j] - ts[i])
                ex = (got - allowed) / batch
                if ex > worst:
                    worst = ex
        stats['max_excess_batches_x100'] = int(worst * 100)
        if worst * batch > B:
            viol.append(V(f'O1: some window moved {worst:.1f} read-batches more than 1.25*max*T allows (burst allowance {(2 * S + 1)} '
                          f'batches, {S} streams, max={mx})', sym='O1-rate-exceeded', **mech0))
    if spec.get('family') == 'saturated' and n >= 2 and not r['abandoned']:
        T = ts[-1] - ts[0]
        got = pref[-1] - am[0]
        if got > mx * T + B:
            viol.append(V(f'O2: saturated streams moved {got} bytes in {T:.4f}s; max*T+B = {mx * T + B:.0f}', sym='O2-saturated-exceeded', **mech0))
    # O3
    if spec.get('family') == 'under':
        after = spec.get('under_after', 0.0)
        if spec.get('quiet_from') is not None:
            # the quiet phase starts once the burst is really over: every read of the other streams and the burst reads of
            # stream 0 have returned, plus a margin for the moving average to decay
            # The limiter's moving average can spike by many orders of magnitude when two scheduled releases fall
            # (almost) together, and then needs one delayed read per factor 5 to recover; only a slow-down that is still
            # there after 20 further reads is judged ("never ... permanently slows transfers").
            s0 = sorted(x for x in reads if x[2] == 's0')
            tail = s0[spec['quiet_from'] + 20:]
            after = tail[0][5] - 1e-9 if tail else float('inf')
        slept = [s for s in r['sleeps'] if s[1] >= after and (spec.get('quiet_from') is None or s[0] == 's0')]
        if slept:
            first = slept[0]
            viol.append(V(f'O3: demand stays below the limit (evenly staggered, {spec.get("load", "?")} of max) yet {len(slept)} read(s) were '
                          f'made to sleep (first: stream {first[0]} at t={first[1]:.4f} for {first[2]:.4f}s)', sym='O3-delayed-under-limit',
                          all_later_refused=len(slept) >= max(1, len([x for x in reads if x[0] >= after]) // 2), **mech0))
    # O4 / O6: per refusal, wait bound and granted at first retry
    cons = r['consumes']
    waiting = {}  # token -> amt (refused, not yet granted)
    ab_tokens = set()
    name_of = r['token_of']
    # a stream only counts as abandoned once it really stopped (its read raised, or its reader vanished)
    ab_names = {n for n in r['abandoned'] if n in r['raised']}
    refusals = {}
    for (t, amt, tok, what, retry) in cons:
        nm = name_of.get(tok)
        if what == 'refuse':
            if tok in waiting:
                viol.append(V(f'O4: read of stream {nm} refused again on its retry at t={t:.4f}', sym='O4-refused-twice', **mech0))
            cur_wait = sum(a for k, a in waiting.items() if name_of.get(k) not in ab_names or r['abandoned'][name_of.get(k)][0] > t)
            bound = (cur_wait + amt) / mx + EPS
            stats['refusals'] = stats.get('refusals', 0) + 1
            if retry > bound:
                dead = sum(a for k, a in waiting.items() if name_of.get(k) in ab_names and r['abandoned'][name_of.get(k)][0] <= t)
                exact = abs(retry - (cur_wait + amt + dead) / mx) < 1e-6
                viol.append(V(f'O4: stream {nm} refused at t={t:.4f} was told to wait {retry:.4f}s; reads currently waiting + own need '
                              f'{bound:.4f}s at max={mx} (excess {retry - bound:.4f}s)', sym='O4-wait-too-long',
                              excess_is_abandoned_share=bool(exact and dead > 0), **mech0))
            waiting[tok] = amt
        else:
            waiting.pop(tok, None)
    # O5
    for nm, info in r['raised'].items():
        if info[0] == 'raise':
            _, oi, rep, nsleeps_after, same = info
            if not same:
                viol.append(V(f'O5: read of failed stream {nm} raised {rep}, not the transfer\'s exception', sym='O5-wrong-exception', **mech0))
    for nm, ab_rec in r['abandoned'].items():
        t_ab, how = ab_rec[0], ab_rec[1]
        op_ab = ab_rec[2] if len(ab_rec) > 2 else None
        if how in ('fail', 'cancel'):
            info = r['raised'].get(nm)
            if info is not None and info[0] == 'raise' and op_ab is not None and info[1] != op_ab:
                # the read that was WAITING when the transfer failed has to be the one that raises: it must not hand out data first
                viol.append(V(f'O5: stream {nm}: read #{op_ab} was waiting for the limit when its transfer failed at t={t_ab:.4f}, yet it returned data; '
                              f'the error only came out of read #{info[1]}', sym='O5-late-raise', **mech0))
            if nm not in r['raised']:
                viol.append(V(f'O5: stream {nm} whose transfer failed at t={t_ab:.4f} kept returning data', sym='O5-no-raise', **mech0))
            later = [s for s in r['sleeps'] if s[0] == nm and s[1] > t_ab + 1e-12]
            if later:
                viol.append(V(f'O5: stream {nm} slept again after its transfer failed', sym='O5-slept-again', **mech0))
    if not r['ok']:
        viol.append(V('simulation did not finish: a stream thread never completed its reads (starved)', sym='starved', **mech0))
    # keep one witness per kind of violation in front (the runner keeps only the first few per case)
    seen = set()
    first, rest = [], []
    for v in viol:
        (first if v['mech']['sym'] not in seen else rest).append(v)
        seen.add(v['mech']['sym'])
    return first + rest, stats


# --------------------------------------------------------------------- cases
def ops_around(rng, mx, n, amt_set, load_set):
    ops = []
    for _ in range(n):
        amt = rng.choice(amt_set)
        load = rng.choice(load_set)
        think = 0.0 if load == 'sat' else (amt / mx) / load if load else 0.0
        ops.append((amt, think))
    return ops


def gen_cases(tier, seed):
    rng = random.Random(seed)
    quick = tier == 'quick'
    cases = []
    mx = 1000.0
    N = 150 if quick else 1200
    for i in range(N):
        S = rng.randint(1, 8)
        thr = rng.choice([100, 100, 50, 250])
        amt_set = rng.choice([[10, 50, 100], [100], [99, 100, 101], [1, 1000], [thr - 1, thr, thr + 1], [250, 30]])
        load_set = rng.choice([['sat'], [0.99, 1.0, 1.01], [0.1, 10.0], ['sat', 0.5, 2.0], [0.999, 1.001]])
        nops = max(4, (60 if quick else 120) // S)
        streams = [{'start': rng.choice([0.0, 0.0, rng.random() * 0.2]), 'ops': ops_around(rng, mx, nops, amt_set, load_set)} for _ in range(S)]
        fam = 'saturated' if load_set == ['sat'] else 'mixed'
        cases.append({'family': fam, 'same_transfer': rng.random() < 0.5, 'seed': rng.randrange(1 << 30), 'max': mx, 'threshold': thr, 'streams': streams,
                      'lateness': rng.choice(['none', 'none', 'small', 'large']), 'profile': 'default'})
    # request retries: the body is rewound (seek(0)) after a good part of it was read, and read again - once or several times
    for i in range(40 if quick else 300):
        S = rng.randint(1, 3)
        thr = rng.choice([100, 50])
        amt = rng.choice([50, 100])
        nops = rng.choice([40, 60])
        streams = []
        for _ in range(S):
            k = rng.randrange(nops // 3, nops // 2)
            rw = [k] + ([k + (nops - k) // 2] if rng.random() < 0.4 else [])
            streams.append({'start': 0.0, 'ops': [(amt, 0.0)] * nops, 'rewind_before': rw})
        cases.append({'family': 'rewind', 'same_transfer': rng.random() < 0.5, 'seed': rng.randrange(1 << 30), 'max': mx, 'threshold': thr, 'streams': streams,
                      'lateness': rng.choice(['none', 'small']), 'profile': 'default'})
    # O3: evenly staggered demand below the limit
    for i in range(40 if quick else 300):
        S = rng.randint(1, 8)
        load = rng.choice([0.3, 0.6, 0.9, 0.99])
        amt = rng.choice([100, 150, 1000])
        period = amt * S / (load * mx)
        streams = [{'start': 0.5 + k * period / S, 'ops': [(amt, 0.0)] + [(amt, period)] * (30 // S + 3)} for k in range(S)]
        # under a coarse clock the measured inter-arrival time is off by up to one tick: keep a margin so that the
        # demand is below the limit also as the limiter's own clock measures it
        prof = rng.choice(['default', 'default', 'coarse']) if load <= 0.6 else 'default'
        cases.append({'family': 'under', 'same_transfer': rng.random() < 0.5, 'load': load, 'seed': rng.randrange(1 << 30), 'max': mx, 'threshold': min(100, amt), 'streams': streams,
                      'lateness': 'none', 'profile': prof})
    # default clock: a contended burst in which threads are preempted right after reading the clock (so that another
    # stream's consume can overtake them), followed by a quiet phase in which one stream reads a tiny fraction of the
    # limit: whatever happened during the burst, nothing may be delayed in the quiet phase
    for i in range(40 if quick else 300):
        S = rng.choice([2, 3, 4, 5])
        amt = rng.choice([10, 50, 100])
        streams = [{'start': 0.0, 'ops': [(amt, rng.choice([0.0, 0.01]))] * 8} for k in range(S)]
        streams[0]['ops'] = streams[0]['ops'] + [(amt, 1.0)] * 30
        cases.append({'family': 'under', 'same_transfer': rng.random() < 0.5, 'quiet_from': 8, 'load': 0.1, 'seed': rng.randrange(1 << 30), 'max': mx, 'threshold': amt,
                      'streams': streams, 'lateness': 'none', 'profile': 'default', 'time_yield': rng.choice([0.3, 0.6, 0.9]),
                      'yield_until': 2.5, 'yield_delays': rng.choice([[0.0, 0.001], [0.005, 0.02], [0.05, 0.1]])})
    # coarse clock: a short saturated burst of small reads (several scheduled wake-ups fall into one clock tick), after
    # which a single stream reads a tiny fraction of the limit: nothing may be delayed any more
    for i in range(10 if quick else 60):
        S = rng.choice([3, 4, 5])
        streams = [{'start': 0.0, 'ops': [(10, 0.0)] * 6} for k in range(S)]
        streams[0]['ops'] = streams[0]['ops'] + [(10, 1.0)] * 30
        cases.append({'family': 'under', 'same_transfer': rng.random() < 0.5, 'quiet_from': 6, 'load': 0.01, 'seed': rng.randrange(1 << 30), 'max': mx, 'threshold': 10,
                      'streams': streams, 'lateness': 'none', 'profile': rng.choice(['coarse', 'coarse', 'default'])})
    # abandonment at every wait point
    for i in range(80 if quick else 600):
        S = rng.randint(2, 6)
        streams = [{'start': 0.0, 'ops': [(100, 0.0)] * (12 if quick else 20)} for _ in range(S)]
        victims = rng.sample(range(S), rng.choice([1, 1, 2]))
        for v in victims:
            streams[v]['abandon'] = {'at_sleep': rng.randrange(0, 4), 'how': rng.choice(['fail', 'cancel', 'vanish'])}
        cases.append({'family': 'abandon', 'seed': rng.randrange(1 << 30), 'max': mx, 'threshold': 100, 'streams': streams,
                      'lateness': rng.choice(['none', 'small']), 'profile': 'default'})
    # coarse clock, saturated
    for i in range(30 if quick else 200):
        S = rng.randint(1, 6)
        streams = [{'start': 0.0, 'ops': [(100, rng.choice([0.0, 0.01]))] * 15} for _ in range(S)]
        cases.append({'family': 'coarse', 'same_transfer': rng.random() < 0.5, 'seed': rng.randrange(1 << 30), 'max': mx, 'threshold': 100, 'streams': streams,
                      'lateness': 'none', 'profile': 'coarse'})
    # end to end: every way data enters or leaves a manager with max_bandwidth set must pass through the limiter
    for rep in range(1 if quick else 4):
        for kind, ends in (('upload', ('path', 'seekable', 'nonseekable')), ('download', ('path', 'seekable', 'nonseekable'))):
            for end in ends:
                for multi in (False, True):
                    cases.append({'family': 'e2e', 'seed': rng.randrange(1 << 30), 'kind': kind, 'end': end, 'multi': multi,
                                  'conc': rng.choice([1, 1, 2]), 'size': rng.choice([4, 5]) * 1024 * 1024 + rng.choice([0, 12345]),
                                  'max': 1024 * 1024.0})
    # endpoints / checksum modes that make botocore read an upload body before it is sent (plain http: payload hash and checksum up front)
    for rep in range(1 if quick else 4):
        for end in ('path', 'seekable', 'nonseekable'):
            for multi in (False, True):
                for client in ({'scheme': 'http', 'checksum': 'when_supported'}, {'scheme': 'http', 'checksum': 'when_required'},
                               {'scheme': 'https', 'checksum': 'when_required'}):
                    cases.append({'family': 'e2e', 'seed': rng.randrange(1 << 30), 'kind': 'upload', 'end': end, 'multi': multi, 'conc': 1, 'client': client,
                                  'size': rng.choice([3, 4]) * 1024 * 1024 + rng.choice([0, 4321]), 'max': 1024 * 1024.0})
    # bodies smaller than the limiter's 256 KiB read threshold (their bytes are charged when the body is closed): many small
    # transfers through one manager, and multipart transfers with small parts
    for rep in range(1 if quick else 4):
        for kind, ends in (('upload', ('path', 'seekable', 'nonseekable')), ('download', ('path', 'seekable', 'nonseekable'))):
            for end in ends:
                for io in ((64 * 1024, 256 * 1024) if kind == 'download' else (64 * 1024,)):
                    cases.append({'family': 'e2e', 'seed': rng.randrange(1 << 30), 'kind': kind, 'end': end, 'multi': False, 'conc': rng.choice([1, 2]), 'io': io,
                                  'size': rng.choice([190, 100, 255]) * 1024 + rng.choice([0, 77]), 'count': rng.choice([24, 40]), 'max': 1024 * 1024.0})
                    cases.append({'family': 'e2e', 'seed': rng.randrange(1 << 30), 'kind': kind, 'end': end, 'multi': True, 'conc': rng.choice([1, 2]), 'io': io,
                                  'part': rng.choice([100, 200]) * 1024, 'size': 4 * 1024 * 1024 + 4242, 'max': 1024 * 1024.0})
    # a client with a history: a legacy S3Transfer or an earlier manager (boto3 builds one per call) was used on it before
    r3 = random.Random(seed + 5)
    for c in cases:
        if c.get('family') == 'e2e' and r3.random() < 0.35:
            c['prior_use'] = r3.choice(['legacy', 'manager', 'overlap'])

    return cases


def run_e2e(case):
    """TransferManager(max_bandwidth) with the virtual clock installed: the
    transfer must finish, bytes must be right, and the virtual duration must be
    at least size/(1.25*max) minus the burst (i.e. throttling really applied)."""
    import s3transfer.bandwidth as bw
    from .. import e2e, oracles

    sim = vtime.Sim(seed=case['seed'])

    class TU:
        def time(self):
            return sim.time()

        def sleep(self, d):
            with sim.lock:
                sim.now += d
                sim.sleeps.append(['x', sim.now, d, sim.now])

    old = bw.TimeUtils
    bw.TimeUtils = TU
    try:
        size = case['size']
        count = case.get('count', 1)  # 'many' runs: that many transfers of `size` bytes each through one manager
        t = {'kind': case['kind'], 'size': size}
        t['src' if case['kind'] == 'upload' else 'dst'] = case.get('end', 'path')
        MB = 1024 * 1024
        part = case.get('part', MB)  # multipart runs: part size (may be below the limiter's 256 KiB read threshold)
        conc = case.get('conc', 1)
        io_chunk = case.get('io', 64 * 1024)
        cfg = dict(max_bandwidth=int(case['max']), io_chunksize=io_chunk, max_request_concurrency=conc)
        if case.get('multi'):
            cfg.update(multipart_threshold=part, multipart_chunksize=part)
        else:
            cfg.update(multipart_threshold=64 * MB)
        import copy as _copy

        spec = {'seed': case['seed'], 'config': cfg, 'transfers': [_copy.deepcopy(t) for _ in range(count)], 'body_read_sizes': [16384], 'min_part': part}
        if case.get('client'):
            spec['client'] = case['client']
        if case.get('prior_use'):
            spec['prior_use'] = case['prior_use']
        burst = (2 * conc + 1) * 256 * 1024
        size = size * count

        def ev(obs):
            viol = []
            for x in obs.xfers:
                viol += oracles.content_oracle(obs, x)
                if x.outcome != 'success':
                    viol.append(V(f'e2e {x.kind} with max_bandwidth failed: {x.exc!r}', sym='e2e-failed', family='e2e'))
            dur = sim.now
            need = (size - burst) / (1.25 * case['max'])
            if dur < need:
                body = (part if case.get('multi') else case['size'])
                viol.append(V(f'e2e {case["kind"]} ({case.get("end")}, {"multipart" if case.get("multi") else "single"}, {count} transfer(s), bodies of {body} bytes, '
                              f'io_chunksize {io_chunk}) of {size} bytes in total at max_bandwidth={case["max"]} took {dur:.3f}s of virtual time; the limit '
                              f'requires at least {need:.3f}s', sym='e2e-not-throttled', family='e2e', kind=case['kind'],
                              body_below_read_threshold=body < 256 * 1024, io_chunk_below_read_threshold=io_chunk < 256 * 1024))
            # the other direction: with one request at a time the limiter may not take much longer than the limit needs for the
            # bytes moved (bytes must be charged once: reads botocore makes before the request is sent - payload hash / checksum
            # over a plain-http endpoint - move nothing)
            allowed = 1.3 * size / case['max'] + 0.6
            if conc == 1 and dur > allowed:
                viol.append(V(f'e2e {case["kind"]} ({case.get("end")}, {"multipart" if case.get("multi") else "single"}, client {case.get("client")}) of {size} '
                              f'bytes at max_bandwidth={case["max"]} took {dur:.3f}s of virtual time with one request at a time; the limit needs '
                              f'{size / case["max"]:.3f}s (bodies of {(part if case.get("multi") else case["size"])} bytes, io_chunksize {io_chunk})',
                              sym='e2e-over-throttled', family='e2e', kind=case['kind'],
                              small_body_vs_io_chunk=(part if case.get('multi') else case['size']) < 8 * io_chunk))
            nreq = len([e for e in obs.events if e['kind'] == 'api.begin' and e['op'] in ('UploadPart', 'GetObject', 'PutObject')])
            st = {'e2e_runs': 1, 'e2e_sleeps': len(sim.sleeps), 'e2e_' + case['kind'] + '_' + str(case.get('end')) + ('_multi' if case.get('multi') else '_single'): 1,
                  'e2e_data_requests': nreq}
            if bool(case.get('multi')) != (nreq > count):
                return viol, st, False, {'note': 'mode not as intended', 'requests': nreq}
            return viol, st, need > 0, {'virtual_duration': dur, 'required': need, 'sleeps': len(sim.sleeps)}

        return e2e.run_with(spec, ev)
    finally:
        bw.TimeUtils = old


def run_case(case):
    if case.get('family') == 'e2e':
        return run_e2e(case)
    r = run_sim(case)
    viol, stats = check(case, r)
    nontrivial = stats['throttled_reads'] > 0 or (case.get('family') == 'under' and stats['reads'] >= 10)
    stats['fam_' + str(case.get('family'))] = 1
    import hashlib
    import json

    key = hashlib.sha1(json.dumps(case, sort_keys=True).encode()).hexdigest()[:16] if nontrivial else None
    return {'verdict': 'violated' if viol else 'held', 'key': key, 'violations': viol[:6], 'stats': stats,
            'summary': {'streams': len(case['streams']), 'reads': stats['reads'], 'throttled': stats['throttled_reads'], 'end': r['end'],
                        'first_reads': [(round(x[0], 4), x[1], x[2], x[3]) for x in sorted(r['reads'])[:8]]},
            'fatal': not r['ok']}
