"""C17 — a transfer's state only moves forward and stays self-consistent."""
import itertools
import random
import threading

from .. import e2e, gen, oracles
from ..oracles import V

PROPERTY = 'C17'
LEVEL = 'exploration'
EXHAUSTIVE = {'quick': True, 'thorough': True}
RULE = ('(seq) the real TransferCoordinator/TransferFuture driven through EVERY sequence of {queued, running, set_result, '
        'set_exception, set_exception(override), cancel, cancel(msg, FatalError), announce_done, add_done_callback, '
        'add_failure_cleanup, future.set_exception, future.cancel} up to the length bound (quick 6, thorough 8), explored as the reachable '
        'graph of (reference state, real object snapshot); after every operation done(), status, exception, result()/raised exception '
        '(once announced), callback and cleanup run-counts are compared with a reference state machine written from the statement, and '
        'done() True->False is checked directly; (thr) every split of sampled sequences of length <=5 over 2-3 real threads with '
        'line-level yield injection in futures.py: per-operation results and the final state must be explained by some interleaving '
        'of the reference model (cancel = mark + announce), callbacks exactly once, writes to status/exception/result only under the '
        'coordinator\'s own lock (lockset monitor); (e2e) the same consistency assertions evaluated inside on_done and after result() '
        'of real transfers with faults/cancels, with the lockset coordinator substituted into the manager; thread cases also use the operations cancel-with-unbuildable-exception, obs (what a user sees) and final_task, and ordered one-preemption line windows over every statement of the coordinator; non-trivial = a comparison '
        'was made on a state with >=1 completed operation; distinct = distinct (reference state, op) pairs / thread splits / shapes')
ASSUMPTIONS = ['non-done -> non-done transitions (e.g. running -> queued) are not demanded to be rejected: the statement only forbids '
               'leaving a done state']
CASE_TIMEOUT = 300.0

FINAL = ('success', 'failed', 'cancelled')
OPS = ['queued', 'running', 'set_result', 'set_exc', 'set_exc_override', 'cancel', 'cancel_fatal', 'announce', 'add_cb', 'add_cleanup',
       'fut_set_exc', 'fut_cancel', 'cancel_badexc', 'set_result_none', 'add_cb_raising', 'add_cleanup_raising', 'set_exc_base']
# ('set_exc_base': set_exception with a BaseException that is not an Exception - what the submission step records when it is hit by a
# SystemExit / KeyboardInterrupt / framework class: a failure like any other, never an override)
# ('add_cb_raising' / 'add_cleanup_raising': a done callback / failure cleanup that RAISES when it is run - it counts as run, and has no
# other effect on the transfer's state)
# 'obs' (threads only): what a user sees - 'pending' while done has not been announced, afterwards what result() gives
# 'final_task' (threads only): what Task.__call__ does for a transfer's final task - skip the work if the transfer is already done,
# otherwise store the result; then announce done
# 'poll_done' (threads only): future.done() as a poller sees it
THR_OPS = OPS + ['obs', 'obs', 'final_task', 'poll_done']


class NeedsTwoArgs(Exception):
    """An exception type that cannot be built from a message alone (like botocore's ClientError): cancel(msg, exc_type=...) with it
    fails inside cancel()."""

    def __init__(self, a, b):
        super().__init__(a, b)


class Ref:
    def __init__(self):
        self.status = 'not-started'
        self.exc = None   # symbolic: ('E', k) / ('Cancelled', msg) / ('Fatal', msg) / ('U', k)
        self.result = None
        self.announced = False
        self.cbs_pending = 0
        self.cbs_ran = 0
        self.cl_pending = 0
        self.cl_ran = 0
        self.k = 0

    def key(self):
        return (self.status, self.exc, self.result, self.announced, self.cbs_pending, self.cbs_ran, self.cl_pending, self.cl_ran)

    def done(self):
        return self.status in FINAL

    def _announce(self):
        if self.status != 'success':
            self.cl_ran += self.cl_pending
            self.cl_pending = 0
        self.announced = True
        self.cbs_ran += self.cbs_pending
        self.cbs_pending = 0

    def apply(self, op, step):
        """Returns ('ok', None) or ('raise', name)."""
        if op in ('queued', 'running'):
            if self.done():
                return ('raise', 'RuntimeError')
            self.status = op
        elif op in ('set_result', 'set_result_none'):
            # real transfers (upload / download / copy / delete) all finish with the result None
            self.exc = None
            self.result = ('R', step) if op == 'set_result' else None
            self.status = 'success'
        elif op in ('set_exc', 'set_exc_base'):
            if not self.done():
                self.exc = ('E', step)
                self.status = 'failed'
        elif op == 'set_exc_override':
            self.exc = ('E', step)
            self.status = 'failed'
        elif op in ('cancel', 'cancel_fatal', 'fut_cancel'):
            if not self.done():
                self.exc = ('Fatal', 'm') if op == 'cancel_fatal' else ('Cancelled', '')
                was_ns = self.status == 'not-started'
                self.status = 'cancelled'
                if was_ns:
                    self._announce()
        elif op == 'cancel_badexc':
            if not self.done():
                return ('raise', 'TypeError')  # the cancellation error cannot be built: nothing may have changed
        elif op == 'poll_done':
            return ('ok', self.done())
        elif op == 'obs':
            if not self.announced:
                return ('ok', 'pending')
            return ('ok', ('raise', self.exc) if self.exc is not None else ('ret', self.result))
        elif op == 'announce':
            self._announce()
        elif op in ('add_cb', 'add_cb_raising'):
            self.cbs_pending += 1
        elif op in ('add_cleanup', 'add_cleanup_raising'):
            self.cl_pending += 1
        elif op == 'fut_set_exc':
            if not self.done():
                return ('raise', 'TransferNotDoneError')
            self.exc = ('U', step)
            self.status = 'failed'
        return ('ok', None)


class Real:
    """The real coordinator + future, with symbolic exception bookkeeping."""

    def __init__(self, coord_cls=None):
        from s3transfer.futures import TransferCoordinator, TransferFuture

        self.coord = (coord_cls or TransferCoordinator)(transfer_id=7)
        self.future = TransferFuture(coordinator=self.coord)
        self.cbs_ran = 0
        self.cl_ran = 0
        self.lock = threading.Lock()
        self.sym = {}

    def _cb(self):
        with self.lock:
            self.cbs_ran += 1

    def _cl(self):
        with self.lock:
            self.cl_ran += 1

    def _cb_raising(self):
        with self.lock:
            self.cbs_ran += 1
        raise ValueError('vf: this done callback fails')

    def _cl_raising(self):
        with self.lock:
            self.cl_ran += 1
        raise OSError('vf: this cleanup fails')

    def apply(self, op, step):
        from s3transfer.exceptions import FatalError, TransferNotDoneError

        c = self.coord
        try:
            if op == 'queued':
                c.set_status_to_queued()
            elif op == 'running':
                c.set_status_to_running()
            elif op == 'set_result':
                c.set_result(('R', step))
            elif op == 'set_result_none':
                c.set_result(None)
            elif op == 'set_exc_base':
                e = (SystemExit if step % 2 else KeyboardInterrupt)(f'E{step}')
                self.sym[id(e)] = ('E', step)
                self._keep = getattr(self, '_keep', []) + [e]
                c.set_exception(e)
            elif op in ('set_exc', 'set_exc_override'):
                e = ValueError(f'E{step}')
                self.sym[id(e)] = ('E', step)
                self._keep = getattr(self, '_keep', []) + [e]
                c.set_exception(e, override=(op == 'set_exc_override'))
            elif op == 'cancel':
                c.cancel()
            elif op == 'cancel_fatal':
                c.cancel('m', FatalError)
            elif op == 'fut_cancel':
                self.future.cancel()
            elif op == 'cancel_badexc':
                c.cancel('m', NeedsTwoArgs)
            elif op == 'poll_done':
                return ('ok', self.future.done())
            elif op == 'final_task':
                if not c.done():
                    c.set_result(('R', step))
                c.announce_done()
            elif op == 'obs':
                if not c._done_event.is_set():
                    return ('ok', 'pending')
                k, v = self.result_now()
                return ('ok', ('raise', v) if k == 'raise' else ('ret', v))
            elif op == 'announce':
                c.announce_done()
            elif op == 'add_cb':
                c.add_done_callback(self._cb)
            elif op == 'add_cleanup':
                c.add_failure_cleanup(self._cl)
            elif op == 'add_cb_raising':
                c.add_done_callback(self._cb_raising)
            elif op == 'add_cleanup_raising':
                c.add_failure_cleanup(self._cl_raising)
            elif op == 'fut_set_exc':
                e = KeyError(f'U{step}')
                self.sym[id(e)] = ('U', step)
                self._keep = getattr(self, '_keep', []) + [e]
                self.future.set_exception(e)
            return ('ok', None)
        except RuntimeError:
            return ('raise', 'RuntimeError')
        except TransferNotDoneError:
            return ('raise', 'TransferNotDoneError')
        except Exception as e:  # noqa
            return ('raise', type(e).__name__)

    def symbolic_exc(self, e):
        from s3transfer.exceptions import CancelledError, FatalError

        if e is None:
            return None
        if id(e) in self.sym:
            return self.sym[id(e)]
        if type(e) is FatalError:
            return ('Fatal', str(e))
        if type(e) is CancelledError:
            return ('Cancelled', '')  # (no message is given by these operations: the text the library chooses is not compared)
        return ('?', repr(e))

    def observe(self):
        c = self.coord
        return {'done': self.future.done(), 'status': c.status, 'exc': self.symbolic_exc(c.exception),
                'event': c._done_event.is_set(), 'cbs_ran': self.cbs_ran, 'cl_ran': self.cl_ran}

    def result_now(self):
        try:
            return ('ok', self.future.result())
        except BaseException as e:  # noqa
            return ('raise', self.symbolic_exc(e))

    def snapshot(self):
        c = self.coord
        return (c.status, self.symbolic_exc(c.exception), repr(c._result), c._done_event.is_set(), len(c._done_callbacks),
                len(c._failure_cleanups), self.cbs_ran, self.cl_ran)


def compare(ref, real, path, viol, stats):
    ob = real.observe()
    stats['comparisons'] += 1
    ctx = f'after {path}'

    def bad(what, sym, **m):
        if len(viol) < 6:
            viol.append(V(f'TransferCoordinator {ctx}: {what}', cls='TransferCoordinator', sym=sym, **m))

    if ob['done'] != ref.done():
        bad(f'done()={ob["done"]}, reference {ref.done()}', 'done-mismatch')
    if ob['status'] != ref.status:
        bad(f'status={ob["status"]!r}, reference {ref.status!r}', 'status-mismatch')
    if ob['exc'] != ref.exc:
        bad(f'stored exception {ob["exc"]}, reference {ref.exc} (first failure/cancel must be kept)', 'exception-mismatch')
    if ob['event'] != ref.announced:
        bad(f'result() unblocked={ob["event"]}, reference announced={ref.announced}', 'announce-mismatch')
    if ob['cbs_ran'] != ref.cbs_ran:
        bad(f'done callbacks ran {ob["cbs_ran"]} times, reference {ref.cbs_ran}', 'done-callback-count')
    if ob['cl_ran'] != ref.cl_ran:
        bad(f'failure cleanups ran {ob["cl_ran"]} times, reference {ref.cl_ran}', 'cleanup-count')
    if ref.announced and ob['event']:
        r = real.result_now()
        want = ('raise', ref.exc) if ref.exc is not None else ('ok', ref.result)
        stats['result_checks'] += 1
        if r != want:
            bad(f'result() gave {r}, reference {want}', 'result-mismatch')
        if ref.done() and ((ref.exc is not None) != (ref.status in ('failed', 'cancelled'))):
            pass  # reference itself never reaches this; kept for symmetry
        if ob['done'] and ((ob['exc'] is not None) != (ob['status'] in ('failed', 'cancelled'))):
            bad(f'announced with status {ob["status"]!r} but exception {ob["exc"]}', 'status-exception-disagree')


def explore(depth, ops):
    viol = []
    stats = {'comparisons': 0, 'result_checks': 0, 'states': 0, 'edges': 0}
    seen = {}
    distinct = set()

    def replay(path):
        ref, real = Ref(), Real()
        was_done = False
        for i, op in enumerate(path):
            real.apply(op, i)
            ref.apply(op, i)
        return ref, real

    def dfs(path, remaining):
        ref, real = replay(path)
        k = (ref.key(), real.snapshot())
        if seen.get(k, -1) >= remaining:
            return
        seen[k] = remaining
        if remaining == 0:
            return
        for op in ops:
            if op in ('add_cb', 'add_cb_raising') and ref.cbs_pending + ref.cbs_ran >= 2:
                continue
            if op in ('add_cleanup', 'add_cleanup_raising') and ref.cl_pending + ref.cl_ran >= 2:
                continue
            ref2, real2 = replay(path)
            done_before = real2.future.done()
            step = len(path)
            got = real2.apply(op, step)
            want = ref2.apply(op, step)
            stats['edges'] += 1
            distinct.add((ref.key(), op))
            p2 = path + [op]
            if got != want:
                if len(viol) < 6:
                    viol.append(V(f'TransferCoordinator after {path}: {op} gave {got}, reference {want}', cls='TransferCoordinator',
                                  sym='op-result-mismatch', op=op))
                continue
            if done_before and not real2.future.done():
                if len(viol) < 6:
                    viol.append(V(f'TransferCoordinator after {p2}: done() went from True back to False', cls='TransferCoordinator',
                                  sym='done-regressed', op=op))
                continue
            n0 = len(viol)
            compare(ref2, real2, p2, viol, stats)
            if len(viol) > n0:
                continue
            dfs(p2, remaining - 1)

    dfs([], depth)
    stats['states'] = len(seen)
    return viol, stats, len(distinct)


# ----------------------------------------------------------------- threaded
class OwnerLock:
    """Lock that records its owner thread (for the lockset monitor)."""

    def __init__(self):
        self._l = threading.Lock()
        self.owner = None

    def acquire(self, *a, **k):
        r = self._l.acquire(*a, **k)
        if r:
            self.owner = threading.get_ident()
        return r

    def release(self):
        self.owner = None
        self._l.release()

    def __enter__(self):
        self.acquire()
        return self

    def __exit__(self, *a):
        self.release()

    def locked(self):
        return self._l.locked()


LOCKSET_COUNT = [0]


def make_lockset_coordinator(violations):
    from s3transfer.futures import TransferCoordinator

    class LocksetCoordinator(TransferCoordinator):
        _vf_ready = False

        def __init__(self, *a, **k):
            super().__init__(*a, **k)
            # (only where the coordinator guards its state with a plain lock kept under this name: a private detail, so when it is
            # not there the lockset monitor simply does not apply - the behavioural comparison with the model is what decides)
            if isinstance(self.__dict__.get('_lock'), type(threading.Lock())):
                object.__setattr__(self, '_lock', OwnerLock())
                object.__setattr__(self, '_vf_ready', True)

        def __setattr__(self, name, value):
            if self._vf_ready and name in ('_status', '_exception', '_result'):
                LOCKSET_COUNT[0] += 1
                lk = self.__dict__.get('_lock')
                if isinstance(lk, OwnerLock) and lk.owner != threading.get_ident():
                    violations.append((name, threading.current_thread().name))
            object.__setattr__(self, name, value)

    return LocksetCoordinator


def model_outcomes(thread_ops, prefix=()):
    """All (per-op results, final key) reachable by interleaving the threads'
    op lists in the reference model; cancel = mark, then announce as a separate step."""
    seqs = []
    # result() reads the stored exception and the result without the lock, so when a reader ('obs') is present set_result is
    # modelled as its two visible stores (exception cleared; result + status stored) with the coordinator lock held in between
    split = any(op == 'obs' for ops in thread_ops for (op, _) in ops)
    for ti, ops in enumerate(thread_ops):
        s = []
        for oi, (op, step) in enumerate(ops):
            # announce_done is not atomic: [read status] [run+clear cleanups under their lock] [set event, run+clear callbacks]
            if op in ('cancel', 'cancel_fatal', 'fut_cancel'):
                s.append((ti, oi, op, step, 'mark'))
                s.append((ti, oi, op, step, 'c_check'))
                s.append((ti, oi, op, step, 'c_cleanup'))
                s.append((ti, oi, op, step, 'c_event'))
                s.append((ti, oi, op, step, 'c_cbs'))
            elif op == 'announce':
                s.append((ti, oi, op, step, 'a_check'))
                s.append((ti, oi, op, step, 'a_cleanup'))
                s.append((ti, oi, op, step, 'a_event'))
                s.append((ti, oi, op, step, 'a_cbs'))
            elif op == 'final_task':
                s.append((ti, oi, op, step, 'f_check'))
                if split:
                    s.append((ti, oi, op, step, 'f_set_exc'))
                    s.append((ti, oi, op, step, 'f_set_rest'))
                else:
                    s.append((ti, oi, op, step, 'f_set'))
                s.append((ti, oi, op, step, 'a_check'))
                s.append((ti, oi, op, step, 'a_cleanup'))
                s.append((ti, oi, op, step, 'a_event'))
                s.append((ti, oi, op, step, 'a_cbs'))
            elif op == 'obs':
                # result() reads the done event, then the stored exception, then the result: three separate reads
                s.append((ti, oi, op, step, 'o_event'))
                s.append((ti, oi, op, step, 'o_exc'))
                s.append((ti, oi, op, step, 'o_exc2'))
                s.append((ti, oi, op, step, 'o_res'))
            elif op in ('set_result', 'set_result_none') and split:
                s.append((ti, oi, op, step, 'sr_exc'))
                s.append((ti, oi, op, step, 'sr_rest'))
            else:
                s.append((ti, oi, op, step, 'atomic'))
        seqs.append(s)
    import copy as _copy

    outs = set()
    start_ref = Ref()
    for pop in prefix:
        start_ref.apply(pop, 90)
    seen = set()
    stack = [(tuple(0 for _ in seqs), start_ref, {}, {}, {})]
    while stack:
        pos, ref, res, pend_ann, do_cl = stack.pop()
        sig = (pos, ref.key(), tuple(sorted(res.items())), tuple(sorted(pend_ann.items())), tuple(sorted(do_cl.items())))
        if sig in seen:
            continue
        seen.add(sig)
        if all(pos[t] == len(seqs[t]) for t in range(len(seqs))):
            outs.add((tuple(sorted(res.items())), (ref.status, ref.exc, ref.result, ref.announced, ref.cbs_ran, ref.cl_ran)))
            continue
        for t in range(len(seqs)):
            if pos[t] == len(seqs[t]):
                continue
            (ti, oi, op, step, part) = seqs[t][pos[t]]
            holder = do_cl.get((-1,))
            if holder is not None and holder != t and (part in ('mark', 'sr_exc', 'f_set_exc', 'f_set') or (
                    part == 'atomic' and op in ('queued', 'running', 'set_result', 'set_result_none', 'set_exc', 'set_exc_override', 'fut_set_exc', 'cancel_badexc'))):
                continue  # needs the coordinator lock, which another thread holds
            r2 = _copy.copy(ref)
            res2, pa2, dc2 = dict(res), dict(pend_ann), dict(do_cl)
            if part in ('sr_exc', 'f_set_exc'):
                if part == 'sr_exc' or dc2.get((ti, oi, 'f')):
                    if part == 'sr_exc':
                        res2[(ti, oi)] = ('ok', None)
                    r2.exc = None
                    dc2[(-1,)] = t
            elif part in ('sr_rest', 'f_set_rest'):
                if part == 'sr_rest' or dc2.pop((ti, oi, 'f'), False):
                    r2.apply(op if op == 'set_result_none' else 'set_result', step)
                    dc2.pop((-1,), None)
            elif part == 'atomic':
                res2[(ti, oi)] = r2.apply(op, step)
            elif part == 'mark':
                res2[(ti, oi)] = ('ok', None)
                if not r2.done():
                    r2.exc = ('Fatal', 'm') if op == 'cancel_fatal' else ('Cancelled', '')
                    pa2[(ti, oi)] = r2.status == 'not-started'
                    r2.status = 'cancelled'
                else:
                    pa2[(ti, oi)] = False
            elif part in ('a_check', 'c_check'):
                if part == 'a_check':
                    res2[(ti, oi)] = ('ok', None)
                    pa2[(ti, oi)] = True
                dc2[(ti, oi)] = bool(pa2.get((ti, oi))) and r2.status != 'success'
            elif part in ('a_cleanup', 'c_cleanup'):
                if dc2.get((ti, oi)):
                    r2.cl_ran += r2.cl_pending
                    r2.cl_pending = 0
            elif part in ('a_event', 'c_event'):
                # the done event is set first (result() stops blocking), the done callbacks run after that
                if pa2.get((ti, oi)):
                    r2.announced = True
            elif part in ('a_cbs', 'c_cbs'):
                if pa2.get((ti, oi)):
                    r2.cbs_ran += r2.cbs_pending
                    r2.cbs_pending = 0
            elif part == 'f_check':
                dc2[(ti, oi, 'f')] = not r2.done()
            elif part == 'f_set':
                if dc2.pop((ti, oi, 'f'), False):
                    r2.apply('set_result', step)
            elif part == 'o_event':
                res2[(ti, oi)] = ('obs', 'go') if r2.announced else ('ok', 'pending')
            elif part == 'o_exc':
                # "if self._exception: raise self._exception" reads the field twice
                if res2[(ti, oi)] == ('obs', 'go'):
                    res2[(ti, oi)] = ('obs', 'raise') if r2.exc is not None else ('obs', 'go2')
            elif part == 'o_exc2':
                if res2[(ti, oi)] == ('obs', 'raise'):
                    res2[(ti, oi)] = ('ok', ('raise', r2.exc if r2.exc is not None else ('?', "TypeError('exceptions must derive from BaseException')")))
            elif part == 'o_res':
                if res2[(ti, oi)] == ('obs', 'go2'):
                    res2[(ti, oi)] = ('ok', ('ret', r2.result))
            npos = tuple(p + 1 if k == t else p for k, p in enumerate(pos))
            stack.append((npos, r2, res2, pa2, dc2))
    return outs


def threaded_case(case):
    from .. import yieldinj

    thread_ops = [[tuple(o) for o in t] for t in case['threads']]
    lock_viol = []
    cls = make_lockset_coordinator(lock_viol)
    viol = []
    runs = 0
    outcomes = model_outcomes(thread_ops, case.get('prefix', []))
    seen_finals = set()
    window_hits = 0
    yield_events = 0
    for rep in range(case.get('reps', 6)):
        real = Real(cls)
        for op in case.get('prefix', []):
            real.apply(op, 90)
        res = {}
        rl = threading.Lock()
        barrier = threading.Barrier(len(thread_ops))
        gate = threading.Event()  # window cases: the other threads start once thread 0 sits at the line (or has finished)
        ths = []
        started = []

        def run(ti):
            if not case.get('window'):
                barrier.wait()
            elif ti > 0:
                gate.wait(20)
                started.append(ti)
            try:
                for oi, (op, step) in enumerate(thread_ops[ti]):
                    r = real.apply(op, step)
                    with rl:
                        res[(ti, oi)] = r
            finally:
                if ti == 0:
                    gate.set()

        def at_window():
            # thread 0 is held at the line: let the others run as far as they can (to completion, or until they block on it)
            import time as _t

            from .. import watchdog

            gate.set()
            end = _t.monotonic() + 0.5
            with watchdog.polling():
                while _t.monotonic() < end:
                    if len(started) == len(ths) - 1 and (all(not t.is_alive() for t in ths[1:]) or watchdog.quiescent(gap=0.001)):
                        break

        wins = []
        if case.get('window'):
            w = case['window']
            wins = [{'file': 'futures.py', 'line': w['lineno'], 'nth': w.get('nth', 0), 'action': at_window, 'name': w.get('name'), 'wait': 1.0}]
        # a fresh injector per repetition (a window fires once), installed after the prefix so that the window is spent on the threads
        inj = yieldinj.Injector(p=case.get('yield_p', 0.3), seed=case['seed'] + rep, files=['futures.py'], windows=wins).install()
        try:
            ths[:] = [threading.Thread(target=run, args=(i,), daemon=True) for i in range(len(thread_ops))]
            for t in ths:
                t.start()
            for t in ths:
                t.join(20)
        finally:
            inj.uninstall()
        window_hits += len(inj.window_hits)
        yield_events += inj.events
        if any(t.is_alive() for t in ths):
            return {'verdict': 'inconclusive', 'key': None, 'violations': [], 'stats': {'thr_hung': 1}, 'summary': 'hung', 'fatal': True}
        runs += 1
        ob = real.observe()
        c = real.coord
        final = (ob['status'], ob['exc'], c._result, ob['event'], ob['cbs_ran'], ob['cl_ran'])
        got = (tuple(sorted(res.items())), final)
        seen_finals.add(final)
        if got not in outcomes and len(viol) < 3:
            viol.append(V(f'TransferCoordinator, threads {case["threads"]}: observed per-op results {sorted(res.items())} and final '
                          f'state {final} match no interleaving of the reference model ({len(outcomes)} possible outcomes)'
                          + (f'; a thread was held at {case["window"].get("name")}' if inj.window_hits else ''),
                          cls='TransferCoordinator', sym='not-linearizable'))
    if lock_viol and len(viol) < 4:
        viol.append(V(f'TransferCoordinator: {lock_viol[0][0]} written by {lock_viol[0][1]} without holding the coordinator lock '
                      f'({len(lock_viol)} writes)', cls='TransferCoordinator', sym='lockset'))
    return {'verdict': 'violated' if viol else 'held', 'key': f'thr-{case["threads"]}-{(case.get("window") or {}).get("lineno")}', 'violations': viol,
            'stats': {'thr_runs': runs, 'thr_model_outcomes': len(outcomes), 'thr_distinct_finals': len(seen_finals), 'yield_events': yield_events,
                      'thr_window_cases': 1 if case.get('window') else 0, 'thr_window_hits': window_hits,
                      'lockset_writes_checked': LOCKSET_COUNT[0]},
            'summary': {'threads': case['threads'], 'finals_seen': sorted(map(repr, seen_finals))[:4]}}


# ---------------------------------------------------------------------- e2e
def e2e_eval(obs):
    viol = []
    stats = {'e2e_checks': 0, 'lockset_writes_checked': LOCKSET_COUNT[0]}
    LOCKSET_COUNT[0] = 0
    for x in obs.xfers:
        if x.future is None or x.outcome is None:
            continue
        c = x.future._coordinator
        stats['e2e_checks'] += 1
        st, exc = c.status, c.exception
        if st not in FINAL:
            viol.append(V(f'{x.label}: result() returned but status is {st!r}', sym='announced-not-final', cls='e2e'))
        if (exc is not None) != (st in ('failed', 'cancelled')):
            viol.append(V(f'{x.label}: after done, status {st!r} but stored exception {exc!r}', sym='status-exception-disagree', cls='e2e'))
        if x.outcome == 'raised' and x.exc is not exc:
            viol.append(V(f'{x.label}: result() raised {x.exc!r} but the stored exception is {exc!r}', sym='result-mismatch', cls='e2e'))
        if x.outcome == 'success' and exc is not None:
            viol.append(V(f'{x.label}: result() returned normally but an exception {exc!r} is stored', sym='result-mismatch', cls='e2e'))
        for s in oracles.subs_of(x):
            for info in s.done_info:
                if not info['future_done']:
                    viol.append(V(f'{x.label}: future.done() False inside on_done', sym='on_done-not-done', cls='e2e'))
        v1 = oracles.first_outcome_oracle(obs, x) + oracles.stable_outcome_oracle(obs, x)
        for v in v1:
            v['mech']['cls'] = 'e2e'
        viol += v1
        stats['done_seen'] = stats.get('done_seen', 0) + len([e for e in obs.events if e['kind'] == 'done.seen' and e.get('label') == x.label])
    lv = getattr(obs, 'lockset_violations', [])
    if lv:
        viol.append(V(f'coordinator field {lv[0][0]} written by {lv[0][1]} without its lock', sym='lockset', cls='e2e'))
    return viol, stats, stats['e2e_checks'] > 0, {'outcomes': e2e.default_outcomes(obs)}


def run_e2e(spec):
    import s3transfer.manager as mgrmod

    lock_viol = []
    cls = make_lockset_coordinator(lock_viol)
    old = mgrmod.TransferCoordinator
    mgrmod.TransferCoordinator = cls
    try:
        def ev(obs):
            obs.lockset_violations = lock_viol
            return e2e_eval(obs)
        return e2e.run_with(spec, ev)
    finally:
        mgrmod.TransferCoordinator = old


def gen_cases(tier, seed):
    rng = random.Random(seed)
    quick = tier == 'quick'
    cases = [{'type': 'seq', 'depth': 6 if quick else 8}]
    pool = [o for o in THR_OPS]
    for i in range(120 if quick else 1200):
        n = rng.choice([3, 4, 5])
        ops = [(rng.choice(pool), 10 + j) for j in range(n)]
        nth = rng.choice([2, 2, 3])
        threads = [[] for _ in range(nth)]
        for o in ops:
            threads[rng.randrange(nth)].append(list(o))
        threads = [t for t in threads if t]
        if len(threads) < 2:
            continue
        if any(o[0] == 'obs' for o in ops):
            threads = [[[('final_task' if o == 'announce' else o), k] for o, k in t] for t in threads]
        cases.append({'type': 'thr', 'threads': threads, 'prefix': rng.choice([[], ['add_cb'], ['add_cb', 'add_cleanup'], ['queued', 'add_cb']]),
                      'seed': rng.randrange(1 << 30), 'yield_p': rng.choice([0.1, 0.4]), 'reps': 4 if quick else 10})
    # one preemption at every statement of the coordinator's state-changing methods: the thread that reaches the line first is held
    # there until the other threads have run as far as they can, then everything is compared with the reference model again
    from .. import windows

    lines = [l for l in windows.candidate_lines(['futures.py']) if l[2].startswith('TransferCoordinator.')]
    trigger = {'cancel': ['cancel', 'cancel_fatal', 'fut_cancel'], 'set_exception': ['set_exc', 'set_exc_override', 'fut_set_exc'], 'set_result': ['set_result'],
               'announce_done': ['announce'], '_run_': ['announce'], 'set_status_to_queued': ['queued'], 'set_status_to_running': ['running'],
               '_transition_to_non_done_state': ['queued', 'running'], 'add_done_callback': ['add_cb'], 'add_failure_cleanup': ['add_cleanup'],
               'result': ['obs'], 'done': ['poll_done', 'poll_done', 'cancel', 'set_exc']}
    for line in lines:
        meth = line[2].split('.', 1)[1]
        ops1 = next((v for k, v in trigger.items() if meth.startswith(k)), None)
        if not ops1:
            continue
        if meth == 'done':
            # a poller inside done() while a recorded failure / cancellation is replaced by the final step's success (and the other
            # finished-to-finished moves): done() must stay True
            for pre, o2 in ((['queued', 'running', 'cancel'], 'set_result'), (['queued', 'running', 'set_exc'], 'set_result'),
                            (['queued', 'running', 'set_result'], 'fut_set_exc'), (['queued', 'running', 'set_exc'], 'set_exc_override'),
                            (['queued', 'running'], 'cancel'), (['queued', 'running'], 'final_task')):
                cases.append({'type': 'thr', 'threads': [[['poll_done', 10]], [[o2, 20], ['poll_done', 21]]], 'prefix': pre,
                              'seed': rng.randrange(1 << 30), 'yield_p': 0.0, 'reps': 1,
                              'window': {'lineno': line[1], 'nth': 0, 'name': f'futures.py:{line[1]}:{line[2]}'}})
        # the final task of the transfer arriving while the first thread sits at the line, then a user reading the result
        for o1 in ops1:
            cases.append({'type': 'thr', 'threads': [[[o1, 10]], [['final_task', 25], ['obs', 29]]], 'prefix': ['queued', 'running', 'add_cb', 'add_cleanup'],
                          'seed': rng.randrange(1 << 30), 'yield_p': 0.0, 'reps': 1,
                          'window': {'lineno': line[1], 'nth': 0, 'name': f'futures.py:{line[1]}:{line[2]}'}})
        for rep in range(3 if quick else 12):
            t1 = [[rng.choice(ops1), 10]] + ([[rng.choice(pool), 11]] if rng.random() < 0.3 else [])
            t2 = [[rng.choice(pool), 20 + j] for j in range(rng.choice([0, 1, 2]))] + [['obs', 29]]
            if rng.random() < 0.6:
                t2.insert(rng.randrange(len(t2)), ['final_task', 25])
            # 'obs' is what a user sees once done was announced; the library announces only after the state is final (final
            # task, failed submission, cancel before start), so a bare announce_done on an unfinished transfer is not mixed with it
            t1 = [[('final_task' if o == 'announce' else o), k] for o, k in t1]
            t2 = [[('final_task' if o == 'announce' else o), k] for o, k in t2]
            cases.append({'type': 'thr', 'threads': [t1, t2], 'prefix': rng.choice([[], ['add_cb'], ['queued', 'add_cb', 'add_cleanup'], ['queued', 'running']]),
                          'seed': rng.randrange(1 << 30), 'yield_p': 0.0, 'reps': 1,
                          'window': {'lineno': line[1], 'nth': 0, 'name': f'futures.py:{line[1]}:{line[2]}'}})
    from .c04 import fault_or_cancel

    for i in range(120 if quick else 1200):
        spec = gen.mix(rng, rng.choice([1, 2]), hi=3)
        if rng.random() < 0.7:
            fault_or_cancel(rng, spec['transfers'][0], spec)
        spec['poll_done'] = True
        cases.append({'type': 'e2e', 'spec': spec})
    # two things go wrong one after the other: a request fails (or the transfer is cancelled) while the submission thread is still
    # reading the source stream, and then that read fails too - a user polling done() has seen True in between, so the second
    # failure may not become the reported one
    for i in range(80 if quick else 800):
        src = rng.choice(['nonseekable', 'seekable'])
        mem = rng.choice([1, 1, 2])
        cfg = dict(multipart_threshold=8, multipart_chunksize=8, max_request_concurrency=rng.choice([1, 2]), max_submission_concurrency=1,
                   max_in_memory_upload_chunks=mem)
        spec = {'min_part': 8, 'config': cfg, 'seed': rng.randrange(1 << 30), 'family': 'two-step', 'poll_done': True,
                'transfers': [{'kind': 'upload', 'src': src, 'size': rng.choice([41, 57, 73])}]}
        first = rng.choice(['t0/s3:UploadPart:1#0', 't0/s3:UploadPart:2#0'])
        # the source read that fails comes well after the parts the in-memory limit lets the submission thread read ahead
        plan = {'gate': {'match': '/s3:UploadPart', 'phase': rng.choice(['before', 'after']), 'policy': 'seeded'},
                'faults': [{'at': f't0/src:read#{rng.randrange(mem + 3, mem + 6)}', 'phase': rng.choice(['before', 'after']), 'kind': 'exc', 'tag': 'FAULT-src'}]}
        if rng.random() < 0.5:
            plan['cancel'] = {'at': first, 'phase': rng.choice(['before', 'after']), 'how': 'future.cancel', 'from': rng.choice(['event', 'main'])}
        else:
            plan['faults'].append({'at': first, 'phase': rng.choice(['before', 'after']), 'kind': 'exc', 'tag': 'FAULT-req'})
        spec['plan'] = plan
        cases.append({'type': 'e2e', 'spec': spec})
    # the final step is in flight when the transfer is cancelled and then fails on its own: done() has been True since the cancel,
    # what result() reports stays the cancellation
    for i in range(50 if quick else 500):
        kind, extra, key = rng.choice([('upload', {'src': 'path', 'size': 9}, 't0/s3:PutObject#0'), ('upload', {'src': 'nonseekable', 'size': 9}, 't0/s3:PutObject#0'),
                                       ('upload', {'src': 'seekable', 'size': 27}, 't0/s3:CompleteMultipartUpload#0'),
                                       ('copy', {'size': 9}, 't0/s3:CopyObject#0'), ('copy', {'size': 27}, 't0/s3:CompleteMultipartUpload#0'),
                                       ('delete', {'size': 3}, 't0/s3:DeleteObject#0'), ('download', {'dst': 'path', 'size': 9}, 't0/fs:rename#0')])
        cfg = dict(multipart_threshold=16, multipart_chunksize=8, io_chunksize=4, max_request_concurrency=rng.choice([1, 2]))
        spec = {'seed': rng.randrange(1 << 30), 'min_part': 8, 'config': cfg, 'transfers': [dict({'kind': kind}, **extra)], 'family': 'then-final-step-fails',
                'poll_done': True,
                'plan': {'cancel': {'at': key, 'phase': 'before', 'how': 'future.cancel', 'from': rng.choice(['main', 'event'])},
                         'faults': [{'at': key, 'phase': 'after', 'kind': 'oserror' if '/fs:' in key else rng.choice(['exc', 'client4xx']), 'tag': 'FAULT-final'}]}}
        cases.append({'type': 'e2e', 'spec': spec})
    return cases


def run_case(case):
    t = case['type']
    if t == 'seq':
        viol, stats, distinct = explore(case['depth'], OPS)
        return {'verdict': 'violated' if viol else 'held', 'key': f'seq-{case["depth"]}', 'violations': viol,
                'stats': dict(stats, seq_distinct_state_ops=distinct), 'summary': stats}
    if t == 'thr':
        # the prefix ops are part of the model too: prepend as thread-0-before-barrier is not modelled, so fold into ops
        if case.get('prefix'):
            pass
        return threaded_case(case)
    return run_e2e(case['spec'])
