"""C09 — progress callbacks account for exactly the transferred bytes."""
import random

from .. import e2e, gen, oracles
from ..director import STREAM_KINDS

PROPERTY = 'C09'
LEVEL = 'exploration'
RULE = ('uploads (path / seekable at an offset / non-seekable / non-seekable with provided size), downloads (4 destination kinds) and '
        'copies, single and multipart, with a recording subscriber that keeps the running sum under its own lock; families: tiny '
        'bodies (scaled minimum part) and bodies below / above / straddling the 256 KiB aggregation threshold; forced client-level '
        'retries after partial body consumption (0..3 per request), http endpoints (the signer reads and rewinds the body while '
        'reporting is suppressed) and both checksum modes (aws-chunked wrapper), download stream faults at boundary byte positions '
        'with short reads, gated part orders; oracle: for a successful transfer the delivered bytes_transferred values sum to the '
        'size and the running sum never leaves [0, size]; also: duck-typed progress-only subscribers, short-reading seekable sources below the threshold, sequential histories on one manager; non-trivial = success with size>0 and at least one on_progress; distinct = '
        '(shape, interleaving signature)')
ASSUMPTIONS = ['negative deliveries are not demanded: the 256 KiB aggregator legitimately nets a rewind against the re-read',
               'legacy S3Transfer callbacks have a documented TODO for retries and are out of scope (the anchors are the manager)']
CASE_TIMEOUT = 180.0
K = 1024


def gen_cases(tier, seed):
    rng = random.Random(seed)
    quick = tier == 'quick'
    cases = []
    # tiny family
    for (T, C) in [(8, 8), (20, 8), (16, 4)]:
        for size in sorted({0, 1, T - 1, T, T + 1, 2 * C + 1, 4 * C, 5 * C + 3}):
            for src in ('path', 'seekable', 'nonseekable', 'nonseekable_sized'):
                for v in range(2 if quick else 6):
                    t = {'kind': 'upload', 'src': 'nonseekable' if src.startswith('non') else src, 'size': size}
                    if src == 'seekable':
                        t['start'] = rng.choice([0, 3])
                    if src == 'nonseekable_sized':
                        t['subs'] = [{'provide_size': size}]
                    cfg = dict(multipart_threshold=T, multipart_chunksize=C, max_request_concurrency=rng.choice([1, 2, 3]))
                    spec = {'seed': rng.randrange(1 << 30), 'min_part': C, 'config': cfg, 'transfers': [t],
                            'client': {'checksum': rng.choice(['when_supported', 'when_required']), 'scheme': rng.choice(['https', 'http'])},
                            'body_read_sizes': rng.choice([[8192], [3], [1, 5, 2]]), 'plan': {'delay_p': rng.choice([0.0, 0.2])}}
                    nparts = (size + C - 1) // C if size >= T else 0
                    if v:
                        faults = []
                        for j in range(rng.choice([1, 2, 3])):
                            if nparts:
                                pn = rng.randrange(1, nparts + 1)
                                at, plen = f't0/s3:UploadPart:{pn}#0', min(C, size - (pn - 1) * C)
                            else:
                                at, plen = 't0/s3:PutObject#0', size
                            at += f'.retry{j}' if j else ''
                            faults.append({'at': at, 'phase': rng.choice(['mid', 'mid', 'before', 'after']), 'bytes': rng.randrange(0, plen + 1),
                                           'kind': rng.choice(['retry500', 'retryconn']), 'tag': f'FAULT-r{j}'})
                        spec['plan']['faults'] = faults
                    cases.append(spec)
            for dst in ('path', 'seekable', 'nonseekable', 'fifo'):
                for v in range(2 if quick else 6):
                    attempts = rng.choice([2, 3, 4])
                    cfg = dict(multipart_threshold=T, multipart_chunksize=C, io_chunksize=rng.choice([1, 3, 4, 256 * K]),
                               max_request_concurrency=rng.choice([1, 2, 3]), num_download_attempts=attempts)
                    spec = {'seed': rng.randrange(1 << 30), 'config': cfg, 'transfers': [{'kind': 'download', 'dst': dst, 'size': size}],
                            'get_read_caps': rng.choice([None, [[2], [3]], [[1, 4], [3, 2]]]), 'plan': {'delay_p': rng.choice([0.0, 0.2])}}
                    if v:
                        rs = [('all', size)] if size < T else [(str(i * C), min(C, size - i * C)) for i in range((size + C - 1) // C)]
                        faults = []
                        for (st, ln) in rs:
                            if rng.random() < 0.6:
                                for j in range(rng.randrange(1, attempts)):
                                    faults.append({'at': f't0/s3:GetObject:{st}#{j}', 'phase': 'body', 'bytes': rng.randrange(0, ln + 1),
                                                   'kind': rng.choice(STREAM_KINDS), 'tag': f'FAULT-{st}-{j}'})
                        spec['plan']['faults'] = faults
                    cases.append(spec)
                # mixed sequences within one range: a body fault after some bytes, then a connection error raised by the request
                # itself, then success (and the other orders)
                for v in range(2 if quick else 6):
                    cfg = dict(multipart_threshold=T, multipart_chunksize=C, io_chunksize=rng.choice([1, 3, 4]),
                               max_request_concurrency=rng.choice([1, 2, 3]), num_download_attempts=4)
                    rs = [('all', size)] if size < T else [(str(i * C), min(C, size - i * C)) for i in range((size + C - 1) // C)]
                    st, ln = rng.choice(rs)
                    seq = rng.choice([['body', 'req'], ['req', 'body'], ['body', 'req', 'body'], ['req', 'req'], ['body', 'body', 'req']])
                    faults = []
                    for j, what in enumerate(seq):
                        if what == 'body':
                            faults.append({'at': f't0/s3:GetObject:{st}#{j}', 'phase': 'body', 'bytes': rng.randrange(0, ln + 1),
                                           'kind': rng.choice(STREAM_KINDS), 'tag': f'FAULT-m{j}'})
                        else:
                            faults.append({'at': f't0/s3:GetObject:{st}#{j}', 'phase': rng.choice(['before', 'after']), 'kind': 'connreset', 'tag': f'FAULT-m{j}'})
                    cases.append({'seed': rng.randrange(1 << 30), 'config': cfg, 'transfers': [{'kind': 'download', 'dst': dst, 'size': size}],
                                  'get_read_caps': rng.choice([None, [[2], [3]]]), 'plan': {'faults': faults}})
            for provide in (False, True):
                t = {'kind': 'copy', 'size': size}
                if provide:
                    t['subs'] = [{'provide_size': size}]
                cases.append({'seed': rng.randrange(1 << 30), 'min_part': C, 'transfers': [t],
                              'config': dict(multipart_threshold=T, multipart_chunksize=C, max_request_concurrency=rng.choice([1, 3]))})
    # 256 KiB aggregation threshold family
    AG = 256 * K
    sizes = [AG - 1, AG, AG + 1, 2 * AG + 7, 700 * K + 3]
    if quick:
        sizes = [AG - 1, AG + 1, 700 * K + 3]
    for size in sizes:
        for (T, C) in [(10 * K * K, 300 * K), (300 * K, 300 * K)]:
            for src in ('path', 'seekable', 'nonseekable'):
                for v in range(3 if quick else 8):
                    t = {'kind': 'upload', 'src': src, 'size': size}
                    cfg = dict(multipart_threshold=T, multipart_chunksize=C, max_request_concurrency=rng.choice([1, 3]))
                    spec = {'seed': rng.randrange(1 << 30), 'min_part': C, 'config': cfg, 'transfers': [t],
                            'client': {'checksum': rng.choice(['when_supported', 'when_required']), 'scheme': rng.choice(['https', 'http'])},
                            'body_read_sizes': rng.choice([[8192], [16384], [65536], [100000]]), 'plan': {}}
                    nparts = (size + C - 1) // C if size >= T else 0
                    if v:
                        faults = []
                        for j in range(rng.choice([1, 2])):
                            if nparts:
                                pn = rng.randrange(1, nparts + 1)
                                at, plen = f't0/s3:UploadPart:{pn}#0', min(C, size - (pn - 1) * C)
                            else:
                                at, plen = 't0/s3:PutObject#0', size
                            at += f'.retry{j}' if j else ''
                            faults.append({'at': at, 'phase': 'mid', 'bytes': rng.choice([0, 1, AG - 1, AG, AG + 1, plen // 2, plen]) % (plen + 1),
                                           'kind': rng.choice(['retry500', 'retryconn']), 'tag': f'FAULT-r{j}'})
                        spec['plan']['faults'] = faults
                    cases.append(spec)
            for dst in ('path', 'nonseekable'):
                for v in range(2 if quick else 5):
                    cfg = dict(multipart_threshold=T, multipart_chunksize=C, max_request_concurrency=rng.choice([1, 3]), num_download_attempts=3)
                    spec = {'seed': rng.randrange(1 << 30), 'config': cfg, 'transfers': [{'kind': 'download', 'dst': dst, 'size': size}], 'plan': {}}
                    if v:
                        st = 'all' if size < T else '0'
                        ln = size if size < T else min(C, size)
                        spec['plan']['faults'] = [{'at': f't0/s3:GetObject:{st}#{j}', 'phase': 'body',
                                                   'bytes': rng.choice([0, 1, AG - 1, AG, AG + 1, ln // 2, ln]) % (ln + 1),
                                                   'kind': rng.choice(STREAM_KINDS), 'tag': f'FAULT-d{j}'} for j in range(rng.choice([1, 2]))]
                    cases.append(spec)
    # a thread preempted at each statement of the progress-accounting code (and inside on_progress) while other parts run
    from .. import windows

    lines = [l for l in windows.candidate_lines() if l[2].startswith(('AggregatedProgressCallback', 'ReadFileChunk', 'StreamReaderProgress',
                                                                      'invoke_progress_callbacks', 'GetObjectTask', 'CopyPartTask', 'InterruptReader'))]
    AG = 256 * K
    for line in lines:
        for rep in range(2 if quick else 8):
            up = not line[2].startswith(('StreamReaderProgress', 'GetObjectTask', 'CopyPartTask'))
            big = rng.random() < 0.5
            C = 300 * K if big else 8
            size = rng.choice([2 * C + 5, 3 * C + 1, 4 * C])
            if line[2].startswith('CopyPartTask'):
                t = {'kind': 'copy', 'size': size}
            elif up:
                t = {'kind': 'upload', 'src': rng.choice(['path', 'seekable', 'nonseekable']), 'size': size}
            else:
                t = {'kind': 'download', 'dst': rng.choice(['path', 'nonseekable', 'seekable']), 'size': size}
            cfg = dict(multipart_threshold=C, multipart_chunksize=C, max_request_concurrency=rng.choice([2, 3, 4]), num_download_attempts=3)
            if not up and not big:
                cfg['io_chunksize'] = 4
            w = {'file': line[0], 'lineno': line[1], 'name': f'{line[0]}:{line[1]}:{line[2]}', 'nth': rng.randrange(0, 6), 'action': 'pause', 'wait': 0.2}
            cases.append({'seed': rng.randrange(1 << 30), 'min_part': C, 'config': cfg, 'transfers': [t], 'body_read_sizes': [65536] if big else [3],
                          'yield': {'p': 0.0, 'window': w}, 'plan': {'delay_p': rng.choice([0.0, 0.3])}})
    # subscribers that are slow inside on_progress (a gate holds them until the process is quiescent) while other parts report
    for i in range(40 if quick else 300):
        C = rng.choice([8, 300 * K])
        size = rng.choice([2 * C + 5, 3 * C + 1, 4 * C])
        t = {'kind': 'upload', 'src': rng.choice(['path', 'seekable', 'nonseekable']), 'size': size}
        cases.append({'seed': rng.randrange(1 << 30), 'min_part': C, 'transfers': [t], 'body_read_sizes': [65536] if C > 8 else [3],
                      'config': dict(multipart_threshold=C, multipart_chunksize=C, max_request_concurrency=rng.choice([2, 3, 4])),
                      'plan': {'gate': {'match': '/cb:on_progress', 'phase': 'before', 'policy': 'seeded', 'count': rng.choice([1, 2, 3])}}})
    # seekable streams sent as a single PutObject whose read(n) returns fewer bytes than asked for before EOF (raw / network-backed
    # streams): the library reads them directly while the request is sent
    for i in range(40 if quick else 400):
        T = rng.choice([64, 300 * K, 600 * K])
        size = rng.choice([T - 1, T // 2 + 1, 7]) if T == 64 else rng.choice([T - 1, 270 * K + 5, 100 * K])
        t = {'kind': 'upload', 'src': 'seekable', 'size': size, 'start': rng.choice([0, 3]), 'flavor': rng.choice(['declared', 'duck']),
             'src_caps': rng.choice([[3], [1, 7, 2], [1000], [4096, 1]])}
        spec = {'seed': rng.randrange(1 << 30), 'config': dict(multipart_threshold=T, multipart_chunksize=max(T, 8)), 'transfers': [t],
                'client': {'checksum': rng.choice(['when_supported', 'when_required']), 'scheme': rng.choice(['https', 'http'])},
                'body_read_sizes': rng.choice([[8192], [3], [65536]]), 'plan': {}}
        if rng.random() < 0.5:
            spec['plan']['faults'] = [{'at': 't0/s3:PutObject#0', 'phase': 'mid', 'bytes': rng.randrange(0, size + 1), 'kind': rng.choice(['retry500', 'retryconn']),
                                       'tag': 'FAULT-r0'}]
        cases.append(spec)
    # several transfers one after the other on ONE manager (each finished before the next is submitted)
    for i in range(30 if quick else 300):
        C = 8
        T = rng.choice([8, 16])
        ts = []
        for j in range(rng.choice([3, 4])):
            kind = rng.choice(['upload', 'download', 'copy'])
            t = {'kind': kind, 'size': rng.choice([0, 1, T - 1, T, 2 * C + 1, 4 * C, 5 * C + 3])}
            if kind == 'upload':
                t['src'] = rng.choice(['path', 'seekable', 'nonseekable'])
            elif kind == 'download':
                t['dst'] = rng.choice(['path', 'seekable', 'nonseekable'])
            ts.append(t)
        cases.append({'seed': rng.randrange(1 << 30), 'min_part': C, 'sequential': True, 'transfers': ts, 'body_read_sizes': rng.choice([[8192], [3]]),
                      'config': dict(multipart_threshold=T, multipart_chunksize=C, io_chunksize=4, max_request_concurrency=rng.choice([1, 2, 3]))})
    # executor / subscriber flavours: everything inline in the submitting thread (NonThreadedExecutor, what use_threads=False
    # selects), no subscribers at all, and duck-typed subscribers offering only some callbacks
    for s in cases:
        if s.get('front_end') or s.get('mode') or s.get('yield'):
            continue
        r = rng.random()
        if r < 0.12:
            s['executor'] = 'nonthreaded'
        for t in s['transfers']:
            if 'subs' not in t and rng.random() < 0.12:
                t['subs'] = rng.choice([[{'only': ['on_progress']}], [{}, {'only': ['on_progress', 'on_done']}]])
    rng.shuffle(cases)
    # uploads through a manager whose client is (or was) also used by another manager / the legacy front-end: progress callbacks are
    # switched on per request by handlers registered on the CLIENT
    for i in range(30 if quick else 300):
        T, C = rng.choice([(16, 8), (8, 8)])
        t = {'kind': 'upload', 'src': rng.choice(['path', 'seekable', 'nonseekable']), 'size': rng.choice([5, T - 1, T, 3 * C + 1])}
        cases.append({'seed': rng.randrange(1 << 30), 'min_part': C, 'config': dict(multipart_threshold=T, multipart_chunksize=C, max_request_concurrency=rng.choice([1, 2])),
                      'transfers': [t], 'prior_use': rng.choice(['legacy', 'manager', 'overlap']), 'family': 'shared-client'})

    # a multipart copy / upload of MORE THAN 10,000 x multipart_chunksize bytes: the library doubles the part size to stay within 10,000
    # parts - and reports the doubled parts' sizes
    for i in range(1 if quick else 3):
        C = 8
        kind = 'copy' if i == 0 else rng.choice(['copy', 'upload'])
        t = {'kind': kind, 'size': 10001 * C + rng.choice([0, 5])}
        if kind == 'upload':
            t['src'] = 'path'
        cases.append({'seed': rng.randrange(1 << 30), 'min_part': C, 'family': 'more-than-10000-parts', 'wall_timeout': 200.0,
                      'config': dict(multipart_threshold=C, multipart_chunksize=C, max_request_concurrency=4), 'transfers': [t]})
    # ONE subscriber object given to several transfers of a manager (a progress printer): each transfer's progress goes to the callbacks
    # with ITS future and sums to ITS size
    for i in range(30 if quick else 300):
        T, C = rng.choice([(16, 8), (8, 8)])
        n = rng.choice([2, 3])
        ts = []
        for j in range(n):
            kind, extra = rng.choice([k for k in gen.KINDS if k[0] != 'delete' and k[1].get('dst') != 'fifo'])
            t = dict({'kind': kind, 'size': rng.choice([5, T, 3 * C + 1, 4 * C])}, **extra)
            if j == 0:
                t['subs'] = [{'flavor': 'shared'}]
            else:
                t['share_subs_with'] = 0
            ts.append(t)
        spec = {'seed': rng.randrange(1 << 30), 'min_part': C, 'config': dict(multipart_threshold=T, multipart_chunksize=C, max_request_concurrency=rng.choice([1, 2, 3])),
                'transfers': ts, 'family': 'shared-subscriber'}
        if rng.random() < 0.4:
            spec['sequential'] = True
        cases.append(spec)

    from ..gen import sprinkle

    sprinkle(cases, seed)
    return cases


def evaluate(obs):
    viol = []
    stats = {'success': 0, 'failed': 0, 'progress_calls': 0, 'negative_deliveries': 0, 'retries_forced': len(obs.world.director.retries_forced),
             'stream_faults': len([r for r in obs.world.director.raised if r['phase'] == 'body']), 'max_size': 0}
    nontrivial = False
    for x in obs.xfers:
        stats['success' if x.outcome == 'success' else 'failed'] += 1
        viol += oracles.progress_oracle(obs, x)
        for s in oracles.subs_of(x):
            stats['progress_calls'] += len(s.progress)
            stats['negative_deliveries'] += len([p for p in s.progress if p < 0])
            if x.outcome == 'success' and x.spec.get('size', 0) > 0 and s.progress:
                nontrivial = True
        stats['max_size'] = max(stats['max_size'], x.spec.get('size', 0))
    summary = {'outcomes': e2e.default_outcomes(obs), 'progress': {x.label: oracles.subs_of(x)[0].progress[:16] for x in obs.xfers if x.subs},
               'client': obs.spec.get('client')}
    return viol, stats, nontrivial, summary


def run_case(case):
    return e2e.run_with(case, evaluate)
