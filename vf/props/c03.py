"""C03 — a future never reports success unless every step succeeded."""
import copy
import itertools
import random

from .. import e2e, oracles, scenario
from ..director import STREAM_KINDS
from ..oracles import V

PROPERTY = 'C03'
LEVEL = 'fault_enumeration'
RULE = ('for every transfer type/mode (upload x 3 source kinds, download x 4 destination kinds, copy, delete; single and '
        'multipart/ranged) a fault-free dry run lists the boundary events (S3 calls, request-body reads, response-body reads, '
        'source reads, destination open/write/close/rename, on_queued, each on_progress); then one run per (event, '
        'before/after/mid effect, fault kind), plus retry-budget exhaustion per range and (thorough) pairs of faults; '
        'fault kinds include the exception types the library itself defines (CancelledError = concurrent.futures.CancelledError, FatalError) raised by steps of a transfer that was never cancelled; NonThreadedExecutor and duck-typed subscriber bases; the same for the process-pool downloader (fault per HeadObject / allocation / GetObject / write / rename, alone, with random yields, and with one thread held at a statement of the submitter / worker / monitor failure handling; a result() call made only after the failure was recorded is judged too); non-trivial = the planned fault was actually raised into library code and the outcome oracle compared result() '
        'with the raised-fault log; distinct = (scenario shape incl. fault site, interleaving signature)')
ASSUMPTIONS = [
    'fault kinds are Exception subclasses, plus a small separate BaseException family that re-finds known finding F9',
    'faults in abort / temp-file removal / on_done are excluded as the statement excludes them',
]
CASE_TIMEOUT = 120.0


def base_scenarios(rng, real=False):
    out = []
    cfg = dict(multipart_threshold=16, multipart_chunksize=8, io_chunksize=4, max_request_concurrency=2,
               max_submission_concurrency=1, num_download_attempts=2)
    for src in ('path', 'seekable', 'nonseekable'):
        for size in (10, 20):
            out.append({'min_part': 8, 'config': dict(cfg), 'transfers': [{'kind': 'upload', 'src': src, 'size': size}]})
    for dst in ('path', 'seekable', 'nonseekable', 'fifo'):
        for size in (10, 20):
            out.append({'config': dict(cfg), 'transfers': [{'kind': 'download', 'dst': dst, 'size': size,
                                                           'preexisting': dst == 'path'}], 'dirwatch': dst == 'path'})
    for size in (10, 20):
        out.append({'min_part': 8, 'config': dict(cfg), 'transfers': [{'kind': 'copy', 'size': size}]})
    out.append({'config': dict(cfg), 'transfers': [{'kind': 'delete', 'size': 3}]})
    # a non-seekable source that returns short bursts (a pipe, a socket): every buffer is filled by several reads, each of them a place
    # where the stream can fail
    for size in (10, 20):
        out.append({'min_part': 8, 'config': dict(cfg), 'transfers': [{'kind': 'upload', 'src': 'nonseekable', 'size': size, 'src_caps': [3]}]})
    # multipart transfers of exactly ONE part (multipart_threshold <= size <= multipart_chunksize)
    cfg1 = dict(cfg, multipart_threshold=8, multipart_chunksize=16)
    for t in ({'kind': 'upload', 'src': 'path', 'size': 12}, {'kind': 'upload', 'src': 'nonseekable', 'size': 12}, {'kind': 'copy', 'size': 12},
              {'kind': 'download', 'dst': 'path', 'size': 12}, {'kind': 'download', 'dst': 'nonseekable', 'size': 12}):
        out.append({'min_part': 16, 'config': dict(cfg1), 'transfers': [t]})
    # provided size (no HeadObject), when_required checksum mode, http scheme
    out.append({'min_part': 8, 'config': dict(cfg), 'client': {'checksum': 'when_required', 'scheme': 'http'},
                'transfers': [{'kind': 'upload', 'src': 'path', 'size': 20}]})
    out.append({'config': dict(cfg), 'transfers': [{'kind': 'download', 'dst': 'path', 'size': 20, 'subs': [{'provide_size': 20}]}]})
    # everything inline in the submitting thread (NonThreadedExecutor); duck-typed subscribers offering only some callbacks
    for t in ({'kind': 'upload', 'src': 'nonseekable', 'size': 20}, {'kind': 'download', 'dst': 'nonseekable', 'size': 20},
              {'kind': 'download', 'dst': 'path', 'size': 20, 'preexisting': True}, {'kind': 'copy', 'size': 20}):
        out.append({'min_part': 8, 'config': dict(cfg), 'executor': 'nonthreaded', 'transfers': [t]})
    out.append({'min_part': 8, 'config': dict(cfg), 'transfers': [{'kind': 'upload', 'src': 'path', 'size': 20, 'subs': [{'only': ['on_progress']}]}]})
    out.append({'config': dict(cfg), 'transfers': [{'kind': 'download', 'dst': 'seekable', 'size': 20, 'subs': [{'only': ['on_progress', 'on_done']}]}]})
    return out


def dry_keys(spec):
    s = copy.deepcopy(spec)
    s['seed'] = 1
    obs = e2e.run_any(s)
    keys = list(dict.fromkeys(obs.world.director.keys_seen))
    bodies = {}
    for e in obs.events:
        if e['kind'] == 'body.end':
            bodies[e['key']] = e['delivered']
    uploads_bodies = {}
    for c in obs.world.s3.calls.values():
        if c['op'] in ('PutObject', 'UploadPart') and c.get('received') is not None:
            uploads_bodies[c['key']] = len(c['received'])
    ok = obs.hang is None and all(x.outcome == 'success' for x in obs.xfers)
    scenario.cleanup(obs)
    return keys, bodies, uploads_bodies, ok


def submission_keys(spec):
    """Boundary keys of the transfer's SUBMISSION step (reached by the submission thread: on_queued, the size query, source reads and
    hand-overs it does itself), from a dry run."""
    s = copy.deepcopy(spec)
    s['seed'] = 1
    obs = e2e.run_any(s)
    d = obs.world.director
    keys = [k for k in dict.fromkeys(d.keys_seen)
            if (d.key_stage.get(k) == 'submission' or any(m in k for m in ('/s3:HeadObject', '/cb:on_queued', '/fs:size')))
            and '/cb:on_done' not in k and '/fs:remove' not in k and '/s3:AbortMultipartUpload' not in k]
    ok = obs.hang is None and all(x.outcome == 'success' for x in obs.xfers)
    scenario.cleanup(obs)
    return keys if ok else []


def base_in_submission_cases(rng, quick, family='base-in-submission'):
    """A BaseException that is neither an Exception nor a KeyboardInterrupt (SystemExit from a callback, a framework's own
    cancellation / timeout class) raised INSIDE THE SUBMISSION STEP: the one place that must make the transfer done whatever comes."""
    out = []
    for bi, base in enumerate(base_scenarios(rng)):
        if base.get('executor'):
            continue
        keys = submission_keys(base)
        for k in (keys if not quick else rng.sample(keys, min(2, len(keys)))):
            for ex in (None, 'nonthreaded') if (not quick or rng.random() < 0.3) else (None,):
                s = copy.deepcopy(base)
                s['seed'] = rng.randrange(1 << 30)
                s['family'] = family
                if ex:
                    s['executor'] = ex
                s['plan'] = {'faults': [{'at': k, 'phase': 'before', 'kind': rng.choice(['base', 'base', 'systemexit', 'generatorexit']), 'tag': f'FAULT-bsub-{bi}'}]}
                if not ex and rng.random() < 0.6:
                    # requests already handed over are held back until everything else has run as far as it can: they are in flight
                    # (about to send their bodies) when the submission step fails
                    s['plan']['gate'] = {'match': '/s3:', 'phase': 'before', 'policy': 'seeded'}
                    if s['transfers'][0]['kind'] == 'upload' and rng.random() < 0.7:
                        # ... held between two reads of their request body by the transport
                        s['plan']['gate']['match'] = '.send#'
                        s['client'] = {'checksum': 'when_required', 'scheme': 'https'}
                        s['body_read_sizes'] = [rng.choice([1, 3])]
                out.append(s)
    return out


SERVICE_CODES = {
    'CompleteMultipartUpload': ['NoSuchUpload:404', 'InvalidPart:400', 'EntityTooSmall:400'],
    'UploadPart': ['NoSuchUpload:404'],
    'UploadPartCopy': ['NoSuchUpload:404', 'PreconditionFailed:412'],
    'CreateMultipartUpload': ['NoSuchBucket:404'],
    'PutObject': ['PreconditionFailed:412', 'EntityTooLarge:400'],
    'GetObject': ['NoSuchKey:404', 'PreconditionFailed:412', 'InvalidRange:416', 'InvalidObjectState:403'],
    'HeadObject': ['NoSuchKey:404', 'NotFound:404', 'PreconditionFailed:412'],
    'CopyObject': ['NoSuchKey:404', 'PreconditionFailed:412'],
    'DeleteObject': ['NoSuchKey:404', 'NoSuchVersion:404'],
}


def faults_for_key(key, bodies, upload_bodies, quick):
    out = []
    if '/cb:on_done' in key or '/fs:remove' in key or 'AbortMultipartUpload' in key or '/pp:' in key:
        return out
    if '.read#' in key:
        return out  # response-body faults are enumerated by byte position below
    if '/s3:' in key:
        for phase in ('before', 'after'):
            for kind in (('exc',) if quick and phase == 'after' else ('exc', 'client4xx')):
                out.append({'at': key, 'phase': phase, 'kind': kind})
        if key in upload_bodies:
            n = upload_bodies[key]
            for b in sorted({0, n // 2, n}):
                out.append({'at': key, 'phase': 'mid', 'kind': 'exc', 'bytes': b})
        # service error codes that read like "nothing to do" (the upload / key is gone, a precondition failed): failures like any other
        op = key.split('/s3:')[1].split('#')[0].split(':')[0]
        for code in SERVICE_CODES.get(op, ()):
            out.append({'at': key, 'phase': 'before', 'kind': 'code:' + code})
        # a non-connection OSError (EIO, EPERM, ENOSPC...) is not a retryable stream error
        out.append({'at': key, 'phase': 'before', 'kind': 'oserror'})
        # an exception of a type the library gives a meaning to (CancelledError = concurrent.futures.CancelledError, FatalError)
        # raised by a step of a transfer that was never cancelled is a failure like any other
        out.append({'at': key, 'phase': 'before', 'kind': 'cancelled_exc'})
        if key in bodies:
            n = bodies[key]
            for b in sorted({0, 1, n // 2, n}):
                out.append({'at': key, 'phase': 'body', 'kind': 'exc', 'bytes': b})
            out.append({'at': key, 'phase': 'body', 'kind': 'oserror', 'bytes': n // 2})
            out.append({'at': key, 'phase': 'body', 'kind': 'fatal_exc', 'bytes': n // 2})
    elif '/src:read' in key:
        out.append({'at': key, 'phase': 'before', 'kind': 'exc'})
        out.append({'at': key, 'phase': 'after', 'kind': 'exc'})
        out.append({'at': key, 'phase': 'after', 'kind': 'cancelled_exc'})
        out.append({'at': key, 'phase': 'before', 'kind': 'oserror'})  # EIO from the pipe / socket / file behind the stream
    elif '/dst:write' in key or '/fs:write' in key:
        out.append({'at': key, 'phase': 'before', 'kind': 'oserror'})
        out.append({'at': key, 'phase': 'after', 'kind': 'oserror'})
        # a destination write failing with a connection / timeout class error (pipe reader gone, NFS timeout) is a write
        # failure, not a retryable download-stream error
        out.append({'at': key, 'phase': 'before', 'kind': 'brokenpipe'})
        if '/dst:write' in key:
            # a non-blocking destination that takes only part of the data and then raises BlockingIOError(characters_written=k)
            out.append({'at': key, 'phase': 'before', 'kind': 'blockingio'})
        out.append({'at': key, 'phase': 'before', 'kind': 'timeouterr'})
        out.append({'at': key, 'phase': 'before', 'kind': 'fatal_exc'})
    elif '/fs:' in key:
        out.append({'at': key, 'phase': 'before', 'kind': 'oserror'})
    elif '/os:rename' in key or '/os:open' in key:
        out.append({'at': key, 'phase': 'before', 'kind': 'oserror'})  # the system call itself fails (rename; open of the temporary file)
    elif '/cb:on_queued' in key or '/cb:on_progress' in key:
        out.append({'at': key, 'phase': 'before', 'kind': 'exc'})
        out.append({'at': key, 'phase': 'before', 'kind': 'oserror'})
        out.append({'at': key, 'phase': 'before', 'kind': 'cancelled_exc'})
    return out


def gen_cases(tier, seed):
    rng = random.Random(seed)
    quick = tier == 'quick'
    cases = []
    for bi, base in enumerate(base_scenarios(rng)):
        keys, bodies, upbodies, ok = dry_keys(base)
        if not ok:
            cases.append(dict(base, seed=0, _dry_failed=True))
            continue
        singles = []
        for k in keys:
            singles += faults_for_key(k, bodies, upbodies, quick)
        for i, f in enumerate(singles):
            s = copy.deepcopy(base)
            s['seed'] = rng.randrange(1 << 30)
            f = dict(f, tag=f'FAULT-{bi}-{i}')
            s['plan'] = {'faults': [f], 'delay_p': rng.choice([0.0, 0.0, 0.3])}
            cases.append(s)
        # retry budget: exactly `attempts` retryable faults on one range -> RetriesExceededError;
        # attempts-1 -> success
        attempts = base['config']['num_download_attempts']
        for k, n in bodies.items():
            rng_key = k.rsplit('#', 1)[0]
            for kind in (STREAM_KINDS if not quick else rng.sample(STREAM_KINDS, 2)):
                for nf in (attempts - 1, attempts):
                    s = copy.deepcopy(base)
                    s['seed'] = rng.randrange(1 << 30)
                    s['plan'] = {'faults': [{'at': f'{rng_key}#{j}', 'phase': 'body', 'kind': kind,
                                             'bytes': rng.choice([0, 1, n // 2, n]), 'tag': f'FAULT-{bi}-r{j}'} for j in range(nf)]}
                    cases.append(s)
            # the budget is shared by both kinds of retryable failure: the request itself failing with a connection error, and the
            # response body failing while it is read - mixed in either order, exactly `attempts` of them exhaust it
            for nf in (attempts - 1, attempts):
                if nf < 2 and nf != attempts:
                    continue
                for rep in range(1 if quick else 3):
                    phases = [rng.choice(['before', 'body']) for _ in range(nf)]
                    if nf >= 2 and len(set(phases)) == 1:
                        phases[rng.randrange(nf)] = 'body' if phases[0] == 'before' else 'before'
                    fl = []
                    for j, ph in enumerate(phases):
                        if ph == 'before':
                            fl.append({'at': f'{rng_key}#{j}', 'phase': 'before', 'kind': 'connreset', 'tag': f'FAULT-{bi}-q{j}'})
                        else:
                            fl.append({'at': f'{rng_key}#{j}', 'phase': 'body', 'kind': rng.choice(STREAM_KINDS), 'bytes': rng.choice([0, 1, n // 2, n]),
                                       'tag': f'FAULT-{bi}-r{j}'})
                    s = copy.deepcopy(base)
                    s['seed'] = rng.randrange(1 << 30)
                    s['plan'] = {'faults': fl}
                    cases.append(s)
        if not quick:
            pairs = list(itertools.combinations(range(len(singles)), 2))
            rng.shuffle(pairs)
            for (a, b) in pairs[:60]:
                s = copy.deepcopy(base)
                s['seed'] = rng.randrange(1 << 30)
                s['plan'] = {'faults': [dict(singles[a], tag=f'FAULT-{bi}-a{a}'), dict(singles[b], tag=f'FAULT-{bi}-b{b}')],
                             'delay_p': rng.choice([0.0, 0.3])}
                cases.append(s)
    # pairs the single-fault enumeration cannot reach: a retryable stream error after some bytes, and then the subscriber's
    # on_progress raising on the call that takes the abandoned attempt's progress back
    for bi, base in enumerate(base_scenarios(rng)):
        t = base['transfers'][0]
        if t['kind'] != 'download' or base.get('executor'):
            continue
        keys, bodies, upbodies, ok = dry_keys(base)
        for k, n in bodies.items():
            if n < 2:
                continue
            for kind in (STREAM_KINDS if not quick else rng.sample(STREAM_KINDS, 2)):
                s = copy.deepcopy(base)
                s['seed'] = rng.randrange(1 << 30)
                s['family'] = 'rewind-callback'
                s['plan'] = {'faults': [{'at': k, 'phase': 'body', 'kind': kind, 'bytes': rng.choice([1, n // 2, n - 1]), 'tag': f'FAULT-{bi}-stream'},
                                        {'at': 't0/cb:on_progress_rewind:s0#0', 'phase': 'before', 'kind': rng.choice(['exc', 'oserror']), 'tag': f'FAULT-{bi}-rewind'}]}
                cases.append(s)
    cases += base_in_submission_cases(rng, quick)
    # BaseException family (not an Exception: KeyboardInterrupt / SystemExit-like) raised inside request-stage work
    for bi, base in enumerate(base_scenarios(rng)):
        t = base['transfers'][0]
        from .c04 import sites_for

        sites = [k for k in sites_for(t, 16, 8) if ('/s3:' in k and 'HeadObject' not in k) or '/cb:on_progress' in k]
        for k in (sites if not quick else rng.sample(sites, min(2, len(sites)))):
            s = copy.deepcopy(base)
            s['seed'] = rng.randrange(1 << 30)
            s['family'] = 'base-exception'
            s['plan'] = {'faults': [{'at': k, 'phase': 'before', 'kind': 'base', 'tag': f'FAULT-base-{bi}'}]}
            cases.append(s)
            if not base.get('executor') and rng.random() < (0.5 if quick else 1.0):
                # the same with everything inline in the caller's thread (NonThreadedExecutor): the exception travels up through the
                # submission task there, which records it
                s2 = copy.deepcopy(s)
                s2['seed'] = rng.randrange(1 << 30)
                s2['executor'] = 'nonthreaded'
                cases.append(s2)
    if not quick:
        # real-constant family: 5 MiB parts, a fault in the middle part
        MB = 1024 * 1024
        for src in ('path', 'seekable', 'nonseekable'):
            for f in ({'at': 't0/s3:UploadPart:2#0', 'phase': 'mid', 'bytes': 2 * MB, 'kind': 'exc'},
                      {'at': 't0/s3:CompleteMultipartUpload#0', 'phase': 'after', 'kind': 'client4xx'}):
                cases.append({'seed': rng.randrange(1 << 30), 'config': dict(multipart_threshold=8 * MB, multipart_chunksize=5 * MB),
                              'transfers': [{'kind': 'upload', 'src': src, 'size': 11 * MB}], 'body_read_sizes': [65536],
                              'plan': {'faults': [dict(f, tag='FAULT-real')]}, 'wall_timeout': 120.0})
    cases += procpool_cases(rng, quick)
    rng.shuffle(cases)
    from ..gen import sprinkle

    sprinkle(cases, seed)
    return cases


def procpool_cases(rng, quick):
    """The same statement for the process-pool downloader (the real ProcessPoolDownloader object, submitter and workers as threads):
    a fault in HeadObject / temp-file allocation / GetObject / write / rename, alone or with one thread held at a statement of the
    submitter's / workers' / monitor's failure handling, must never end in result() returning normally."""
    from .. import yieldinj
    from . import c19

    out = []
    bl = [b for i, b in enumerate(c19.bases()) if (i % 3 == 0 or not quick)]
    lines = [l for l in yieldinj.all_lines(['processpool.py'])
             if l[2].startswith(('GetObjectSubmitter._do_run', 'GetObjectSubmitter._submit', 'GetObjectWorker._do_run', 'GetObjectWorker._do_get_object',
                                 'GetObjectWorker._finalize', 'TransferMonitor.poll_for_result', 'TransferMonitor.notify_done',
                                 'TransferMonitor.notify_exception', 'TransferMonitor.notify_job_complete', 'ProcessPoolTransferFuture.'))]
    for base in bl:
        keys, bodies, ok = c19.dry(base)
        if not ok:
            continue
        for k in keys:
            fl = []
            if '/s3:' in k:
                fl = [{'at': k, 'phase': 'before', 'kind': 'exc'}, {'at': k, 'phase': 'after', 'kind': 'client4xx'}]
            elif '/fs:allocate' in k or '/fs:rename' in k or '/fs:write' in k or '/fs:open' in k:
                fl = [{'at': k, 'phase': 'before', 'kind': 'oserror'}]
            for f in fl:
                variants = [None, {'p': 0.3}]
                if not quick or '/fs:' in k or 'HeadObject' in k or rng.random() < 0.3:
                    for line in (lines if not quick else rng.sample(lines, min(len(lines), 12))):
                        variants.append({'p': 0.0, 'window': {'file': line[0], 'lineno': line[1], 'nth': 0,
                                                              'name': f'{line[0]}:{line[1]}:{line[2]}', 'wait': 0.2}})
                for y in variants:
                    sp = copy.deepcopy(base)
                    sp['seed'] = rng.randrange(1 << 30)
                    sp['exit'] = rng.choice(['shutdown', 'with'])
                    sp['family'] = 'procpool'
                    sp['plan'] = {'faults': [dict(f, tag='FAULT-pp')]}
                    if y:
                        sp['yield'] = y
                    out.append(sp)
    return out


def procpool_evaluate(obs):
    viol = []
    stats = {'success': 0, 'raised': 0, 'fault_hit': len(obs.world.director.raised), 'procpool_runs': 1,
             'procpool_late_results': sum(1 for e in obs.events if e['kind'] in ('pp.late_result', 'pp.early_result'))}
    for x in obs.xfers:
        stats['success' if x.outcome == 'success' else 'raised'] += 1
        mine = [r for r in obs.world.director.raised if r['key'].startswith(x.label + '/') and r['phase'] != 'body']
        told = [('result()', x.outcome)] + [('another result() call', e['outcome']) for e in obs.events
                                            if e['kind'] in ('pp.late_result', 'pp.early_result') and e.get('label') == x.label]
        for who, outcome in told:
            if mine and outcome == 'success':
                f = mine[0]
                viol.append(V(f'{x.label}: {who} returned normally although fault {f["tag"]} ({f["kind"]}) was raised at {f["key"]} '
                              f'[{f["phase"]}] (process-pool downloader)', sym='false-success', front_end='procpool', fault_kind=f['kind']))
                break
    summary = {'outcomes': e2e.default_outcomes(obs), 'raised': [(r['key'], r['phase'], r['kind']) for r in obs.world.director.raised]}
    return viol, stats, bool(obs.world.director.raised), summary


def evaluate(obs):
    if obs.spec.get('family') == 'procpool':
        return procpool_evaluate(obs)
    viol = []
    stats = {'success': 0, 'raised': 0, 'fault_hit': 0, 'fault_missed': 0, 'counted_faults': 0, 'absorbed_faults': 0,
             'other_C05_violations': 0, 'other_C06_violations': 0}
    if obs.spec.get('_dry_failed'):
        return [], {'dry_failed': 1}, False, {'dry_failed': True}
    nontrivial = False
    planned = len((obs.spec.get('plan') or {}).get('faults', ()))
    hit = len(obs.world.director.raised)
    stats['fault_hit'] = hit
    stats['fault_missed'] = planned - hit
    for x in obs.xfers:
        stats['success' if x.outcome == 'success' else 'raised'] += 1
        counted, mine = oracles.counted_faults(obs, x)
        stats['counted_faults'] += len(counted)
        stats['absorbed_faults'] += len(mine) - len(counted)
        viol += oracles.outcome_oracle(obs, x)
        viol += oracles.stable_outcome_oracle(obs, x)
        if hit:
            nontrivial = True
        # partially transferred data is discarded "as C05 and C06 describe": evaluated, reported under their ids
        v5, _ = oracles.mpu_oracle(obs, x)
        stats['other_C05_violations'] += len(v5)
        v6 = oracles.fs_oracle(obs, x)
        if obs.dirwatch:
            v6 = v6 + obs.dirwatch.violations
        stats['other_C06_violations'] += len(v6)
    summary = {'outcomes': e2e.default_outcomes(obs),
               'raised': [(r['key'], r['phase'], r['kind']) for r in obs.world.director.raised]}
    return viol, stats, nontrivial, summary


def run_case(case):
    return e2e.run_with(case, evaluate)
