"""C19 — process-pool downloads finish only after all jobs, with cleanup."""
import copy
import random

from .. import e2e, oracles, scenario
from ..director import STREAM_KINDS
from ..oracles import V

PROPERTY = 'C19'
LEVEL = 'exploration'
RULE = ('the real ProcessPoolDownloader object (download_file / shutdown / __exit__) with its real GetObjectSubmitter and '
        'GetObjectWorker loops running as threads over queue.Queue and an in-process logging TransferMonitor (the cross-process '
        'protocol replayed in-process): 1-3 workers, 1-2 downloads of 1-4 jobs, exit through shutdown(), the with-block, or '
        'KeyboardInterrupt inside the with-block; a dry run lists the boundary events (monitor notifications, requests, body reads, '
        'allocate, rename, remove), then one run per cancel point, per single job fault (non-retryable; retryable x4 = recovered, x5 = '
        'exhausted), per fault in HeadObject / allocate / rename, with gates on request order and line-level yield injection in '
        'processpool.py; plus real-process runs (fork) for success / failure / cancel.  Oracle: a download is notified done exactly '
        'once and only after as many job_complete notifications as jobs were announced; at that very moment (directory inspected '
        'inside the notification) success => complete file in place and no temp file, failure/cancel => no temp file and destination '
        'untouched (or complete only if no data was written after the cancel returned); every future is done when shutdown / '
        'with-exit returns and no worker thread survives; Ctrl-C in the with-block leaves every download either finished or '
        'CancelledError; plus one-preemption line windows over every statement of the monitor / transfer-state / worker / submitter code; non-trivial = at least one done notification was checked with a fault/cancel injected or >= 2 jobs; distinct = '
        '(shape incl. fault/cancel site, interleaving signature)')
ASSUMPTIONS = ['interleavings between real processes are whatever the OS gives; the steered ones are the in-process replays',
               'a worker process dying is out of scope (no recovery path exists)',
               'cancel() on an already finished process-pool download overwrites its stored exception (DESIGN 4.21); only the moment '
               'the future becomes done is judged']
CASE_TIMEOUT = 180.0


def bases():
    out = []
    for workers in (1, 2, 3):
        for sizes in ([5], [20], [30], [5, 20], [30, 12]):
            out.append({'front_end': 'procpool_full', 'dirwatch': True,
                        'config': dict(multipart_threshold=16, multipart_chunksize=8, workers=workers, io_chunksize=4),
                        'transfers': [{'kind': 'download', 'dst': 'path', 'size': s, 'preexisting': i == 1} for i, s in enumerate(sizes)]})
    return out


def run_spec(spec):
    from .. import frontends

    return frontends.run_procpool_full(spec)


def dry(spec):
    s = copy.deepcopy(spec)
    s['seed'] = 1
    obs = run_spec(s)
    keys = list(dict.fromkeys(obs.world.director.keys_seen))
    bodies = {e['key']: e['delivered'] for e in obs.events if e['kind'] == 'body.end'}
    ok = obs.hang is None and all(x.outcome == 'success' for x in obs.xfers)
    scenario.cleanup(obs)
    return keys, bodies, ok


def gen_cases(tier, seed):
    rng = random.Random(seed)
    quick = tier == 'quick'
    cases = []
    bl = bases()
    if quick:
        bl = [b for i, b in enumerate(bl) if i % 2 == 0]
    for bi, base in enumerate(bl):
        keys, bodies, ok = dry(base)
        for ex in ('shutdown', 'with', 'with_kbi'):
            for rep in range(1 if quick else 3):
                s = copy.deepcopy(base)
                s['seed'] = rng.randrange(1 << 30)
                s['exit'] = ex
                s['plan'] = {'delay_p': rng.choice([0.0, 0.3])}
                if rng.random() < 0.5:
                    s['yield'] = {'p': 0.2}
                cases.append(s)
        if not ok:
            continue
        ks = [k for k in keys if '.read#' not in k]
        if quick:
            ks = [k for i, k in enumerate(ks) if i % 2 == bi % 2]
        for k in ks:
            # cancel at this point
            for tgt in range(len(base['transfers'])):
                if quick and tgt != int(k[1]) if k[1].isdigit() else False:
                    continue
                s = copy.deepcopy(base)
                s['seed'] = rng.randrange(1 << 30)
                s['exit'] = rng.choice(['shutdown', 'with'])
                s['plan'] = {'cancel': {'at': k, 'phase': rng.choice(['before', 'after']) if '/pp:' not in k else 'before',
                                        'how': 'future.cancel', 'target': tgt}}
                if rng.random() < 0.4:
                    s['yield'] = {'p': 0.2}
                cases.append(s)
            # faults
            fl = []
            if '/s3:' in k:
                fl = [{'at': k, 'phase': 'before', 'kind': 'exc'}, {'at': k, 'phase': 'after', 'kind': 'client4xx'}]
                if k in bodies:
                    fl.append({'at': k, 'phase': 'body', 'kind': 'exc', 'bytes': bodies[k] // 2})
            elif '/fs:allocate' in k or '/fs:rename' in k or '/fs:open' in k or '/fs:close' in k or '/fs:write' in k or '/os:open' in k:
                # (also the worker's own file steps: opening the temporary file for a job, writing, the flush at close)
                fl = [{'at': k, 'phase': 'before', 'kind': 'oserror'}]
            for f in fl:
                s = copy.deepcopy(base)
                s['seed'] = rng.randrange(1 << 30)
                s['exit'] = rng.choice(['shutdown', 'with'])
                s['plan'] = {'faults': [dict(f, tag='FAULT-pp')], 'delay_p': rng.choice([0.0, 0.3])}
                cases.append(s)
        for k, n in bodies.items():
            rk = k.rsplit('#', 1)[0]
            for nf in (4, 5):
                s = copy.deepcopy(base)
                s['seed'] = rng.randrange(1 << 30)
                s['exit'] = 'shutdown'
                kind = rng.choice(STREAM_KINDS)
                s['plan'] = {'faults': [{'at': f'{rk}#{j}', 'phase': 'body', 'kind': kind, 'bytes': rng.choice([0, 1, n]),
                                         'tag': f'FAULT-r{j}'} for j in range(nf)]}
                cases.append(s)
        # gates on request order
        for pol in ('reverse', 'lowest_last', 'seeded'):
            s = copy.deepcopy(base)
            s['seed'] = rng.randrange(1 << 30)
            s['exit'] = rng.choice(['shutdown', 'with'])
            s['plan'] = {'gate': {'match': rng.choice(['s3:GetObject', '/pp:job_complete']), 'phase': 'before', 'policy': pol}}
            cases.append(s)
    # a download that was already cancelled when its submission step then FAILS (the size query is refused, the temporary file cannot be
    # allocated): it still becomes done
    for base in bl:
        for tgt in range(len(base['transfers'])):
            for (fkey, fphase, fkind) in ((f't{tgt}/s3:HeadObject#0', 'after', 'client4xx'), (f't{tgt}/s3:HeadObject#0', 'after', 'exc'),
                                          (f't{tgt}/fs:allocate#0', 'before', 'oserror')):
                for cat, cphase in ((f't{tgt}/s3:HeadObject#0', 'before'), (f't{tgt}/s3:HeadObject#0', 'after'), ('@after_submit', 'before')):
                    if quick and rng.random() < 0.5:
                        continue
                    if cphase == 'after' and 'HeadObject' in fkey:
                        continue  # (the fault is raised at that very point: the cancel would never be reached)
                    s = copy.deepcopy(base)
                    s['seed'] = rng.randrange(1 << 30)
                    s['exit'] = rng.choice(['shutdown', 'with'])
                    s['family'] = 'cancel+submission-fault'
                    s['plan'] = {'cancel': {'at': cat, 'phase': cphase, 'how': 'future.cancel', 'target': tgt},
                                 'faults': [{'at': fkey, 'phase': fphase, 'kind': fkind, 'tag': 'FAULT-ppsub'}]}
                    cases.append(s)
    # Ctrl-C in the with-block when an earlier download has finished and later ones have not (their requests are held at a gate)
    for i in range(20 if quick else 200):
        nd = rng.choice([2, 3])
        sizes = [rng.choice([5, 20, 30]) for _ in range(nd)]
        s = {'front_end': 'procpool_full', 'dirwatch': True, 'seed': rng.randrange(1 << 30), 'exit': 'with_kbi', 'family': 'kbi-after-some-done',
             'config': dict(multipart_threshold=16, multipart_chunksize=8, workers=rng.choice([1, 2, 3]), io_chunksize=4),
             'transfers': [{'kind': 'download', 'dst': 'path', 'size': sz, 'preexisting': rng.random() < 0.3} for sz in sizes],
             'kbi_after_done': [0] if rng.random() < 0.7 else [0, 1][:nd - 1],
             'plan': {'gate': {'match': [f't{k}/s3:GetObject' for k in range(1, nd)], 'phase': 'before', 'policy': 'seeded', 'after_cancel_begin': True}}}
        if len(s['kbi_after_done']) == 2:
            s['plan']['gate']['match'] = [f't{nd - 1}/s3:GetObject']
        cases.append(s)
    # one preemption at every statement of the monitor / transfer-state / worker / submitter code: the nth thread reaching the
    # line is held there until every other thread has run as far as it can (e.g. a worker between releasing the job-count lock
    # and using the count it read)
    from .. import yieldinj

    lines = [l for l in yieldinj.all_lines(['processpool.py'])
             if l[2].startswith(('TransferState.', 'TransferMonitor.', 'GetObjectWorker.', 'GetObjectSubmitter.', 'BaseProcessPoolDownloader', 'ProcessPoolDownloader.'))
             and not l[2].endswith('__init__')]
    wbases = [b for b in bases() if b['config']['workers'] >= 2 and max(t['size'] for t in b['transfers']) >= 20]
    for line in lines:
        core = line[2].startswith(('TransferState.', 'TransferMonitor.'))  # the shared state every worker goes through
        for nth in ((0, 1, 2, 3) if core or not quick else (0, 1)):
            for rep in range((2 if core else 1) if quick else 4):
                s = copy.deepcopy(rng.choice(wbases))
                s['seed'] = rng.randrange(1 << 30)
                s['exit'] = rng.choice(['shutdown', 'with'])
                s['family'] = 'window'
                s['yield'] = {'p': 0.0, 'window': {'file': line[0], 'lineno': line[1], 'nth': nth, 'name': f'{line[0]}:{line[1]}:{line[2]}', 'wait': 0.2}}
                cases.append(s)
    # the same windows over the workers' / monitor's code with one job failing (non-retryable) while its sibling jobs go on: the
    # thread that reaches the line is held, e.g. between counting its failed job off and recording the failure
    flines = [l for l in lines if l[2].startswith(('GetObjectWorker.', 'TransferMonitor.notify_', 'TransferState.'))]
    for line in flines:
        for nth in ((0, 1) if quick else (0, 1, 2, 3)):
            for rep in range(1 if quick else 3):
                s = copy.deepcopy(rng.choice(wbases))
                s['seed'] = rng.randrange(1 << 30)
                s['exit'] = rng.choice(['shutdown', 'with'])
                s['family'] = 'window+fault'
                tk = rng.randrange(len(s['transfers']))
                sz = s['transfers'][tk]['size']
                part = 8 * rng.randrange(0, max(1, (sz + 7) // 8)) if sz >= 16 else 'all'
                s['plan'] = {'faults': [{'at': f't{tk}/s3:GetObject:{part}#0', 'phase': rng.choice(['before', 'after']), 'kind': rng.choice(['exc', 'client4xx']),
                                         'tag': 'FAULT-ppw'}]}
                s['yield'] = {'p': 0.0, 'window': {'file': line[0], 'lineno': line[1], 'nth': nth, 'name': f'{line[0]}:{line[1]}:{line[2]}', 'wait': 0.2}}
                cases.append(s)
    # ... and one preemption INSIDE each read-modify-write statement of the shared monitor state (``jobs_to_complete -= 1``, the id
    # counter): the thread is held after it has read the old value, until the others have run as far as they can
    for site in yieldinj.rmw_sites(['processpool.py']):
        if not site[2].startswith(('TransferState.', 'TransferMonitor.')):
            continue
        for nth in (0, 1, 2, 3):
            for rep in range(2 if quick else 6):
                s = copy.deepcopy(rng.choice(wbases))
                s['seed'] = rng.randrange(1 << 30)
                s['exit'] = rng.choice(['shutdown', 'with'])
                s['family'] = 'rmw-window'
                if 'notify_new_transfer' in site[2]:
                    s['concurrent_submit'] = True
                s['yield'] = {'p': 0.0, 'window': {'file': site[0], 'lineno': site[1], 'nth': nth, 'name': f'rmw:{site[0]}:{site[1]}:{site[2]}', 'wait': 0.2, 'rmw': True}}
                cases.append(s)
    # real processes
    for i in range(6 if quick else 24):
        cases.append({'type': 'real', 'seed': rng.randrange(1 << 30), 'what': ['ok', 'fail', 'cancel', 'ok', 'kbi', 'fail'][i % 6],
                      'workers': rng.choice([1, 2, 3]), 'sizes': rng.choice([[5], [20, 30], [30]])})
    rng.shuffle(cases)
    return cases


def evaluate(obs):
    viol = []
    stats = {'done_notifications': 0, 'jobs_completed': 0, 'cancel_fired': 1 if obs.cancel_events else 0,
             'faults_hit': len(obs.world.director.raised), 'success': 0, 'raised': 0,
             'yield_events': obs.injector.events if getattr(obs, 'injector', None) else 0}
    ex = obs.spec.get('exit', 'shutdown')
    stats['exit_' + ex] = 1
    nontrivial = False
    if obs.exit_exc is not None:
        viol.append(V(f'leaving the downloader through {ex} raised {obs.exit_exc!r}', sym='exit-raised'))
    for x in obs.xfers:
        evs = [e for e in obs.events if e.get('label') == x.label]
        mech = {'front_end': 'procpool', 'exit': ex}
        dones = [e for e in evs if e['kind'] == 'pp.done']
        stats['done_notifications'] += len(dones)
        exp = [e for e in evs if e['kind'] == 'pp.expected']
        jc = [e for e in evs if e['kind'] == 'pp.job_complete']
        stats['jobs_completed'] += len(jc)
        stats['success' if x.outcome == 'success' else 'raised'] += 1
        if x.future is None:
            continue
        if len(dones) != 1:
            viol.append(V(f'{x.label}: done was notified {len(dones)} times', sym='done-count', **mech))
            continue
        d = dones[0]
        njobs = exp[0]['jobs'] if exp else 0
        # (a worker's 'accounted' event is logged after the monitor call returned, so under load it can trail another worker's done
        # notification: the count uses the events logged on ENTRY to the call; the exact count is the jobs_left rule below)
        before = [e for e in evs if e['kind'] == 'pp.job_complete.begin' and e['n'] < d['n']]
        if len(before) != njobs:
            viol.append(V(f'{x.label}: notified done after {len(before)} of {njobs} jobs had been accounted for by workers', sym='done-before-jobs',
                          **mech))
        if d.get('jobs_left') not in (0, None) and exp:
            viol.append(V(f'{x.label}: notified done with jobs_to_complete={d.get("jobs_left")}', sym='done-before-jobs', **mech))
        if d.get('temps'):
            viol.append(V(f'{x.label}: temporary file {d["temps"]} still present at the moment the download was notified done '
                          f'(exception={d.get("exception")})', sym='temp-at-done', failed=d.get('exception') is not None, **mech))
        if d.get('exception') is None:
            if d.get('dest') != 'complete' and not (x.prev is not None and x.prev == x.data):
                viol.append(V(f'{x.label}: notified done without an exception but the destination is {d.get("dest")}', sym='success-not-in-place',
                              **mech))
        else:
            if d.get('dest') == 'partial':
                viol.append(V(f'{x.label}: failed download left partial content under the destination name', sym='partial-at-done', **mech))
            elif d.get('dest') == 'complete' and x.prev != x.data:
                # (the moment the cancellation was applied: the return of future.cancel(), or the Ctrl-C exit's cancel-all pass)
                cend = [e for e in obs.events if e['kind'] in ('cancel.end', 'pp.cancel_all')]
                late = [e for e in evs if cend and e['n'] > cend[-1]['n'] and e['kind'] == 'body.read' and e.get('nbytes', 0) > 0]
                if not cend or late:
                    viol.append(V(f'{x.label}: failed ({d.get("exception")}) but the complete object was published', sym='published-on-failure',
                                  **mech))
        if obs.done_at_exit.get(x.label) is False:
            viol.append(V(f'{x.label}: not done when {ex} returned', sym='exit-before-done', **mech))
        if x.outcome == 'success':
            viol += oracles.content_oracle(obs, x)
        ca = [e for e in obs.events if e['kind'] == 'pp.cancel_all']
        if ex == 'with_kbi' and ca and x.idx not in ca[0]['done_before'] and x.outcome == 'success':
            viol.append(V(f'{x.label}: was unfinished when Ctrl-C left the with-block (downloads done by then: {ca[0]["done_before"]}), yet it was '
                          f'not cancelled: result() returned normally', sym='kbi-not-cancelled', **mech))
        if ex == 'with_kbi' and x.outcome == 'raised' and not isinstance(x.exc, oracles.CancelledError) and not obs.world.director.raised:
            viol.append(V(f'{x.label}: Ctrl-C in the with-block, but result() raised {x.exc!r}', sym='kbi-wrong-error', **mech))
        if njobs >= 2 or obs.world.director.raised or obs.cancel_events:
            nontrivial = True
    for e in obs.events:
        if e['kind'] in ('pp.late_result', 'pp.early_result'):
            stats['late_results'] = stats.get('late_results', 0) + 1
            if not e['done']:
                viol.append(V(f'{e["label"]}: a result() call (waiting from the start, or made after the failure / cancellation had been recorded) came back ({e["outcome"]}) '
                              f'while the download was not done: {e["jobs_left"]} job(s) unaccounted, temporary files {e["temps"]}',
                              sym='result-before-done'))
    # once a result() call has come back the download is OVER: no job of it is begun, allocated for, requested or counted off afterwards
    # (only events logged on ENTRY to a step count: an exit log may trail)
    first_ret = {}
    for e in obs.events:
        if e['kind'] == 'pp.result_returned' and e['label'] not in first_ret:
            first_ret[e['label']] = e['n']
    for lbl, n0 in first_ret.items():
        late = [e for e in obs.events if e['n'] > n0 and e.get('label') == lbl
                and e['kind'] in ('pp.expected', 'pp.job_complete.begin', 'fs.allocate', 'api.begin', 'fs.open', 'fs.rename.begin')]
        stats['results_returned'] = stats.get('results_returned', 0) + 1
        if late:
            viol.append(V(f'{lbl}: result() had come back, yet the download went on: {[(e["kind"], e.get("op")) for e in late[:4]]} ({len(late)} step(s) begun afterwards)',
                          sym='activity-after-result'))
    if getattr(obs, 'live_threads', None):
        viol.append(V(f'submitter/worker threads still alive after exit: {obs.live_threads}', sym='workers-survive'))
    if obs.dirwatch:
        viol += obs.dirwatch.violations
    summary = {'outcomes': e2e.default_outcomes(obs), 'exit': ex, 'raised': [(r['key'], r['phase'], r['kind']) for r in obs.world.director.raised],
               'cancel': obs.world.director.cancel_fired,
               'protocol': [(e['n'], e['kind'], e.get('label'), e.get('remaining', e.get('jobs'))) for e in obs.events if e['kind'].startswith('pp.')][:30]}
    return viol, stats, nontrivial, summary


def run_inproc(spec):
    from .. import yieldinj

    inj = None
    if spec.get('yield'):
        w = spec['yield'].get('window')
        wins = [{'file': w['file'], 'line': w['lineno'], 'nth': w.get('nth', 0), 'action': 'pause', 'name': w.get('name'),
                 'wait': w.get('wait', 0.2), 'rmw': bool(w.get('rmw'))}] if w else ()
        inj = yieldinj.Injector(p=spec['yield'].get('p', 0.0), seed=spec.get('seed', 0), files=['processpool.py'], windows=wins).install()
    try:
        obs = run_spec(spec)
    finally:
        if inj:
            inj.uninstall()
    obs.injector = inj
    try:
        if obs.hang is not None:
            r = e2e.hang_result(obs)
            if obs.hang == 'deadlock':
                r['verdict'] = 'violated'
                r['violations'] = [V(f'process-pool protocol deadlocked in "{obs.hang_what}": {e2e.lib_frames(obs.stacks)}', sym='deadlock',
                                     exit=spec.get('exit'))]
            return r
        if obs.world.s3.harness_errors:
            return {'verdict': 'inconclusive', 'key': None, 'violations': [], 'stats': {'harness_error': 1},
                    'summary': {'harness_errors': obs.world.s3.harness_errors[:3]}}
        viol, stats, nontrivial, summary = evaluate(obs)
        import hashlib

        key = hashlib.sha1((e2e.shape_of(spec) + str(spec.get('exit')) + e2e.interleaving_sig(obs)).encode()).hexdigest()[:16] if nontrivial else None
        stats['events'] = len(obs.events)
        res = {'verdict': 'violated' if viol else 'held', 'key': key, 'violations': viol, 'stats': stats, 'summary': summary}
        if viol:
            from ..events import trim

            res['trace'] = [trim(e) for e in obs.events[:300]]
        return res
    finally:
        if obs.hang is None:
            scenario.cleanup(obs)


def run_case(case):
    if case.get('type') == 'real':
        from .c19_real import run_real

        return run_real(case)
    return run_inproc(case)
