"""C12 — semaphores: sliding-window semantics and permit conservation."""
import copy
import itertools
import random
import threading
import time

from .. import e2e, gen, oracles, watchdog
from ..oracles import V

PROPERTY = 'C12'
LEVEL = 'exploration'
EXHAUSTIVE = {'quick': True, 'thorough': True}
RULE = ('(seq) the real SlidingWindowSemaphore / TaskSemaphore driven through EVERY sequence of non-blocking acquire / release '
        'operations over <=3 tags, capacity 1..3, up to the length bound (quick 7, thorough 9; explored as the reachable graph of '
        '(model state, real object state), releases include the next-to-be-issued token, the one beyond it '
        'and an unknown tag; double releases of a valid token are outside the property and not generated); every return '
        'value / exception / current_count is compared with a reference model written from the statement; (thr) 1-3 blocking '
        'acquirers as real threads against every release order, with line-level yield injection inside utils.py: nobody may remain '
        'blocked at quiescence once every issued token was released; (nb) a NON-blocking acquirer held at every statement of '
        'acquire() while blocking / non-blocking rivals go for the last free permit: at quiescence it has a token or was refused, '
        'never waits, and the single permit is granted once; (probe) after end-to-end runs with faults and cancels, each '
        'stage/tag semaphore of the manager must accept exactly its configured number of gate-blocked no-op tasks with block=False '
        'and refuse the next; non-trivial = at least one comparison made; distinct = distinct (model state, op) pairs / release '
        'orders / scenario shapes')
ASSUMPTIONS = [
    'double release of the same valid token is outside the statement',
    'the capacity probe reaches the executors through TransferManager._request_executor/_submission_executor/_io_executor',
]
CASE_TIMEOUT = 300.0


# ----------------------------------------------------------------- reference
class RefSliding:
    def __init__(self, count):
        self.count = count
        self.next = {}
        self.lowest = {}
        self.pending = {}

    def free(self):
        used = 0
        for t in self.next:
            used += (self.next[t] - 1) - self.lowest[t] + 1
        return self.count - used

    def acquire(self, tag):
        if self.free() == 0:
            return ('raise', 'NoResourcesAvailable')
        n = self.next.get(tag, 0)
        if tag not in self.next:
            self.lowest[tag] = 0
            self.pending[tag] = set()
        self.next[tag] = n + 1
        return ('ok', n)

    def release(self, tag, tok):
        if tag not in self.next:
            return ('raise', 'ValueError')
        if tok >= self.next[tag] or tok < self.lowest[tag] or tok in self.pending[tag]:
            return ('raise', 'ValueError')
        if tok == self.lowest[tag]:
            self.lowest[tag] += 1
            while self.lowest[tag] in self.pending[tag]:
                self.pending[tag].discard(self.lowest[tag])
                self.lowest[tag] += 1
        else:
            self.pending[tag].add(tok)
        return ('ok', None)

    def key(self):
        return (self.count, tuple(sorted(self.next.items())), tuple(sorted(self.lowest.items())),
                tuple(sorted((t, tuple(sorted(p))) for t, p in self.pending.items())))

    def ops(self, tags):
        out = []
        for t in tags:
            out.append(('acquire', t, None))
        for t in tags:
            if t in self.next:
                for tok in range(self.lowest[t], self.next[t] + 2):
                    if tok in self.pending[t]:
                        continue  # double release of a valid token: outside the property
                    out.append(('release', t, tok))
        out.append(('release', 'unknown-tag', 0))
        return out


def real_state(sem):
    d = {}
    for k, v in vars(sem).items():
        if k in ('_lock', '_condition', '_semaphore'):
            continue
        d[k] = copy.deepcopy(v) if not isinstance(v, (int, str)) else v
    return repr(sorted((k, repr(sorted(v.items())) if isinstance(v, dict) else repr(v)) for k, v in d.items()))


def apply_real(sem, op):
    from s3transfer.utils import NoResourcesAvailable

    kind, tag, tok = op
    try:
        if kind == 'acquire':
            return ('ok', sem.acquire(tag, False))
        sem.release(tag, tok)
        return ('ok', None)
    except NoResourcesAvailable:
        return ('raise', 'NoResourcesAvailable')
    except ValueError:
        return ('raise', 'ValueError')
    except Exception as e:  # noqa
        return ('raise', type(e).__name__)


def explore_sliding(count, ntags, depth, int_tags=False):
    """DFS over the reachable (model, real) state graph to ``depth``."""
    from s3transfer.utils import SlidingWindowSemaphore

    # the manager's tags are its integer transfer ids (1, 2, ...): the same small numbers as the tokens themselves
    tags = list(range(1, ntags + 1)) if int_tags else [f'tag{i}' for i in range(ntags)]
    viol = []
    seen = {}
    stats = {'paths': 0, 'ops': 0, 'states': 0, 'rejections_checked': 0}
    distinct = set()

    def replay(path):
        sem = SlidingWindowSemaphore(count)
        ref = RefSliding(count)
        for op in path:
            apply_real(sem, op)
            if op[0] == 'acquire':
                ref.acquire(op[1])
            else:
                ref.release(op[1], op[2])
        return sem, ref

    def dfs(path, remaining):
        sem, ref = replay(path)
        k = (ref.key(), real_state(sem))
        if seen.get(k, -1) >= remaining:
            return
        seen[k] = remaining
        stats['states'] = len(seen)
        if remaining == 0:
            stats['paths'] += 1
            return
        for op in ref.ops(tags):
            sem, ref2 = replay(path)
            before_real = real_state(sem)
            before_cc = sem.current_count()
            got = apply_real(sem, op)
            want = ref2.acquire(op[1]) if op[0] == 'acquire' else ref2.release(op[1], op[2])
            stats['ops'] += 1
            distinct.add((ref.key(), op))
            cc = sem.current_count()
            if got != want:
                if len(viol) < 5:
                    mech = {'cls': 'SlidingWindowSemaphore', 'sym': 'return-mismatch', 'op': op[0],
                            'never_issued_token': bool(op[0] == 'release' and op[1] in ref.next and op[2] >= ref.next[op[1]]),
                            'token_is_next': bool(op[0] == 'release' and op[1] in ref.next and op[2] == ref.next[op[1]])}
                    viol.append(V(f'SlidingWindowSemaphore({count}) after {path}: {op} gave {got}, reference says {want}', **mech))
                continue
            if want[0] == 'raise':
                stats['rejections_checked'] += 1
                if real_state(sem) != before_real or cc != before_cc:
                    if len(viol) < 5:
                        viol.append(V(f'SlidingWindowSemaphore({count}) after {path}: rejected {op} changed state', cls='SlidingWindowSemaphore',
                                      sym='rejected-op-changed-state', op=op[0]))
                    continue
            if cc != ref2.free():
                if len(viol) < 5:
                    viol.append(V(f'SlidingWindowSemaphore({count}) after {path + [op]}: current_count()={cc}, reference free capacity '
                                  f'{ref2.free()}', cls='SlidingWindowSemaphore', sym='capacity-mismatch', op=op[0]))
                continue
            dfs(path + [op], remaining - 1)

    dfs([], depth)
    return viol, stats, len(distinct)


def explore_task_sem(count, depth):
    from s3transfer.utils import NoResourcesAvailable, TaskSemaphore

    viol = []
    n = 0
    for seq in itertools.product('ar', repeat=depth):
        sem = TaskSemaphore(count)
        held = 0
        for op in seq:
            if op == 'a':
                try:
                    sem.acquire('t', False)
                    got = 'ok'
                except NoResourcesAvailable:
                    got = 'raise'
                want = 'ok' if held < count else 'raise'
                if want == 'ok':
                    held += 1
            else:
                if held == 0:
                    continue
                sem.release('t', None)
                held -= 1
                got = want = 'ok'
            n += 1
            if got != want:
                viol.append(V(f'TaskSemaphore({count}) seq {"".join(seq)}: acquire gave {got}, reference {want}', cls='TaskSemaphore',
                              sym='return-mismatch'))
                break
    return viol, n


# ------------------------------------------------------------------ threaded
def attach_lockset(sem):
    from .. import lockset

    return lockset.attach_to_sliding_semaphore(sem)


def threaded_case(case):
    """k blocking acquirers + releases in a given order; each woken acquirer
    releases its own token at once.  At the end nobody may be blocked."""
    from s3transfer.utils import SlidingWindowSemaphore, TaskSemaphore
    from .. import yieldinj

    count, k, order, cls, seed, multi_tag = case['count'], case['k'], case['order'], case['cls'], case['seed'], case['multi_tag']
    sem = SlidingWindowSemaphore(count) if cls == 'sliding' else TaskSemaphore(count)
    ls = attach_lockset(sem) if cls == 'sliding' else None
    inj = yieldinj.Injector(p=case.get('yield_p', 0.2), seed=seed, files=['utils.py']).install()
    try:
        tokens = [sem.acquire('A', False) for _ in range(count)]
        results = {}
        lock = threading.Lock()
        held = [count]  # permits currently held (the main thread holds `count` of them)
        max_held = [count]

        def acq(i):
            tag = 'A' if not multi_tag else ('A', 'B')[i % 2]
            tok = sem.acquire(tag, True)
            with lock:
                results[i] = (tag, tok)
                held[0] += 1
                max_held[0] = max(max_held[0], held[0])
            time.sleep(0)
            with lock:
                held[0] -= 1
            sem.release(tag, tok)

        ths = [threading.Thread(target=acq, args=(i,), daemon=True, name=f'vf-acq{i}') for i in range(k)]
        for t in ths:
            t.start()
        watchdog.wait_quiescent(2.0)
        late = []
        for n_rel, idx in enumerate(order):
            with lock:
                held[0] -= 1
            sem.release('A', tokens[idx])
            if case.get('late'):
                # a fresh acquirer arriving right after the release competes with the waiter that was just notified
                t = threading.Thread(target=acq, args=(100 + n_rel,), daemon=True, name=f'vf-late{n_rel}')
                late.append(t)
                t.start()
            if case.get('settle'):
                watchdog.wait_quiescent(1.0)
        ths = ths + late
        r = watchdog.await_or_deadlock(lambda: not any(t.is_alive() for t in ths), None, None, wall_timeout=20.0)
    finally:
        inj.uninstall()
    blocked = [t.name for t in ths if t.is_alive()]
    viol = []
    if r == 'deadlock':
        viol.append(V(f'{cls} semaphore({count}): {len(blocked)} acquirer(s) still blocked at quiescence after every issued token was '
                      f'released (release order {order})', cls=cls, sym='lost-wakeup'))
    if max_held[0] > count:
        viol.append(V(f'{cls} semaphore({count}): {max_held[0]} permits were held at once (release order {order}, late acquirers '
                      f'{bool(case.get("late"))})', cls=cls, sym='over-admission'))
    if ls and ls['violations']:
        what, name, th = ls['violations'][0]
        viol.append(V(f'sliding semaphore({count}): its state ({name}) was written by thread {th} without the semaphore\'s lock', cls=cls, sym='lockset'))
    fatal = r != 'done'
    final = None
    if r == 'done' and cls == 'sliding':
        final = sem.current_count()
        if final != count:
            viol.append(V(f'sliding semaphore({count}) ends with current_count()={final} after all tokens released', cls=cls,
                          sym='capacity-not-restored'))
    return {'verdict': 'violated' if viol else ('held' if r == 'done' else ('violated' if viol else 'inconclusive')),
            'key': f'thr-{cls}-{count}-{k}-{order}-{multi_tag}-{bool(case.get("late"))}', 'violations': viol,
            'stats': {'threaded_runs': 1, 'yield_events': inj.events, 'acquirers': k, 'lockset_applied': 1 if ls else 0,
                      'lockset_writes_checked': ls['count'][0] if ls else 0},
            'summary': {'order': order, 'results': {str(i): v for i, v in results.items()}, 'await': r}, 'fatal': fatal}



# ------------------------------------------------------- a blocking acquirer that has to wait for long
def patient_case(case):
    """No permit is free and nobody releases one for `secs` seconds of real time (a window full of slow parts): a blocking acquirer
    waits for as long as it takes - it may not come back with a token nobody gave it.  Then the permit is released and it must get it."""
    from s3transfer.utils import SlidingWindowSemaphore, TaskSemaphore

    count, cls, secs = case['count'], case['cls'], case['secs']
    sem = SlidingWindowSemaphore(count) if cls == 'sliding' else TaskSemaphore(count)
    held = [sem.acquire('A', False) for _ in range(count)]
    got = []

    def waiter():
        got.append(sem.acquire('A', True))

    th = threading.Thread(target=waiter, daemon=True, name='vf-patient')
    viol = []
    # (optionally with the package's loggers at DEBUG and a handler that formats every record - what `aws --debug` does)
    with e2e.debug_logging(case.get('debug_log')):
        th.start()
        end = time.monotonic() + secs
        while time.monotonic() < end and not got:
            time.sleep(0.05)
        if got:
            viol.append(V(f'{type(sem).__name__}({count}): all {count} permit(s) were held and none was released, yet a blocking acquire() returned '
                          f'{got[0]!r} after waiting {secs}s at most', cls=type(sem).__name__, sym='acquired-without-release'))
        else:
            rel = threading.Thread(target=lambda: sem.release('A', held[0]), daemon=True, name='vf-patient-release')
            rel.start()
            rel.join(10)
            if rel.is_alive():
                viol.append(V(f'{type(sem).__name__}({count}): release() of an issued token did not return while a blocking acquirer was waiting '
                              f'(debug logging: {bool(case.get("debug_log"))}): {e2e.lib_frames(watchdog.all_stacks())}', cls=type(sem).__name__, sym='release-blocks',
                              debug_log=bool(case.get('debug_log'))))
            else:
                th.join(10)
                if th.is_alive() or not got:
                    viol.append(V(f'{type(sem).__name__}({count}): a blocking acquirer that had waited {secs}s did not get the permit released then',
                                  cls=type(sem).__name__, sym='lost-wakeup'))
    return {'verdict': 'violated' if viol else 'held', 'key': f'patient-{cls}-{count}-{secs}-{bool(case.get("debug_log"))}', 'violations': viol,
            'stats': {'patient_waits': 1, 'patient_seconds': secs}, 'summary': {'got': repr(got)}}


# ------------------------------------------------------- non-blocking acquirers under contention
def nonblocking_case(case):
    """One permit is free; a non-blocking acquirer is held at a statement of acquire() while a rival (blocking or not) runs as far
    as it can - typically taking the last permit.  Nobody releases anything meanwhile, so at quiescence the non-blocking acquirer
    must have returned a token or raised NoResourcesAvailable: it may never be found waiting.  Afterwards everything is released and
    the capacity must be whole again."""
    from s3transfer.utils import NoResourcesAvailable, SlidingWindowSemaphore, TaskSemaphore
    from .. import yieldinj

    count, cls, w = case['count'], case['cls'], case['window']
    sem = SlidingWindowSemaphore(count) if cls == 'sliding' else TaskSemaphore(count)
    held = [('A', sem.acquire('A', False)) for _ in range(count - 1)]
    res = {}
    lock = threading.Lock()

    def acq(name, tag, blocking):
        try:
            tok = sem.acquire(tag, blocking)
            with lock:
                res[name] = ('token', tag, tok)
        except NoResourcesAvailable:
            with lock:
                res[name] = ('refused',)

    started = threading.Event()

    def rival_then_wait():
        started.set()

    wins = [{'file': 'utils.py', 'line': w['lineno'], 'nth': 0, 'action': 'pause', 'name': w['name'], 'wait': 0.5}]
    inj = yieldinj.Injector(p=0.0, seed=case['seed'], files=['utils.py'], windows=wins)
    t1 = threading.Thread(target=acq, args=('nb', 'A', False), daemon=True, name='vf-nb')
    rivals = [threading.Thread(target=acq, args=(f'r{i}', ('A', 'B')[i % 2] if case['multi_tag'] else 'A', b), daemon=True, name=f'vf-rival{i}')
              for i, b in enumerate(case['rivals'])]
    inj.install()
    try:
        t1.start()
        # the rivals start once the non-blocking acquirer sits at the line (or has finished, if the line is not on its path)
        end = time.monotonic() + 2.0
        while time.monotonic() < end and not inj.window_hits and t1.is_alive():
            time.sleep(0.0005)
        for t in rivals:
            t.start()
        watchdog.wait_quiescent(3.0)
    finally:
        inj.uninstall()
    end = time.monotonic() + 3.0
    while watchdog.PAUSED[0] and time.monotonic() < end:  # (the hold ends when the held thread has seen the others come to rest)
        time.sleep(0.001)
    ok = not watchdog.PAUSED[0] and watchdog.wait_quiescent(3.0, need=3)
    viol = []
    with lock:
        got = dict(res)
    def nb_waiting():
        # where the non-blocking acquirer is: inside Condition.wait() called from acquire() (and not held by the harness)
        import sys
        import traceback

        fr = sys._current_frames().get(t1.ident)
        if fr is None:
            return False
        st = traceback.extract_stack(fr)
        names = [(f.filename.rsplit('/', 1)[-1], f.name) for f in st]
        return ('yieldinj.py', '_cb') not in names and any(fn == 'threading.py' and n == 'wait' for fn, n in names) and \
            any(fn == 'utils.py' and n == 'acquire' for fn, n in names)

    stuck = False
    if ok and t1.is_alive():
        stuck = nb_waiting()
        if stuck:
            time.sleep(0.05)
            stuck = t1.is_alive() and nb_waiting() and watchdog.wait_quiescent(2.0, need=3)
        if not stuck:
            t1.join(5.0)  # it was merely slow
            with lock:
                got = dict(res)
            ok = not t1.is_alive()
    if stuck:
        viol.append(V(f'{cls} semaphore({count}): a non-blocking acquire that raced another acquirer for the last permit is WAITING at '
                      f'quiescence instead of raising (held at {w["name"]}; rivals blocking={case["rivals"]}; outcomes {got})', cls=cls,
                      sym='nonblocking-acquire-waits'))
    granted = [v for v in got.values() if v[0] == 'token']
    if len(granted) > 1:
        viol.append(V(f'{cls} semaphore({count}): {len(granted)} acquirers were granted the single free permit ({got})', cls=cls,
                      sym='over-admission'))
    # release everything: every acquirer must come home and the capacity must be whole
    pending = list(held) + [(v[1], v[2]) for v in granted]
    done_rel = set()
    r = 'done'
    for _ in range(6):
        for tag, tok in pending:
            if (tag, tok) not in done_rel:
                done_rel.add((tag, tok))
                sem.release(tag, tok)
        r = watchdog.await_or_deadlock(lambda: not (t1.is_alive() or any(t.is_alive() for t in rivals)), None, None, wall_timeout=10.0)
        with lock:
            pending = [(v[1], v[2]) for v in res.values() if v[0] == 'token']
        if r == 'done' and all(x in done_rel for x in pending):
            break
    if r == 'deadlock' and not viol:
        viol.append(V(f'{cls} semaphore({count}): acquirer(s) still blocked at quiescence after every issued token was released', cls=cls,
                      sym='lost-wakeup'))
    if r == 'done' and cls == 'sliding' and not viol and sem.current_count() != count:
        viol.append(V(f'sliding semaphore({count}) ends with current_count()={sem.current_count()} after all tokens released', cls=cls,
                      sym='capacity-not-restored'))
    return {'verdict': 'violated' if viol else ('held' if (ok and r == 'done') else 'inconclusive'),
            'key': f'nb-{cls}-{count}-{w["name"]}-{case["rivals"]}-{case["multi_tag"]}', 'violations': viol,
            'stats': {'nonblocking_races': 1, 'nonblocking_window_hit': 1 if inj.window_hits else 0,
                      'nonblocking_refused': 1 if got.get('nb') == ('refused',) else 0},
            'summary': {'outcomes': got, 'window_hit': dict(inj.window_hits)}, 'fatal': r != 'done'}

# --------------------------------------------------------------------- probe
def probe_eval(obs):
    viol = []
    p = getattr(obs, 'probe', None)
    stats = {'probes': 0, 'probe_semaphores': 0, 'faults_hit': len(obs.world.director.raised),
             'cancel_fired': 1 if (obs.cancel_events or obs.world.director.cancel_fired) else 0}
    nontrivial = False
    if p and getattr(obs, 'probe_quiescent', False):
        stats['probes'] = 1
        for name, (accepted, expected) in p.items():
            stats['probe_semaphores'] += 1
            nontrivial = True
            if accepted != expected:
                viol.append(V(f'after the run, semaphore {name} accepted {accepted} non-blocking permits; configured {expected} '
                              f'(outcomes {e2e.default_outcomes(obs)})', sym='capacity-after-run', sem=name,
                              leaked=accepted < expected))
    return viol, stats, nontrivial, {'probe': p, 'outcomes': e2e.default_outcomes(obs)}


# ---------------------------------------------------------------------- cases
def gen_cases(tier, seed):
    rng = random.Random(seed)
    quick = tier == 'quick'
    depth = 7 if quick else 9
    cases = []
    for count in (1, 2, 3):
        for ntags in (1, 2, 3):
            d = depth if ntags < 3 else depth - 1
            cases.append({'type': 'seq', 'count': count, 'ntags': ntags, 'depth': d})
            if ntags < 3:
                cases.append({'type': 'seq', 'count': max(count, 2) + 1, 'ntags': ntags, 'depth': d, 'int_tags': True})
    cases.append({'type': 'tasksem', 'depth': 10 if quick else 14})
    for cls in ('sliding', 'task'):
        for count in (1, 2, 3):
            for k in (1, 2, 3):
                orders = list(itertools.permutations(range(count)))
                for order in orders:
                    for multi in (False, True):
                        for settle in (False, True):
                            for rep in range(1 if quick else 4):
                                for late in (False, True):
                                    for yp in ((0.0, 0.5) if late else (rng.choice([0.0, 0.2, 0.5]),)):
                                        cases.append({'type': 'thr', 'cls': cls, 'count': count, 'k': k, 'order': list(order),
                                                      'multi_tag': multi, 'settle': settle and not late, 'late': late,
                                                      'seed': rng.randrange(1 << 30), 'yield_p': yp, 'reps': 6 if late else 1})
    # a non-blocking acquirer held at every statement of acquire() while rivals go for the last permit
    from .. import windows

    for cls, qual in (('sliding', 'SlidingWindowSemaphore.acquire'), ('task', 'TaskSemaphore.acquire')):
        for f, ln, q in windows.candidate_lines(['utils.py']):
            if q != qual:
                continue
            for count in (1, 2):
                for rivals in ([True], [False], [True, False]):
                    for multi in ((False, True) if cls == 'sliding' else (False,)):
                        cases.append({'type': 'nb', 'cls': cls, 'count': count, 'rivals': rivals, 'multi_tag': multi,
                                      'seed': rng.randrange(1 << 30), 'window': {'lineno': ln, 'name': f'{f}:{ln}:{q}'}})
    # a blocking acquirer that has to wait for seconds (real time; nothing in the library may give up waiting)
    for cls in ('sliding', 'task'):
        for count in (1, 2):
            cases.append({'type': 'patient', 'cls': cls, 'count': count, 'secs': 5 if quick else 20})
            cases.append({'type': 'patient', 'cls': cls, 'count': count, 'secs': 1, 'debug_log': True})
    # end-to-end probe after fault / cancel runs
    from .c04 import fault_or_cancel

    for i in range(250 if quick else 2500):
        spec = gen.mix(rng, rng.choice([1, 2, 3]), hi=3)
        spec['probe'] = True
        r = rng.random()
        if r < 0.75:
            fault_or_cancel(rng, spec['transfers'][0], spec)
        cases.append({'type': 'probe', 'spec': spec})
    return cases


def run_case(case):
    t = case['type']
    if t == 'seq':
        # every operation of these sequences is non-blocking by construction: if the exploring thread ever comes to rest inside the
        # semaphore (e.g. on a lock a rejected operation forgot to give back) that is a violation, not a time-out
        ob = watchdog.Obligation(lambda: explore_sliding(case['count'], case['ntags'], case['depth'], case.get('int_tags', False)), name='seq-explore').start()
        r = watchdog.await_or_deadlock(ob.done.is_set, None, None, wall_timeout=CASE_TIMEOUT - 30, checks=5, check_gap=0.1)
        if r == 'deadlock':
            st = e2e.lib_frames(watchdog.all_stacks())
            return {'verdict': 'violated', 'key': None, 'fatal': True, 'stats': {}, 'summary': {'stacks': st},
                    'violations': [V(f'SlidingWindowSemaphore({case["count"]}): a non-blocking operation of a single-threaded sequence never returned - the '
                                     f'thread is at rest inside the semaphore: {st}', cls='SlidingWindowSemaphore', sym='operation-blocks')]}
        if r != 'done':
            return {'verdict': 'inconclusive', 'key': None, 'fatal': True, 'stats': {}, 'summary': {'await': r}, 'violations': []}
        if ob.exc is not None:
            raise ob.exc
        viol, stats, distinct = ob.result
        return {'verdict': 'violated' if viol else 'held', 'key': f'seq-{case["count"]}-{case["ntags"]}-{case["depth"]}-{bool(case.get("int_tags"))}',
                'violations': viol, 'stats': dict(stats, seq_distinct_state_ops=distinct),
                'summary': {'states': stats['states'], 'ops': stats['ops']}}
    if t == 'tasksem':
        viol = []
        n = 0
        for c in (1, 2, 3):
            v, k = explore_task_sem(c, case['depth'])
            viol += v
            n += k
        return {'verdict': 'violated' if viol else 'held', 'key': 'tasksem', 'violations': viol[:5], 'stats': {'tasksem_ops': n},
                'summary': {'ops': n}}
    if t == 'nb':
        return nonblocking_case(case)
    if t == 'patient':
        return patient_case(case)
    if t == 'thr':
        res = None
        for rep in range(case.get('reps', 1)):
            c2 = dict(case, seed=case['seed'] + rep)
            r = threaded_case(c2)
            if res is None:
                res = r
            else:
                for k, v in r['stats'].items():
                    res['stats'][k] = res['stats'].get(k, 0) + v
                res['violations'] += r['violations']
                if r['verdict'] == 'violated':
                    res['verdict'] = 'violated'
            if r.get('fatal') or r['verdict'] == 'violated':
                res['fatal'] = r.get('fatal', False)
                break
        return res
    return e2e.run_with(case['spec'], probe_eval)


def evidence_extra(cases, results):
    return {'sequential_state_graph': [r.get('summary') for c, r in zip(cases, results) if c['type'] == 'seq']}
