"""Deterministic oracles over an Observation (one scenario run).

Each oracle returns a list of violations ``{'what': str, 'mech': {...}}``;
``mech`` describes the *mechanism* of the witness (front-end, destination kind,
mode, fault kind/position ...) and is what known_findings.json matches on.
"""
import os
import re
import threading

from botocore.exceptions import IncompleteReadError
from s3transfer.exceptions import CancelledError, FatalError, RetriesExceededError

from .director import STREAM_KINDS, find_tags
from .scenario import BUCKET, TEMP_RE, temp_leftovers

RETRY_KINDS = ('retry500', 'retryconn')


def V(what, **mech):
    return {'what': what, 'mech': mech}


def by_label(events, label, kind=None):
    return [e for e in events if e.get('label') == label and (kind is None or e['kind'] == kind)]


def mode_of(obs, x):
    cfg = obs.config
    size = x.spec.get('size', 0)
    if x.kind == 'delete':
        return 'single'
    if x.kind == 'upload' and x.spec.get('src') == 'nonseekable' and 'provide_size' not in (x.spec.get('subs') or [{}])[0]:
        return 'multipart' if size >= cfg.multipart_threshold else 'single'
    return 'multipart' if size >= cfg.multipart_threshold else 'single'


def base_mech(obs, x):
    return {
        'front_end': obs.spec.get('front_end', 'manager'),
        'kind': x.kind,
        'src': x.spec.get('src'),
        'dst': x.spec.get('dst'),
        'mode': mode_of(obs, x),
    }


def dest_bytes(obs, x):
    """Bytes now held by a download destination (None = path absent)."""
    if isinstance(x.dest, str):
        if x.fifo_reader is not None:
            return x.fifo_reader.value()
        try:
            with open(x.dest, 'rb') as f:
                return f.read()
        except FileNotFoundError:
            return None
        except IsADirectoryError:
            return ('dir', sorted(os.listdir(x.dest)))
    return x.dest.getvalue()


def complete_contents(obs, x):
    """The complete objects that may legitimately stand under x's destination name (x's own object, and those of the other
    downloads aimed at the same name)."""
    if not isinstance(x.dest, str):
        return [x.data]
    return [y.data for y in obs.xfers if y.kind == 'download' and isinstance(y.dest, str) and y.dest == x.dest]


def first_diff(a, b):
    n = min(len(a), len(b))
    for i in range(n):
        if a[i] != b[i]:
            return i
    return n if len(a) != len(b) else -1


# ------------------------------------------------------------------ C01 / C02
def content_oracle(obs, x):
    """For a transfer whose future reported success: is the effect byte-exact?"""
    out = []
    if x.outcome != 'success':
        return out
    s3 = obs.world.s3
    mech = base_mech(obs, x)
    if x.kind in ('upload', 'copy'):
        got = s3.objects.get((BUCKET, x.key))
        if got is None:
            out.append(V(f'{x.label}: {x.kind} reported success but destination object does not exist', **mech, sym='missing'))
        elif got != x.data:
            i = first_diff(got, x.data)
            out.append(V(f'{x.label}: {x.kind} reported success but object differs from source: '
                         f'len {len(got)} vs {len(x.data)}, first diff at byte {i}', **mech, sym='differs'))
        ups = [u for u in s3.uploads.values() if u['label'] == x.label]
        calls = [c for c in s3.calls.values() if c['label'] == x.label]
        unknown_size_short_reads = (x.kind == 'upload' and x.spec.get('src') == 'nonseekable' and x.spec.get('src_caps')
                                    and 'provide_size' not in (x.spec.get('subs') or [{}])[0])
        if (mech['mode'] == 'multipart' and not unknown_size_short_reads) or ups:
            # (a stream of unknown size whose first read comes back short is legitimately sent as one PutObject)
            good = [u for u in ups if u['state'] == 'completed']
            if len(good) != 1 or sum(u['completes'] for u in ups) != 1:
                out.append(V(f'{x.label}: multipart {x.kind} succeeded with {len(good)} completed uploads '
                             f'({[u["state"] for u in ups]})', **mech, sym='complete-count'))
            for u in good:
                nums = u.get('completed_parts') or []
                if nums != list(range(1, len(nums) + 1)):
                    out.append(V(f'{x.label}: completed with part numbers {nums}, not 1..n', **mech, sym='part-numbers'))
                comp = [c for c in calls if c['op'] == 'CompleteMultipartUpload' and c.get('parts_arg') is not None]
                for c in comp:
                    for pa in c['parts_arg']:
                        part = u['parts'].get(pa.get('PartNumber'))
                        if part is None:
                            continue
                        if pa.get('ETag') != part['etag']:
                            out.append(V(f'{x.label}: part {pa.get("PartNumber")} listed with ETag {pa.get("ETag")} '
                                         f'but S3 returned {part["etag"]}', **mech, sym='etag'))
                        if u.get('algo') and u.get('ctype') != 'FULL_OBJECT':
                            for name, val in part['checksums'].items():
                                if pa.get(name) != val:
                                    out.append(V(f'{x.label}: part {pa.get("PartNumber")} listed with {name}={pa.get(name)} '
                                                 f'but S3 returned {val}', **mech, sym='part-checksum'))
                cat = b''.join(u['parts'][n]['data'] for n in nums if n in u['parts'])
                if cat != x.data:
                    out.append(V(f'{x.label}: concatenation of parts differs from source at byte {first_diff(cat, x.data)}',
                                 **mech, sym='parts-concat'))
        elif mech['mode'] == 'single' and ups:
            out.append(V(f'{x.label}: single-request transfer created multipart uploads', **mech, sym='unexpected-mpu'))
    elif x.kind == 'download':
        got = dest_bytes(obs, x)
        if got is None:
            out.append(V(f'{x.label}: download reported success but destination path does not exist', **mech, sym='missing'))
        elif got != x.data:
            i = first_diff(got, x.data)
            m = dict(mech)
            m.update(classify_download_damage(obs, x, got))
            out.append(V(f'{x.label}: download reported success but destination has {len(got)} bytes vs object '
                         f'{len(x.data)}, first diff at byte {i}', **m))
    elif x.kind == 'delete':
        if (BUCKET, x.key) in s3.objects:
            out.append(V(f'{x.label}: delete reported success but object still exists', **mech, sym='not-deleted'))
    return out


def classify_download_damage(obs, x, got):
    """Mechanism fields for a corrupted download (for known-finding matching)."""
    d = obs.world.director
    faults = [r for r in d.raised if r['key'].startswith(x.label + '/') and r['phase'] == 'body']
    retry_after_delivery = any(r.get('delivered', 0) > 0 for r in faults)
    info = {'sym': 'differs', 'stream_retry_after_delivery': retry_after_delivery,
            'stream_faults': len(faults) > 0}
    data = x.data
    if len(got) > len(data):
        info['sym'] = 'surplus'
        # surplus explained by re-delivered prefixes?
        pos = 0
        ok = True
        # greedy: the written stream is a sequence of restarts from a part's first byte
        info['surplus_is_redelivery'] = _explained_by_redelivery(got, data)
    elif len(got) < len(data):
        info['sym'] = 'missing-bytes'
    caps = obs.spec.get('get_read_caps')
    info['chunk_boundaries_vary'] = bool(caps and len({tuple(c) for c in caps}) > 1)
    return info


def _explained_by_redelivery(got, data):
    """True if ``got`` can be produced by writing data[0:a1], then restarting at
    0 and writing data[0:a2] ... ending with the full data (single-GET retry)."""
    i = 0
    n = len(got)
    # walk: at each point either continue matching data from current offset or restart at 0
    pos = 0  # offset in data
    while i < n:
        if pos < len(data) and got[i] == data[pos]:
            i += 1
            pos += 1
        elif len(data) and got[i] == data[0]:
            pos = 1
            i += 1
        else:
            return False
    return pos == len(data)


def complete_args_oracle(obs, x):
    """Whatever the outcome: every CompleteMultipartUpload the library issues must list parts 1..n in
    ascending order, each with the ETag (and part checksum) the service returned for that part."""
    out = []
    s3 = obs.world.s3
    mech = base_mech(obs, x)
    for c in s3.calls.values():
        if c['label'] != x.label or c['op'] != 'CompleteMultipartUpload' or c.get('parts_arg') is None:
            continue
        nums = [p.get('PartNumber') for p in c['parts_arg']]
        if nums != list(range(1, len(nums) + 1)):
            out.append(V(f'{x.label}: CompleteMultipartUpload issued with part numbers {nums}, not 1..n ascending', **mech, sym='complete-order'))
        up = s3.uploads.get(c['params'].get('UploadId'))
        if up is None:
            continue
        for pa in c['parts_arg']:
            part = up['parts'].get(pa.get('PartNumber'))
            if part is not None and pa.get('ETag') != part['etag']:
                out.append(V(f'{x.label}: CompleteMultipartUpload lists part {pa.get("PartNumber")} with ETag {pa.get("ETag")}, '
                             f'S3 returned {part["etag"]}', **mech, sym='complete-etag'))
                break
    return out


# ------------------------------------------------------------------------ C03
def counted_faults(obs, x):
    """Faults actually raised into library code on behalf of transfer x, after
    the discounts the statement allows.  Returns (counted, all_raised)."""
    d = obs.world.director
    cfg = obs.config
    mine = [r for r in d.raised if r['key'].startswith(x.label + '/') and r['kind'] != 'stall']  # (a stall is slowness, not a fault)
    per_range = {}
    for r in mine:
        if is_retryable_download_fault(r):
            rng = r['key'].split('#')[0]
            per_range.setdefault(rng, []).append(r)
    counted = []
    for r in mine:
        k = r['key']
        if r['kind'] in RETRY_KINDS:
            continue
        if 's3:AbortMultipartUpload' in k or '/fs:remove' in k or '/cb:on_done' in k:
            continue
        if is_retryable_download_fault(r):
            rng = k.split('#')[0]
            if len(per_range[rng]) < cfg.num_download_attempts:
                continue
        counted.append(r)
    return counted, mine


def is_retryable_download_fault(r):
    """Retryable stream errors of a GetObject: a fault while the body is read, or a connection error raised by the request
    itself (both are what num_download_attempts budgets)."""
    if '/s3:GetObject' not in r['key']:
        return False
    if r['phase'] == 'body' and r['kind'] in STREAM_KINDS:
        return True
    return r['kind'] == 'connreset' and r['phase'] in ('before', 'after')


def cancel_issued_before_done(obs, x):
    evs = [e for e in obs.events if e['kind'] == 'cancel.begin']
    return bool(evs)


def unwrap_matches(exc, raised):
    """Does exc carry (or derive from) one of the raised faults?"""
    tags = find_tags(exc)
    rtags = {r['tag'] for r in raised}
    if tags & rtags:
        return True
    kinds = {r['kind'] for r in raised}
    cand = [exc, getattr(exc, 'last_exception', None), getattr(exc, '__cause__', None), getattr(exc, '__context__', None)]
    if 'incomplete' in kinds and any(isinstance(c, IncompleteReadError) for c in cand if c is not None):
        return True
    return False


def stable_outcome_oracle(obs, x):
    """result() called again on a finished future reports the same outcome: a failure is not used up by being reported once."""
    out = []
    sec = getattr(x, 'second_outcome', None)
    if sec is None or x.outcome is None:
        return out
    if x.outcome == 'raised' and sec[0] == 'success':
        out.append(V(f'{x.label}: result() raised {x.exc!r}, but result() called again on the same future returned normally '
                     f'({sec[1]!r}): the failed transfer now reports success', **base_mech(obs, x), sym='second-result-success'))
    elif x.outcome == 'raised' and sec[0] == 'raised' and type(sec[1]) is not type(x.exc):
        out.append(V(f'{x.label}: result() raised {x.exc!r}, called again it raised {sec[1]!r}', **base_mech(obs, x), sym='second-result-differs'))
    elif x.outcome == 'success' and sec[0] == 'raised':
        out.append(V(f'{x.label}: result() returned normally, called again it raised {sec[1]!r}', **base_mech(obs, x), sym='second-result-differs'))
    return out


def first_outcome_oracle(obs, x):
    """The first failure recorded is the one reported: once a user has seen future.done() == True ('done.seen', logged by the
    done-poller) the outcome is fixed, so the exception result() raises in the end cannot be one that was only RAISED after that."""
    out = []
    seen = [e['n'] for e in obs.events if e['kind'] == 'done.seen' and e.get('label') == x.label]
    if not seen or x.outcome != 'raised':
        return out
    tags = find_tags(x.exc)
    matched = [r for r in obs.world.director.raised if r['tag'] in tags]
    if matched and all(r['n'] > seen[0] for r in matched):
        earlier = [r['tag'] for r in obs.world.director.raised if r['n'] < seen[0] and r['key'].startswith(x.label + '/')]
        out.append(V(f'{x.label}: future.done() was already True when {matched[0]["tag"]} was raised at {matched[0]["key"]}, yet that is what '
                     f'result() reports ({x.exc!r}); faults raised before: {earlier}, cancel issued before: '
                     f'{bool([e for e in obs.events if e["kind"] == "cancel.begin" and e["n"] < seen[0]])}', **base_mech(obs, x),
                     sym='outcome-replaced-after-done', fault_site=re.sub(r'[#:].*$', '', matched[0]['key'].split('/', 1)[1])))
    return out


BASE_KINDS = ('base', 'systemexit', 'generatorexit')


def in_submission_step(rec):
    """Was this fault raised inside the transfer's submission step (by the thread running it, or at a boundary only it reaches)?"""
    return rec.get('stage') == 'submission' or any(s in rec['key'] for s in ('/s3:HeadObject', '/cb:on_queued', '/fs:size'))


def outcome_oracle(obs, x):
    out = []
    mech = base_mech(obs, x)
    counted, mine = counted_faults(obs, x)
    # mechanism fields: a BaseException (not an Exception) was raised into request-stage work of this transfer / into its
    # submission step (the size query, on_queued, whatever the submission thread itself does)
    mech['base_exception_fault'] = any(r['kind'] in BASE_KINDS and not in_submission_step(r) for r in mine)
    mech['base_exception_in_submission'] = any(r['kind'] in BASE_KINDS and in_submission_step(r) for r in mine)
    mech['executor'] = obs.spec.get('executor', 'threaded')
    cancelled = cancel_issued_before_done(obs, x)
    if x.outcome is None:
        return out
    if counted and x.outcome == 'success':
        f = counted[0]
        out.append(V(f'{x.label}: result() returned normally although fault {f["tag"]} ({f["kind"]}) was raised at '
                     f'{f["key"]} [{f["phase"]}]', **mech, sym='false-success', fault_kind=f['kind'],
                     fault_site=re.sub(r'[#:].*$', '', f['key'].split('/', 1)[1]) if '/' in f['key'] else f['key'],
                     fault_phase=f['phase']))
    if x.outcome == 'raised':
        exc = x.exc
        is_cancel = isinstance(exc, CancelledError)
        if is_cancel and cancelled:
            pass
        elif unwrap_matches(exc, mine):
            exhausted = [r for r in counted if is_retryable_download_fault(r)]
            if exhausted and not any(r for r in counted if r not in exhausted):
                if not isinstance(exc, RetriesExceededError) and not is_cancel:
                    out.append(V(f'{x.label}: retries ran out but result() raised {type(exc).__name__}, '
                                 f'not RetriesExceededError', **mech, sym='not-wrapped'))
        elif not mine and not cancelled:
            out.append(V(f'{x.label}: result() raised {exc!r} although no fault was injected and no cancel issued',
                         **mech, sym='spurious-failure'))
        elif not is_cancel:
            out.append(V(f'{x.label}: result() raised {exc!r}, which is none of the faults that occurred '
                         f'({[r["tag"] for r in mine]})', **mech, sym='foreign-exception'))
    # attempts per range / no retry of non-retryable
    begins = {}
    for e in obs.events:
        if e['kind'] == 'api.begin' and e.get('label') == x.label:
            begins.setdefault((e['op'], '' if e.get('disc') is None else str(e.get('disc'))), []).append(e)
    for (op, disc), evs in begins.items():
        if op == 'GetObject' and len(evs) > obs.config.num_download_attempts:
            out.append(V(f'{x.label}: {len(evs)} GetObject requests for range {disc}, more than num_download_attempts='
                         f'{obs.config.num_download_attempts}', **mech, sym='too-many-attempts'))
    for r in mine:
        if r['kind'] in ('exc', 'client4xx', 'oserror') and '/s3:' in r['key'] and 'Abort' not in r['key'] and r['phase'] != 'mid':
            opdisc = r['key'].split('/s3:')[1].split('#')[0]
            op, _, disc = opdisc.partition(':')
            later = [e for e in begins.get((op, disc), []) if e['n'] > r['n']]
            if later:
                out.append(V(f'{x.label}: non-retryable fault {r["tag"]} on {opdisc} was followed by another {op} request',
                             **mech, sym='retried-nonretryable'))
    return out


# ------------------------------------------------------------------------ C05
def result_ret_n(obs, x):
    evs = [e for e in obs.events if e['kind'] == 'result.ret' and e.get('label') == x.label]
    return evs[0]['n'] if evs else None


def call_end_n(obs, call_id):
    n = None
    for e in obs.events:
        if e.get('call_id') == call_id and e['kind'] == 'api.ret':
            n = e['n']
    return n


def mpu_oracle(obs, x):
    out = []
    s3 = obs.world.s3
    mech = base_mech(obs, x)
    # (mechanism field of finding F9: a BaseException that is not an Exception was raised into request-stage work of this transfer)
    if any(r['kind'] in BASE_KINDS and not in_submission_step(r) and r['key'].startswith(x.label + '/') for r in obs.world.director.raised) \
            and obs.spec.get('executor', 'threaded') == 'threaded':
        mech['base_exception_fault'] = True
    ups = [u for u in s3.uploads.values() if u['label'] == x.label]
    stats = {'uploads': len(ups), 'undelivered': 0}
    rn = result_ret_n(obs, x)
    done_ns = [e['n'] for e in obs.events if e['kind'] == 'cb.on_done' and e.get('label') == x.label]
    calls = [c for c in s3.calls.values() if c['label'] == x.label]
    api_begin = {e['call_id']: e for e in obs.events if e['kind'] == 'api.begin' and e.get('label') == x.label}
    for u in ups:
        if not u['delivered']:
            stats['undelivered'] += 1
            continue
        uid = u['id']
        ucalls = [c for c in calls if c['params'].get('UploadId') == uid or c.get('created_upload') == uid]
        # an abort counts once it has left the client: one rejected locally (parameter validation) never reached the service
        unsent = [c for c in ucalls if c['op'] == 'AbortMultipartUpload' and not c.get('attempts')]
        aborts = [c for c in ucalls if c['op'] == 'AbortMultipartUpload' and c.get('attempts')]
        completes = [c for c in ucalls if c['op'] == 'CompleteMultipartUpload']
        if len(completes) > 1:
            out.append(V(f'{x.label}: upload {uid} received {len(completes)} CompleteMultipartUpload calls', **mech, sym='double-complete'))
        # a CompleteMultipartUpload whose successful response reached the library finishes the upload the first way: the future must
        # succeed and no abort may follow (the upload would be both completed and aborted, and a failure reported for an object that
        # exists); a complete applied by the service whose response was lost is a failed request, not this case
        delivered = [c for c in completes
                     if [e for e in obs.events if e['kind'] == 'api.ret' and e.get('call_id') == c['call_id'] and e.get('error') is None]]
        if delivered and u['state'] == 'completed' or delivered and u['completes']:
            if x.outcome == 'raised' or aborts:
                out.append(V(f'{x.label}: CompleteMultipartUpload for {uid} returned successfully, yet the future '
                             f'{"failed with " + type(x.exc).__name__ if x.outcome == "raised" else "succeeded"} and '
                             f'{len(aborts)} AbortMultipartUpload request(s) were sent for the completed upload', **mech, sym='completed-and-aborted',
                             cancelled=isinstance(x.exc, CancelledError) if x.outcome == 'raised' else False))
        if x.outcome == 'success':
            if u['completes'] != 1 or u['state'] != 'completed':
                out.append(V(f'{x.label}: future succeeded but upload {uid} is {u["state"]} (completes={u["completes"]})',
                             **mech, sym='success-not-completed'))
            if aborts:
                out.append(V(f'{x.label}: future succeeded but upload {uid} was aborted', **mech, sym='success-aborted'))
        elif x.outcome == 'raised':
            if not aborts:
                why = ''
                if unsent:
                    why = f'; AbortMultipartUpload was called with {sorted(unsent[0]["params"])} and rejected before being sent'
                out.append(V(f'{x.label}: future failed ({type(x.exc).__name__}) but no abort was issued for upload {uid} '
                             f'(state {u["state"]}){why}', **mech, sym='orphan', abort_rejected_locally=bool(unsent),
                             exc_is_base=not isinstance(x.exc, Exception)))
            else:
                ab_n = min(api_begin[c['call_id']]['n'] for c in aborts)
                if rn is not None and ab_n > rn:
                    out.append(V(f'{x.label}: abort for {uid} issued only after result() had returned', **mech, sym='late-abort'))
                if done_ns and ab_n > min(done_ns):
                    out.append(V(f'{x.label}: abort for {uid} issued after on_done began', **mech, sym='abort-after-on_done'))
        if aborts:
            ab_n = min(api_begin[c['call_id']]['n'] for c in aborts)
            for c in ucalls:
                if c['op'] == 'AbortMultipartUpload':
                    continue
                b = api_begin[c['call_id']]['n']
                if b > ab_n:
                    out.append(V(f'{x.label}: {c["op"]} for {uid} issued after its abort', **mech, sym='request-after-abort'))
                en = call_end_n(obs, c['call_id'])
                if en is None or en > ab_n:
                    out.append(V(f'{x.label}: abort for {uid} issued while {c["op"]} {c.get("disc")} was still in flight',
                                 **mech, sym='abort-while-inflight'))
    return out, stats


# ------------------------------------------------------------------------ C06
class DirWatch:
    """Inspects the download directory at every boundary event of every thread."""

    def __init__(self, obs):
        self.obs = obs
        self.lock = threading.Lock()
        self.violations = []
        self.inspections = 0
        self.states = set()
        self.seen_temp = 0
        self._tmp_prefix = str(getattr(obs, 'tmpdir', '') or '\0')
        from . import oshook

        oshook.register(self.os_event)

    def close(self):
        from . import oshook

        oshook.unregister(self.os_event)

    def os_event(self, event, args):
        """os.rename / os.remove about to happen on a destination name: a boundary like any other (the directory is inspected at
        this very instant, and a planned fault makes the call itself fail)."""
        obs = self.obs
        if event == 'open':
            # builtin open() of a temporary file of one of the watched destinations (the process-pool workers and the legacy
            # downloader open it directly, below every OSUtils wrapper): a planned fault makes the open itself fail
            p = args[0]
            if isinstance(p, str) and not os.path.isabs(p) and getattr(obs, 'prev_cwd', None) is not None:
                p = os.path.abspath(p)
            if not isinstance(p, str) or not p.startswith(self._tmp_prefix):
                return
            dn, bn = os.path.split(p)
            for x in getattr(obs, 'xfers', ()):
                if x.kind == 'download' and isinstance(x.dest, str) and x.fifo_reader is None and not x.spec.get('dst_is_dir'):
                    base = os.path.basename(x.dest)
                    if dn == os.path.dirname(x.dest) and bn != base and bn.startswith(base[:255 - 9]):
                        d = obs.world.director
                        key = d.occurrence(f'{x.label}/os:open')
                        f = d.point(key, 'before')
                        if f is not None:
                            from .director import InjectedOSError

                            d.note_raised(f, key, 'before')
                            raise InjectedOSError(f['tag'])
                        return
            return
        paths = [p for p in args[:2] if isinstance(p, str)]
        if getattr(obs, 'prev_cwd', None) is not None:
            paths = [os.path.abspath(p) for p in paths]
        for x in getattr(obs, 'xfers', ()):
            if x.kind == 'download' and isinstance(x.dest, str) and x.dest in paths and x.fifo_reader is None:
                d = obs.world.director
                key = d.occurrence(f'{x.label}/os:{event.split(".")[1]}')
                f = d.point(key, 'before')
                if f is not None:
                    from .director import InjectedOSError

                    d.note_raised(f, key, 'before')
                    raise InjectedOSError(f['tag'])
                return

    def hook(self, key, phase, info):
        obs = self.obs
        with self.lock:
            self.inspections += 1
            for x in obs.xfers:
                if x.kind != 'download' or not isinstance(x.dest, str) or x.fifo_reader is not None:
                    continue
                if x.spec.get('dst_is_dir'):
                    if not os.path.isdir(x.dest) or sorted(os.listdir(x.dest)) != ['keep']:
                        if len(self.violations) < 5:
                            self.violations.append(V(f'{x.label}: the directory at the destination name was changed (observed at {key}/{phase})',
                                                     **base_mech(obs, x), sym='dir-destination-changed'))
                    self.states.add((x.label, 'dir'))
                    continue
                try:
                    with open(x.dest, 'rb') as f:
                        cur = f.read()
                except FileNotFoundError:
                    cur = None
                if cur is None:
                    st = 'absent'
                    if x.prev is not None and len(self.violations) < 5:
                        # the name had content before the download began: it may be replaced by the complete object, never vanish
                        self.violations.append(V(f'{x.label}: the destination name, which held previous content, does not exist '
                                                 f'(observed at {key}/{phase})', **base_mech(obs, x), sym='previous-content-gone'))
                elif cur == x.data and cur == x.prev:
                    st = 'prev=complete'
                elif cur in complete_contents(obs, x):
                    st = 'complete'
                elif cur == x.prev:
                    st = 'prev'
                else:
                    st = 'partial'
                    if len(self.violations) < 5:
                        self.violations.append(V(
                            f'{x.label}: destination name holds {len(cur)} bytes that are neither the previous content '
                            f'nor the complete object (observed at {key}/{phase})', **base_mech(obs, x), sym='partial-visible'))
                self.states.add((x.label, st))


def fs_oracle(obs, x):
    out = []
    if x.kind == 'download' and isinstance(x.dest, str) and x.fifo_reader is not None and x.outcome is not None:
        # a special file (FIFO) as destination: whatever the outcome, the name the caller gave still is that special file (it is
        # neither removed by a cleanup nor replaced by a regular file), and no temporary file stands beside it
        import stat as _stat

        mech = base_mech(obs, x)
        real = os.path.realpath(x.dest)
        try:
            st = os.lstat(real)
            is_fifo = _stat.S_ISFIFO(st.st_mode)
        except OSError:
            is_fifo = None
        if is_fifo is None:
            out.append(V(f'{x.label}: the FIFO given as destination no longer exists after the transfer ended {x.outcome}', **mech, sym='special-destination-removed',
                         outcome=x.outcome))
        elif not is_fifo:
            out.append(V(f'{x.label}: the FIFO given as destination was replaced by another kind of file ({x.outcome})', **mech, sym='special-destination-replaced'))
        return out
    if x.kind != 'download' or not isinstance(x.dest, str) or x.fifo_reader is not None:
        return out
    mech = base_mech(obs, x)
    mech['preexisting'] = x.prev is not None
    leftovers = temp_leftovers(x.dest)
    if x.outcome is not None and leftovers:
        out.append(V(f'{x.label}: temporary file(s) {leftovers} remain after the future is done ({x.outcome})',
                     **mech, sym='temp-left', outcome=x.outcome))
    cur = dest_bytes(obs, x)
    cancelled = bool([e for e in obs.events if e['kind'] == 'cancel.begin'])
    if x.spec.get('dst_is_dir'):
        # nothing can be published under a name that is an existing non-empty directory
        if x.outcome == 'success':
            out.append(V(f'{x.label}: the destination name is a directory, yet the download reported success', **mech, sym='success-onto-directory'))
        if cur != ('dir', ['keep']):
            out.append(V(f'{x.label}: the directory at the destination name was changed: now {cur!r}', **mech, sym='dir-destination-changed'))
        return out
    shared = len(complete_contents(obs, x)) > 1
    if shared:
        # several downloads aimed at this name: whatever stands there must be one of the complete objects (or the previous
        # content if none succeeded), and a download with nothing wrong with it must not fail
        ok_any = any(y.outcome == 'success' for y in obs.xfers if y.kind == 'download' and y.dest == x.dest)
        if cur not in complete_contents(obs, x) and not (cur == x.prev and not ok_any):
            out.append(V(f'{x.label}: the destination shared by several downloads holds {None if cur is None else len(cur)} bytes that are none of '
                         f'the complete objects', **mech, sym='shared-destination-corrupt'))
        if x.outcome == 'raised' and not [r for r in obs.world.director.raised if r['key'].startswith(x.label + '/')] and not isinstance(x.exc, CancelledError):
            out.append(V(f'{x.label}: download to a destination shared with another download failed although nothing was wrong with it: '
                         f'{x.exc!r}', **mech, sym='shared-destination-failed'))
        return out
    if x.outcome == 'success':
        if cur != x.data:
            out.append(V(f'{x.label}: success but destination is {None if cur is None else len(cur)} bytes', **mech, sym='success-incomplete'))
    elif x.outcome == 'raised':
        iscancel = isinstance(x.exc, CancelledError)
        if cur != x.prev:
            if iscancel and cur == x.data:
                # allowed only if the cancel raced the final (publishing) step: every byte had
                # already been written when the cancel call returned.  The window between the
                # library's "was it cancelled?" check and the rename itself is not observable from
                # outside, so data written after the cancel returned is what refutes the race.
                cend = [e for e in obs.events if e['kind'] == 'cancel.end']
                late = [e for e in obs.events if e.get('label') == x.label and cend and e['n'] > cend[-1]['n']
                        and e['kind'] in ('fs.write', 'body.read') and e.get('nbytes', 0) > 0]
                if late:
                    out.append(V(f'{x.label}: cancelled, but data kept being transferred after the cancel call returned '
                                 f'and the complete object was published', **mech, sym='publish-after-cancel'))
            elif cur == x.data and any(r['key'].startswith(x.label + '/fs:rename') and r['phase'] == 'after' for r in obs.world.director.raised):
                # the harness made the publishing rename "fail" AFTER it had taken effect: the complete object stands under the name
                # and the failure is reported - both as they must be
                pass
            else:
                out.append(V(f'{x.label}: failed ({type(x.exc).__name__}) but destination content changed '
                             f'(now {None if cur is None else len(cur)} bytes, previous '
                             f'{None if x.prev is None else len(x.prev)})', **mech, sym='prev-clobbered'))
    return out


def handles_oracle(obs, x):
    """Every destination file the transfer opened for writing has been closed by the time the transfer is reported done (first
    on_done, else the return of result()): closing is one of its cleanups, whatever the outcome."""
    out = []
    if x.kind != 'download' or not isinstance(x.dest, str):
        return out
    if len(complete_contents(obs, x)) > 1:
        return out  # several downloads share this name: file events cannot be attributed to one of them
    evs = [e for e in obs.events if e.get('label') == x.label]
    done_n = min([e['n'] for e in evs if e['kind'] == 'cb.on_done'] + [e['n'] for e in evs if e['kind'] == 'result.ret'], default=None)
    if done_n is None:
        return out
    opens = [e for e in evs if e['kind'] == 'fs.open' and ('w' in e.get('mode', '') or '+' in e.get('mode', '') or 'a' in e.get('mode', '')) and e['n'] < done_n]
    closes = [e for e in evs if e['kind'] == 'fs.close' and e['n'] < done_n]
    by_path = {}
    for e in opens:
        by_path[e['path']] = by_path.get(e['path'], 0) + 1
    for e in closes:
        by_path[e['path']] = by_path.get(e['path'], 0) - 1
    left = sorted(os.path.basename(p) for p, n in by_path.items() if n > 0)
    if left:
        out.append(V(f'{x.label}: destination file(s) {left} opened by the transfer were still open when it was reported done '
                     f'({x.outcome}{": " + type(x.exc).__name__ if x.outcome == "raised" else ""})', **base_mech(obs, x), sym='handle-open-at-done',
                     special=x.fifo_reader is not None))
    return out


# ------------------------------------------------------------------------ C08
def callbacks_oracle(obs, x, expect_no_start=False):
    out = []
    mech = base_mech(obs, x)
    evs = [e for e in obs.events if e.get('label') == x.label]
    first_s3 = min([e['n'] for e in evs if e['kind'] == 'api.begin'], default=None)
    cancel_ns = [e['n'] for e in obs.events if e['kind'] == 'cancel.begin']
    for e in evs:
        if e['kind'] == 'cb.result_probe' and e.get('where') == 'on_done' and e.get('blocked'):
            out.append(V(f'{x.label}/{e["sub"]}: result() called from another thread while on_done was running did not return: the process came '
                         f'to rest with the caller still inside result() (on_done must run only once result() no longer blocks)', **mech,
                         sym='result-blocks-during-on_done'))
            break
    for s in subs_of(x):
        q = [e for e in evs if e['kind'] == 'cb.on_queued' and e['sub'] == s.name]
        dn = [e for e in evs if e['kind'] == 'cb.on_done' and e['sub'] == s.name]
        cancelled_early = bool(cancel_ns) and (not q or min(cancel_ns) < q[0]['n'])
        has_q, has_d = hasattr(s, 'on_queued'), hasattr(s, 'on_done')
        if len(q) > 1:
            out.append(V(f'{x.label}/{s.name}: on_queued ran {len(q)} times', **mech, sym='on_queued-multi'))
        queued_raised = [r for r in obs.world.director.raised
                         if r['key'].startswith(x.label + '/cb:on_queued') and f':{s.name}#' not in r['key']]
        if len(q) == 0 and queued_raised:
            # an earlier subscriber's on_queued raised: the transfer fails before starting and the
            # remaining on_queued callbacks are not run; then no request may have been issued
            if first_s3 is not None:
                out.append(V(f'{x.label}/{s.name}: S3 requests were issued although on_queued failed', **mech, sym='s3-after-queued-failure'))
        elif len(q) == 0 and has_q:
            if not cancelled_early and x.outcome is not None:
                out.append(V(f'{x.label}/{s.name}: on_queued never ran', **mech, sym='on_queued-missing'))
            elif first_s3 is not None:
                out.append(V(f'{x.label}/{s.name}: S3 requests were issued without on_queued having run', **mech, sym='s3-without-queued'))
        if q and first_s3 is not None and q[0]['n'] > first_s3:
            out.append(V(f'{x.label}/{s.name}: on_queued ran after the first S3 request', **mech, sym='on_queued-late'))
        if expect_no_start and (q or first_s3 is not None):
            out.append(V(f'{x.label}/{s.name}: transfer cancelled before start nevertheless ran on_queued / issued requests',
                         **mech, sym='started-after-cancel'))
        if x.outcome is not None and len(dn) != 1 and has_d:
            out.append(V(f'{x.label}/{s.name}: on_done ran {len(dn)} times (outcome {x.outcome})', **mech, sym='on_done-count',
                         count=len(dn)))
        for e in dn:
            if not e.get('future_done'):
                out.append(V(f'{x.label}/{s.name}: future.done() was False inside on_done', **mech, sym='on_done-not-done'))
        if dn:
            d0 = dn[0]['n']
            # requests in flight at on_done entry / beginning later
            for c in obs.world.s3.calls.values():
                if c['label'] != x.label:
                    continue
                b = [e['n'] for e in evs if e['kind'] == 'api.begin' and e.get('call_id') == c['call_id']]
                en = call_end_n(obs, c['call_id'])
                if b and b[0] > d0:
                    out.append(V(f'{x.label}/{s.name}: {c["op"]} began after on_done had begun', **mech, sym='request-after-on_done', op=c['op']))
                elif b and (en is None or en > d0):
                    out.append(V(f'{x.label}/{s.name}: {c["op"]} still in flight when on_done began', **mech, sym='inflight-at-on_done', op=c['op']))
            late_p = [e for e in evs if e['kind'] == 'cb.on_progress' and e['n'] > d0]
            if late_p:
                out.append(V(f'{x.label}/{s.name}: {len(late_p)} on_progress call(s) delivered after on_done began', **mech, sym='progress-after-done'))
            late_fs = [e for e in evs if e['kind'] in ('fs.remove', 'fs.rename', 'fs.write', 'dst.write') and e['n'] > d0]
            if late_fs:
                out.append(V(f'{x.label}/{s.name}: {late_fs[0]["kind"]} happened after on_done began', **mech, sym='fs-after-on_done'))
    # order: the transfer's on_queued callbacks all lie before its first on_done ("in order", "only after the outcome is final")
    dall = [e['n'] for e in evs if e['kind'] == 'cb.on_done']
    if dall:
        d0 = min(dall)
        for e in evs:
            if e['kind'] != 'cb.on_queued':
                continue
            ret = [r['n'] for r in evs if r['kind'] == 'cb.on_queued.ret' and r['sub'] == e['sub'] and r['n'] > e['n']]
            if e['n'] > d0:
                out.append(V(f'{x.label}/{e["sub"]}: on_queued ran after on_done had begun', **mech, sym='on_queued-after-on_done'))
            elif not ret or min(ret) > d0:
                out.append(V(f'{x.label}/{e["sub"]}: on_done began while on_queued was still running', **mech,
                             sym='on_done-during-on_queued'))
    return out


def subs_of(x):
    """The transfer's subscribers as recorders of what was delivered FOR THIS TRANSFER (a subscriber object shared by several
    transfers keeps one recorder per transfer, attributed by the future each callback was given)."""
    return [s.view(x.label) if hasattr(s, 'view') else s for s in (x.subs or ())]


# ------------------------------------------------------------------------ C09
def progress_oracle(obs, x):
    out = []
    mech = base_mech(obs, x)
    size = x.spec.get('size', 0)
    if x.kind == 'delete':
        return out
    for s in subs_of(x):
        if not hasattr(s, 'on_progress'):
            continue
        if x.outcome == 'success':
            tot = sum(s.progress)
            if tot != size:
                out.append(V(f'{x.label}/{s.name}: progress sums to {tot}, transfer size is {size} '
                             f'(values {s.progress[:12]}{"..." if len(s.progress) > 12 else ""})', **mech, sym='sum',
                             over=tot > size))
            if s.sum_min < 0 or s.sum_max > size:
                out.append(V(f'{x.label}/{s.name}: running progress sum left [0,{size}]: min {s.sum_min}, max {s.sum_max}',
                             **mech, sym='range'))
    return out


# ------------------------------------------------------------------------ C07
def expected_cancel_error(spec, how):
    """(exception type, message) a cancelled transfer must report for an entry point.  The message is None where the caller
    gave none (future.cancel(), Ctrl-C): the text the library chooses there is not part of the property."""
    msg = spec.get('cancel_msg', 'bye')
    if how == 'future.cancel' or how == 'kbi_result':
        return CancelledError, None
    if how == 'shutdown_cancel':
        return CancelledError, msg
    if how == 'with_exc':
        from .scenario import with_exc_instance

        e = with_exc_instance(spec, msg)
        return FatalError, (str(e) or repr(e))
    if how in ('with_kbi', 'kbi_shutdown', 'kbi_exit'):
        return CancelledError, None
    raise ValueError(how)


def cancel_oracle(obs, x, how, not_started=False, targeted=True):
    """x was (possibly) unfinished when a cancel through entry point ``how`` began."""
    out = []
    mech = base_mech(obs, x)
    mech['entry'] = how
    cb = [e for e in obs.events if e['kind'] == 'cancel.begin']
    if not cb or x.outcome is None:
        return out
    cn = cb[0]['n']
    rr = [e for e in obs.events if e['kind'] == 'cb.on_done' and e.get('label') == x.label]
    finished_before = bool(rr) and rr[0]['n'] < cn
    counted, mine = counted_faults(obs, x)
    etype, emsg = expected_cancel_error(obs.spec, how)
    if x.outcome == 'raised':
        exc = x.exc
        if isinstance(exc, CancelledError):
            if not targeted:
                out.append(V(f'{x.label}: reports {exc!r} although it was not the cancelled transfer', **mech, sym='collateral-cancel'))
            elif type(exc) is not etype or (emsg is not None and str(exc) != emsg):
                out.append(V(f'{x.label}: cancelled through {how} but result() raised {type(exc).__name__}({str(exc)!r}); '
                             f'expected {etype.__name__}({emsg!r})', **mech, sym='wrong-cancel-error'))
        elif not unwrap_matches(exc, mine):
            out.append(V(f'{x.label}: cancelled through {how} but result() raised {exc!r}, neither the cancellation error nor an '
                         f'injected fault', **mech, sym='foreign-exception'))
        else:
            # a failure may have been recorded before the cancel took effect - but not one that was only raised after the cancel
            # call had returned: by then the cancellation (or an earlier failure) was the recorded outcome
            ce0 = [e['n'] for e in obs.events if e['kind'] == 'cancel.end']
            tags = find_tags(exc)
            matched = [r for r in mine if r['tag'] in tags]
            if targeted and ce0 and matched and all(r['n'] > ce0[0] for r in matched) and not finished_before:
                out.append(V(f'{x.label}: the cancel call ({how}) had returned before {matched[0]["tag"]} was raised at {matched[0]["key"]}, yet '
                             f'result() reports that later failure ({exc!r}) instead of the cancellation', **mech,
                             sym='cancel-replaced-by-later-failure'))
    elif x.outcome == 'success':
        if not_started:
            out.append(V(f'{x.label}: had not started when it was cancelled, yet reported success', **mech, sym='not-started-success'))
        # success is only legitimate if the cancel raced the FINAL step.  The final task decides whether to run right after it
        # starts (or, for CompleteMultipartUpload, later still), so if it was not even started by the request stage when the cancel
        # call returned it must have seen the cancellation: the transfer was "not yet finished" and must report it.
        final_task = None
        if x.kind == 'upload':
            final_task = 'CompleteMultipartUploadTask' if mech['mode'] == 'multipart' else 'PutObjectTask'
        elif x.kind == 'copy':
            final_task = 'CompleteMultipartUploadTask' if mech['mode'] == 'multipart' else 'CopyObjectTask'
        elif x.kind == 'delete':
            final_task = 'DeleteObjectTask'
        ce = [e for e in obs.events if e['kind'] == 'cancel.end']
        if final_task and ce and targeted:
            tid = x.future.meta.transfer_id if x.future is not None else x.idx
            fs = [e['n'] for e in obs.events if e['kind'] == 'exec.start' and e.get('task') == final_task and e.get('tid') == tid]
            if fs and min(fs) > ce[0]['n']:
                out.append(V(f'{x.label}: the cancel call ({how}) had returned before the final task {final_task} was even started, yet the '
                             f'transfer ran on and reported success', **mech, sym='cancel-ineffective'))
    # parts and complete need the upload id: if the cancel call returned while CreateMultipartUpload was still in flight, every
    # dependent task decides after that and must see the cancellation, so no part / complete request may ever begin
    ce = [e for e in obs.events if e['kind'] == 'cancel.end']
    if ce and targeted and x.kind in ('upload', 'copy'):
        cr = [e for e in obs.events if e['kind'] == 'api.ret' and e.get('label') == x.label and e.get('op') == 'CreateMultipartUpload']
        cb0 = [e for e in obs.events if e['kind'] == 'api.begin' and e.get('label') == x.label and e.get('op') == 'CreateMultipartUpload']
        if cr and cb0 and cb0[0]['n'] < ce[0]['n'] < cr[0]['n']:
            dep = [e for e in obs.events if e['kind'] == 'api.begin' and e.get('label') == x.label
                   and e.get('op') in ('UploadPart', 'UploadPartCopy', 'CompleteMultipartUpload')]
            if dep:
                out.append(V(f'{x.label}: the cancel call ({how}) returned while CreateMultipartUpload was still in flight, yet '
                             f'{len(dep)} dependent request(s) ({dep[0]["op"]} ...) were issued afterwards', **mech, sym='dependent-request-after-cancel'))
    # a task of the transfer that STARTS after the cancel call has returned finds the transfer done and must not do its work: no
    # request may come out of it (future.cancel() only: for the other entry points the end of the call is the end of everything)
    if ce and targeted and how == 'future.cancel' and x.future is not None:
        tid = x.future.meta.transfer_id
        starts = [e for e in obs.events if e['kind'] == 'exec.start' and e.get('tid') == tid and e['n'] > ce[0]['n']]
        for st in starts:
            fin = [e['n'] for e in obs.events if e['kind'] == 'exec.finish' and e.get('seq') == st.get('seq') and e.get('stage_of') == st.get('stage_of')
                   and e['n'] > st['n']]
            end_n = min(fin) if fin else 10 ** 12
            reqs = [e for e in obs.events if e['kind'] == 'api.begin' and e.get('label') == x.label and e.get('thread') == st.get('thread')
                    and st['n'] < e['n'] < end_n and e['op'] != 'AbortMultipartUpload']
            if reqs:
                out.append(V(f'{x.label}: task {st.get("task")} was started after the cancel call had returned and still issued {reqs[0]["op"]}',
                             **mech, sym='request-from-task-started-after-cancel', op=reqs[0]['op']))
                break
    # an upload body is read by the transport through the library's stream, which checks for the cancellation on every read: once the
    # cancel call has returned at most the read in flight may still deliver data (only judged where the transport reads the
    # library's object directly, i.e. not through botocore's buffering aws-chunked wrapper)
    if ce and targeted and x.kind == 'upload':
        late = [e for e in obs.events if e['kind'] == 'wire.read' and e.get('label') == x.label and e.get('chunked') is False
                and e['n'] > ce[0]['n'] and e.get('nbytes', 0) > 0]
        by_call = {}
        for e in late:
            by_call.setdefault(e['call_id'], []).append(e)
        worst = max(by_call.values(), key=len, default=[])
        if len(worst) > 1:
            out.append(V(f'{x.label}: {len(worst)} further reads ({sum(e["nbytes"] for e in worst)} bytes) of the body of {worst[0]["key"]} were '
                         f'delivered to the transport after the cancel call ({how}) had returned', **mech, sym='body-sent-after-cancel',
                         bandwidth_limited=bool(getattr(obs.config, 'max_bandwidth', None))))
    # a download notices the cancellation between two chunks of the response body: once the cancel call has returned, at most the
    # read in flight and the one begun right behind a check that had just passed may still be made on a response
    if ce and targeted and x.kind == 'download':
        late = [e for e in obs.events if e['kind'] == 'body.read' and e.get('label') == x.label and e['n'] > ce[0]['n'] and e.get('nbytes', 0) > 0]
        by_call = {}
        for e in late:
            by_call.setdefault(e.get('call_id'), []).append(e)
        worst = max(by_call.values(), key=len, default=[])
        if len(worst) > 2:
            out.append(V(f'{x.label}: {len(worst)} further reads ({sum(e["nbytes"] for e in worst)} bytes) of the response body of {worst[0].get("key")} were '
                         f'made after the cancel call ({how}) had returned', **mech, sym='body-read-after-cancel',
                         bandwidth_limited=bool(getattr(obs.config, 'max_bandwidth', None))))
    if not_started:
        s3 = [e for e in obs.events if e['kind'] == 'api.begin' and e.get('label') == x.label]
        if s3:
            out.append(V(f'{x.label}: had not started when it was cancelled, yet issued {len(s3)} S3 request(s), first '
                         f'{s3[0]["op"]}', **mech, sym='request-after-not-started-cancel'))
        q = [e for e in obs.events if e['kind'] == 'cb.on_queued' and e.get('label') == x.label]
        if q:
            out.append(V(f'{x.label}: had not started when it was cancelled, yet on_queued ran', **mech, sym='queued-after-not-started-cancel'))
        if x.outcome == 'raised' and not isinstance(x.exc, CancelledError):
            out.append(V(f'{x.label}: cancelled before start but reports {x.exc!r}', **mech, sym='not-started-wrong-error'))
    # cleanups
    v5, _ = mpu_oracle(obs, x)
    for v in v5:
        v['mech']['entry'] = how
    out += v5
    v6 = fs_oracle(obs, x) + handles_oracle(obs, x)
    for v in v6:
        v['mech']['entry'] = how
    out += v6
    return out
