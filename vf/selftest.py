"""python -m vf.selftest [pattern]: for every patch in /verif/mutants (and /verif/seeded/*/patch.diff)
apply it to a scratch worktree of /repo HEAD, run the owning property's quick check against it
(VERIF_REPO), and require a VIOLATION (exit 1).  Scratch trees and outputs are removed."""
import glob
import json
import os
import re
import shutil
import subprocess
import sys
import tempfile

from . import VERIF_DIR


def targets(pattern=None):
    out = []
    for p in sorted(glob.glob(os.path.join(VERIF_DIR, 'mutants', '*.patch'))):
        head = open(p).read(400)
        m = re.search(r'# property: (C\d+)', head)
        out.append((os.path.basename(p)[:-6], [m.group(1)] if m else [], p))
    for d in sorted(glob.glob(os.path.join(VERIF_DIR, 'seeded', '*'))):
        meta = os.path.join(d, 'meta.json')
        patch = os.path.join(d, 'patch.diff')
        if os.path.exists(meta) and os.path.exists(patch):
            mj = json.load(open(meta))
            if mj.get('superseded'):
                continue  # no longer a behaviour change on the current tree (see meta.json)
            out.append(('seeded/' + os.path.basename(d), mj.get('detected_by') or [mj['property']], patch))
    if pattern:
        out = [t for t in out if re.search(pattern, t[0])]
    return out


def run_one(name, props, patch, tier='quick'):
    wt = tempfile.mkdtemp(prefix='vf-st-', dir='/tmp')
    outd = tempfile.mkdtemp(prefix='vf-st-out-', dir='/dev/shm' if os.path.isdir('/dev/shm') else None)
    res = {}
    try:
        subprocess.check_call(['git', '-C', '/repo', 'worktree', 'add', '-q', '--detach', wt, 'HEAD'])
        r = subprocess.run(['git', '-C', wt, 'apply', patch], capture_output=True, text=True)
        if r.returncode != 0:
            return {p: 'patch-failed' for p in props}
        env = dict(os.environ, VERIF_REPO=wt, VERIF_EVIDENCE_DIR=os.path.join(outd, 'ev'), VERIF_REPLAY_DIR=os.path.join(outd, 'rp'))
        for p in props:
            r = subprocess.run([sys.executable, '-m', 'vf.check', p, '--tier', tier], cwd=VERIF_DIR, env=env, capture_output=True, text=True,
                               timeout=1800)
            first = [l for l in r.stdout.splitlines() if l.startswith('  ')][:1]
            res[p] = ('CAUGHT' if r.returncode == 1 else ('inconclusive' if r.returncode == 2 else 'MISSED'), first[0][:160] if first else '')
    finally:
        subprocess.call(['git', '-C', '/repo', 'worktree', 'remove', '--force', wt])
        shutil.rmtree(outd, ignore_errors=True)
    return res


def main():
    pattern = sys.argv[1] if len(sys.argv) > 1 else None
    missed = 0
    for name, props, patch in targets(pattern):
        res = run_one(name, props, patch)
        for p, v in res.items():
            status = v if isinstance(v, str) else v[0]
            detail = '' if isinstance(v, str) else v[1]
            print(f'{name:45s} {p} {status} {detail}')
            if status != 'CAUGHT':
                missed += 1
        sys.stdout.flush()
    print(f'missed={missed}')
    sys.exit(1 if missed else 0)


if __name__ == '__main__':
    main()
