"""Observation and fault injection at the level of the operating-system calls themselves (sys.addaudithook): the library binds
some primitives directly (``rename_file = os.rename``), so this is the only place from which "the instant of the rename" can be
seen, and the only place where a rename can be made to fail below every wrapper.  An audit hook cannot be removed, so one hook is
installed per process and dispatches to whatever handlers are registered at the moment."""
import sys
import threading

_lock = threading.Lock()
_handlers = []
_installed = False
EVENTS = ('os.rename', 'os.remove', 'open')


def _hook(event, args):
    if event not in EVENTS or not _handlers:
        return
    for h in list(_handlers):
        h(event, args)


def register(handler):
    global _installed
    with _lock:
        if not _installed:
            sys.addaudithook(_hook)
            _installed = True
        _handlers.append(handler)


def unregister(handler):
    with _lock:
        if handler in _handlers:
            _handlers.remove(handler)
