"""Shared scenario generators."""
import random

KINDS = [
    ('upload', {'src': 'path'}), ('upload', {'src': 'seekable'}), ('upload', {'src': 'nonseekable'}),
    ('download', {'dst': 'path'}), ('download', {'dst': 'seekable'}), ('download', {'dst': 'nonseekable'}),
    ('download', {'dst': 'fifo'}), ('copy', {}), ('delete', {}),
]

LIMIT_NAMES = ['max_request_concurrency', 'max_submission_concurrency', 'max_request_queue_size',
               'max_submission_queue_size', 'max_io_queue_size', 'max_in_memory_upload_chunks',
               'max_in_memory_download_chunks']


def small_limits(rng, hi=3):
    return {k: rng.randint(1, hi) for k in LIMIT_NAMES}


def one_transfer(rng, T=16, C=8, kinds=None, sizes=None):
    kind, extra = rng.choice(kinds or KINDS)
    size = rng.choice(sizes or [0, 1, C - 1, T - 1, T, T + 1, 2 * C + 3, 4 * C, 5 * C + 1])
    t = {'kind': kind, 'size': size}
    t.update(extra)
    if kind == 'upload' and t['src'] == 'seekable':
        t['start'] = rng.choice([0, 0, 5])
        t['flavor'] = rng.choice(['declared', 'declared', 'duck', 'fileno', 'seek_none', 'seek_arg'])
    if kind == 'upload' and t['src'] == 'nonseekable':
        t['flavor'] = rng.choice(['bare', 'bare', 'declared', 'raising'])
    if kind == 'download' and t['dst'] == 'path':
        t['preexisting'] = rng.random() < 0.3
        if t['preexisting'] and rng.random() < 0.3:
            t['symlink'] = True  # the destination name is a symbolic link to the existing ordinary file
    if ((kind == 'upload' and t.get('src') == 'path') or (kind == 'download' and t.get('dst') == 'fifo')) and rng.random() < 0.2:
        t['symlink'] = True  # the path given to the library is a symbolic link to the file / FIFO
    if kind != 'delete' and rng.random() < 0.12:
        # the size supplied by a subscriber in on_queued instead of being discovered by the library
        t['subs'] = [{'provide_size': size}]
    return t


def mix(rng, n, T=16, C=8, io=4, hi=3, kinds=None, sizes=None, attempts=2):
    cfg = dict(multipart_threshold=T, multipart_chunksize=C, io_chunksize=io, num_download_attempts=attempts)
    cfg.update(small_limits(rng, hi))
    if rng.random() < 0.12:
        cfg['max_bandwidth'] = 10 ** 12  # a generous limit: every body is wrapped by the limiter, nothing is ever throttled
    spec = {
        'seed': rng.randrange(1 << 30),
        'min_part': C,
        'config': cfg,
        'transfers': [one_transfer(rng, T, C, kinds, sizes) for _ in range(n)],
        'plan': {'delay_p': rng.choice([0.0, 0.1, 0.4])},
    }
    if rng.random() < 0.25:
        # endpoint / checksum flavours of the client (plain http: botocore reads upload bodies before sending them)
        spec['client'] = {'checksum': rng.choice(['when_supported', 'when_required']), 'scheme': rng.choice(['https', 'http'])}
    if n > 1 and rng.random() < 0.15:
        spec['concurrent_submit'] = True  # every manager call from its own user thread
    if rng.random() < 0.1:
        spec['debug_log'] = True  # the package's loggers at DEBUG
    return spec


def sprinkle(cases, seed, p_bw=0.12, p_log=0.08, p_prior=0.08, p_version=0.12):
    """Orthogonal configuration dimensions for end-to-end cases written without them (transfer-manager front-end only): a generous
    bandwidth limit (every body is then wrapped by the limiter, nothing is ever throttled) and the package's loggers at DEBUG with a
    formatting handler, and a client with a history (a legacy S3Transfer / an earlier manager already used on it).  A separate generator
    keeps the cases themselves unchanged."""
    r = random.Random(seed * 7919 + 13)
    for c in cases:
        if not isinstance(c, dict) or c.get('front_end', 'manager') != 'manager' or 'transfers' not in c or c.get('type'):
            continue
        cfg = c.setdefault('config', {})
        a, b = r.random(), r.random()
        if a < p_bw and 'max_bandwidth' not in cfg and not c.get('real'):
            cfg['max_bandwidth'] = 10 ** 12
        if b < p_log and 'debug_log' not in c and not c.get('real'):
            c['debug_log'] = True
        if r.random() < p_prior and 'prior_use' not in c and not c.get('real'):
            c['prior_use'] = r.choice(['legacy', 'manager', 'overlap'])
        ts_ = [t for t in c['transfers'] if isinstance(t, dict)]
        if len(ts_) >= 2 and len(ts_) == len(c['transfers']) and not any('subs' in t or 'share_subs_with' in t for t in ts_) and not c.get('real') \
                and r.random() < 0.08:
            # ONE subscriber object for all the transfers of the manager
            ts_[0]['subs'] = [{'flavor': 'shared'}]
            for t in ts_[1:]:
                t['share_subs_with'] = 0
        for t in c['transfers']:
            # subscriber classes whose callbacks are inherited / come from a mixin
            if isinstance(t, dict) and 'subs' not in t and r.random() < 0.06:
                t['subs'] = [{'flavor': r.choice(['inherited', 'mixin', 'falsy'])}]
            # a destination stream whose write() takes all the data but returns something other than its length
            if isinstance(t, dict) and t.get('kind') == 'download' and t.get('dst') in ('seekable', 'nonseekable') and 'write_ret' not in t \
                    and r.random() < 0.2:
                t['write_ret'] = r.choice(['none', 'half', 'zero', 'true'])
            # an existing destination that is a symbolic link to an ordinary file
            if isinstance(t, dict) and t.get('kind') == 'download' and t.get('dst') == 'path' and t.get('preexisting') and 'symlink' not in t \
                    and t.get('same_dest_as') is None and r.random() < 0.25:
                t['symlink'] = True
            # the file is named relative to the working directory ('name' / './name') instead of by an absolute path
            if isinstance(t, dict) and ((t.get('kind') == 'upload' and t.get('src') == 'path') or (t.get('kind') == 'download' and t.get('dst') == 'path')) \
                    and 'relative' not in t and not t.get('dst_is_dir') and not c.get('real') and r.random() < 0.12:
                t['relative'] = r.choice([True, 'dot'])
            # a destination stream that declares itself non-seekable although seek() / tell() exist
            if isinstance(t, dict) and t.get('kind') == 'download' and t.get('dst') == 'nonseekable' and 'flavor' not in t and r.random() < 0.3:
                t['flavor'] = 'declared'
            # an OLDER version of the object is asked for (VersionId in the copy source / in the download's extra arguments)
            # while the key's current version holds other data
            if isinstance(t, dict) and t.get('kind') in ('copy', 'download') and 'versioned' not in t and not c.get('real') \
                    and 'same_dest_as' not in t and r.random() < p_version:
                t['versioned'] = True
    return cases
