"""python -m vf.replay <replay.json>: re-run one recorded case in-process."""
import importlib
import json
import sys


def main():
    path = sys.argv[1]
    with open(path) as f:
        rec = json.load(f)
    import vf

    vf.check_repo_import()
    from vf.events import jsonable

    mod = importlib.import_module(rec['module'])
    res = mod.run_case(rec['case'])
    res.pop('fatal', None)
    print(json.dumps(jsonable(res), indent=1, default=repr))
    if res.get('verdict') == 'violated':
        print(f'VIOLATION property={rec["property"]} replay={path}')
        sys.exit(1)
    sys.exit(0)


if __name__ == '__main__':
    main()
