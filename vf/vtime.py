"""Virtual-time simulator for the bandwidth limiter.

Real LeakyBucket / BandwidthLimitedStream objects, one real thread per stream,
a baton so that exactly one stream thread runs at a time, and a virtual
TimeUtils: time() returns the virtual clock (advancing by eps per call in the
default profile, not at all in the coarse profile, where it is additionally
quantised to ``tick``); sleep(d) parks the caller until virtual time reaches
now + d + lateness.  The scheduler advances virtual time to the earliest
wake-up whenever the running thread parks."""
import random
import threading


class Sim:
    def __init__(self, seed=0, eps=1e-9, tick=None, lateness=None):
        self.now = 0.0
        self.eps = eps
        self.tick = tick
        self.rng = random.Random(seed)
        self.lateness = lateness or (lambda rng: 0.0)
        self.lock = threading.Lock()
        self.cond = threading.Condition(self.lock)
        self.wake = {}  # name -> wake time (threads that are parked)
        self.current = None
        self.done = set()
        self.sleeps = []  # (name, t_request, duration requested, actual wake)
        self.names = set()
        self.time_calls = 0
        self.yield_p = 0.0
        self.yield_until = float('inf')
        self.yield_delays = [0.0]
        self.yields = 0

    # -- TimeUtils interface ---------------------------------------------------
    def time(self):
        with self.lock:
            self.time_calls += 1
            self.now += self.eps
            v = int(self.now / self.tick) * self.tick if self.tick else self.now
            do_yield = (self.yield_p and threading.current_thread().name in self.names and self.now < self.yield_until
                        and self.rng.random() < self.yield_p)
            delay = self.rng.choice(self.yield_delays) if do_yield else 0.0
        if do_yield:
            # a preemption right after the clock was read: other streams may run (and read later times) before the caller
            # uses the value it holds
            self.yields += 1
            self.park(self.now + delay)
        return v

    def sleep(self, d):
        name = threading.current_thread().name
        with self.lock:
            t0 = self.now
            wake = t0 + max(0.0, d) + self.lateness(self.rng)
            self.sleeps.append([name, t0, d, None])
            idx = len(self.sleeps) - 1
        self.park(wake)
        with self.lock:
            self.sleeps[idx][3] = self.now

    # -- baton -------------------------------------------------------------------
    def park(self, wake):
        """Current thread parks until ``wake``; hands the baton on."""
        name = threading.current_thread().name
        with self.cond:
            self.wake[name] = wake
            self._dispatch()
            while self.current != name:
                self.cond.wait()

    def finish(self):
        name = threading.current_thread().name
        with self.cond:
            self.done.add(name)
            self.wake.pop(name, None)
            self._dispatch()

    def _dispatch(self):
        if not self.wake:
            self.current = None
            self.cond.notify_all()
            return
        tmin = min(self.wake.values())
        cands = sorted(n for n, t in self.wake.items() if t == tmin)
        nxt = cands[0] if len(cands) == 1 else self.rng.choice(cands)
        self.now = max(self.now, self.wake.pop(nxt))
        self.current = nxt
        self.cond.notify_all()

    def run(self, bodies, join_timeout=60.0):
        """bodies: dict name -> (start_time, callable).  Returns True if all finished."""
        threads = []

        def wrap(name, start, fn):
            def run():
                with self.cond:
                    while self.current != name:
                        self.cond.wait()
                try:
                    fn()
                finally:
                    self.finish()
            return run

        with self.cond:
            for name, (start, fn) in bodies.items():
                self.wake[name] = start
                self.names.add(name)
        for name, (start, fn) in bodies.items():
            t = threading.Thread(target=wrap(name, start, fn), name=name, daemon=True)
            threads.append(t)
            t.start()
        with self.cond:
            self._dispatch()
        for t in threads:
            t.join(join_timeout)
        return not any(t.is_alive() for t in threads)


class SimLock:
    """Lock for baton-scheduled threads: a contended acquire parks the caller (giving up the baton) until the holder
    releases the lock, which makes the waiters runnable again at the current virtual time."""

    def __init__(self, sim):
        self.sim = sim
        self.owner = None
        self.waiters = []

    def acquire(self, blocking=True, timeout=-1):
        me = threading.current_thread().name
        while self.owner is not None and self.owner != me:
            if me not in self.sim.names:
                import time as _t

                _t.sleep(0.0001)
                continue
            self.waiters.append(me)
            self.sim.park(float('inf'))
        self.owner = me
        return True

    def release(self):
        self.owner = None
        with self.sim.cond:
            for w in self.waiters:
                if w in self.sim.wake:
                    self.sim.wake[w] = self.sim.now
            self.waiters = []

    def __enter__(self):
        self.acquire()
        return self

    def __exit__(self, *a):
        self.release()
