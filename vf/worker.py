"""Worker subprocess: runs a shard of cases of one property module."""
import faulthandler
import importlib
import json
import os
import signal
import sys
import traceback


def main():
    modname, cases_path, out_path = sys.argv[1:4]
    faulthandler.enable()
    signal.signal(signal.SIGINT, signal.default_int_handler)
    import vf

    vf.check_repo_import()
    from vf.events import jsonable

    mod = importlib.import_module(modname)
    with open(cases_path) as f:
        items = json.load(f)
    out = open(out_path, 'a')

    def emit(rec):
        out.write(json.dumps(rec, default=repr) + '\n')
        out.flush()

    for it in items:
        emit({'start': it['idx']})
        vf.CURRENT = {'idx': it['idx'], 'emit': emit, 'out': out}
        try:
            res = mod.run_case(it['case'])
        except BaseException as e:  # noqa - harness failure = inconclusive, never a verdict
            res = {'verdict': 'inconclusive', 'key': None, 'violations': [], 'stats': {'harness_error': 1},
                   'summary': {'harness_error': repr(e), 'tb': traceback.format_exc()[-1500:]}}
        fatal = bool(res.pop('fatal', False)) if isinstance(res, dict) else False
        emit({'idx': it['idx'], 'result': jsonable(res)})
        if fatal:
            out.close()
            os._exit(3)
    out.close()
    os._exit(0)


if __name__ == '__main__':
    main()
