"""python -m vf.neutraltest [patch-regex] [PROP ...]: the counterpart of vf.selftest.

Every patch in /verif/neutral is a change to boto/s3transfer under which all twenty properties still hold (moved lines,
renamed private attributes, other defaults, another temporary-name format, equivalent system calls, library-chosen texts...).
Each is applied to a scratch worktree of /repo HEAD and every property's quick check is run against it (VERIF_REPO); a check
that exits 1 / prints VIOLATION there raises a FALSE ALARM.  Exit 2 (inconclusive: the harness could not reach its monitors on
the changed code) is reported but is not an alarm.  Scratch trees and outputs are removed."""
import glob
import os
import re
import shutil
import subprocess
import sys
import tempfile

from . import VERIF_DIR

PROPS = [f'C{i:02d}' for i in range(1, 21)]


def main():
    args = sys.argv[1:]
    props = [a for a in args if re.fullmatch(r'C\d\d', a)] or PROPS
    pats = [a for a in args if not re.fullmatch(r'C\d\d', a)]
    patches = sorted(glob.glob(os.path.join(VERIF_DIR, 'neutral', '*.patch')))
    if pats:
        patches = [p for p in patches if re.search(pats[0], os.path.basename(p))]
    tier = os.environ.get('NEUTRAL_TIER', 'quick')
    alarms = incon = 0
    for patch in patches:
        name = os.path.basename(patch)[:-6]
        wt = tempfile.mkdtemp(prefix='vf-nt-', dir='/tmp')
        outd = tempfile.mkdtemp(prefix='vf-nt-out-', dir='/dev/shm' if os.path.isdir('/dev/shm') else None)
        try:
            subprocess.check_call(['git', '-C', '/repo', 'worktree', 'add', '-q', '--detach', wt, 'HEAD'])
            r = subprocess.run(['git', '-C', wt, 'apply', patch], capture_output=True, text=True)
            if r.returncode != 0:
                print(f'{name:40s} patch-failed {r.stderr[:200]}')
                continue
            env = dict(os.environ, VERIF_REPO=wt, VERIF_EVIDENCE_DIR=os.path.join(outd, 'ev'), VERIF_REPLAY_DIR=os.path.join(outd, 'rp'))
            for p in props:
                r = subprocess.run([sys.executable, '-m', 'vf.check', p, '--tier', tier], cwd=VERIF_DIR, env=env, capture_output=True,
                                   text=True, timeout=3600)
                summ = [l for l in r.stdout.splitlines() if l.startswith(p + ' tier=')]
                det = [l for l in r.stdout.splitlines() if l.startswith('  ') or 'VIOLATION' in l or 'INCONCLUSIVE' in l][:3]
                status = {0: 'quiet', 1: 'FALSE-ALARM', 2: 'inconclusive'}.get(r.returncode, f'exit={r.returncode}')
                if r.returncode == 1 or 'VIOLATION' in r.stdout:
                    alarms += 1
                    status = 'FALSE-ALARM'
                elif r.returncode != 0:
                    incon += 1
                print(f'{name:40s} {p} {status:13s} {(summ[0][len(p) + 1:] if summ else r.stderr[-300:])[:150]}')
                if status != 'quiet':
                    for l in det:
                        print('      ' + l[:300])
                sys.stdout.flush()
        finally:
            subprocess.call(['git', '-C', '/repo', 'worktree', 'remove', '--force', wt])
            shutil.rmtree(outd, ignore_errors=True)
    print(f'false_alarms={alarms} inconclusive={incon}')
    sys.exit(1 if alarms else 0)


if __name__ == '__main__':
    main()
