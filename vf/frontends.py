"""Other front-ends of the package driven against the same fake world:
legacy ``S3Transfer`` and the process-pool downloader replayed in-process."""
import os
import queue
import tempfile
import threading
import time

import s3transfer
from s3transfer import processpool as pp

from . import scenario, watchdog
from .io import HookedOSUtils
from .scenario import BUCKET, Observation, World, Xfer, dest_path, scratch_root
from .fakes3 import payload


class LegacyHookedOSUtils(s3transfer.OSUtils):
    """Legacy OSUtils with the same logging/fault hooks as HookedOSUtils."""

    def __init__(self, world, labels):
        self._h = HookedOSUtils(world, labels)
        self.w = world

    def get_file_size(self, filename):
        return self._h.get_file_size(filename)

    def open(self, filename, mode):
        return self._h.open(filename, mode)

    def remove_file(self, filename):
        return self._h.remove_file(filename)

    def rename_file(self, a, b):
        return self._h.rename_file(a, b)

    def open_file_chunk_reader(self, filename, start_byte, size, callback):
        return s3transfer.ReadFileChunk.from_filename(filename, start_byte, size, callback, enable_callback=False)


def _base_obs(spec):
    obs = Observation()
    obs.spec = spec
    w = World(spec)
    obs.world = w
    obs.tmpdir = tempfile.mkdtemp(prefix='vf-', dir=scratch_root())
    ccfg = spec.get('client', {})
    obs.client = w.s3.make_client(ccfg.get('checksum', 'when_supported'), ccfg.get('scheme', 'https'))
    obs.hang = None
    obs.stacks = None
    obs.cancel_events = []
    obs.gate = None
    gate = (spec.get('plan') or {}).get('gate')
    if gate:
        from .director import GateController

        obs.gate = GateController(w.director, gate)
        obs.gate.start()
    return obs


class _Cfg:
    pass


def _finish(obs):
    if obs.gate is not None:
        obs.gate.stop_flag = True
    obs.world.director.stop()
    for th in getattr(getattr(obs, 'monitor', None), 'late_threads', None) or ():
        th.join(2.0)
    obs.events = obs.world.log.snapshot()
    return obs


def _await_call(obs, fn, what):
    w = obs.world
    ob = watchdog.Obligation(fn, name=what).start()
    r = watchdog.await_or_deadlock(ob.done.is_set, w.director, w.log, wall_timeout=obs.spec.get('wall_timeout', 30.0))
    if r != 'done':
        obs.hang = r
        obs.hang_what = what
        obs.stacks = watchdog.all_stacks()
        return None
    return ob


def run_legacy(spec):
    """spec['transfers'] = one {'kind': 'download'|'upload', 'size', ...};
    spec['config'] = legacy TransferConfig kwargs."""
    obs = _base_obs(spec)
    w = obs.world
    cfg = s3transfer.TransferConfig(**spec.get('config', {}))
    c = _Cfg()
    c.multipart_threshold = cfg.multipart_threshold
    c.multipart_chunksize = cfg.multipart_chunksize
    c.num_download_attempts = cfg.num_download_attempts
    c.io_chunksize = None
    obs.config = c
    xfers = [Xfer(i, t) for i, t in enumerate(spec['transfers'])]
    obs.xfers = xfers
    labels = {}
    osu = LegacyHookedOSUtils(w, labels)
    obs.osutil = osu._h
    transfer = s3transfer.S3Transfer(obs.client, cfg, osu)
    obs.progress = {}
    calls = []
    for x in xfers:
        t = x.spec
        x.data = payload(spec.get('seed', 0) * 1000 + x.idx, t.get('size', 0))
        w.s3.labels[(BUCKET, x.key)] = x.label
        prog = []
        obs.progress[x.label] = prog

        def cb(n, prog=prog):
            prog.append(n)

        extra = dict(t.get('extra_args') or {})
        if x.kind == 'download':
            w.s3.objects[(BUCKET, x.key)] = x.data
            path = dest_path(obs.tmpdir, x)
            labels[path] = x.label
            if t.get('dst_is_dir'):
                scenario.make_dir_destination(path)
            elif t.get('preexisting'):
                x.prev = b'previous-content-' + str(x.idx).encode()
                with open(path, 'wb') as f:
                    f.write(x.prev)
            x.dest = path
            fn = lambda x=x, path=path, extra=extra, cb=cb: transfer.download_file(BUCKET, x.key, path, extra_args=extra or None, callback=cb)
        else:
            path = os.path.join(obs.tmpdir, f'src-{x.idx}')
            with open(path, 'wb') as f:
                f.write(x.data)
            labels[path] = x.label
            x.src = path
            fn = lambda x=x, path=path, extra=extra, cb=cb: transfer.upload_file(path, BUCKET, x.key, callback=cb, extra_args=extra or None)
        if spec.get('dirwatch'):
            from .oracles import DirWatch

            obs.dirwatch = DirWatch(obs)
            w.director.hooks.append(obs.dirwatch.hook)
        else:
            obs.dirwatch = None
        if spec.get('concurrent'):
            calls.append((x, fn))
            continue
        ob = _await_call(obs, fn, f'legacy-{x.kind}')
        if ob is None:
            break
        if ob.exc is not None:
            x.outcome, x.exc = 'raised', ob.exc
        else:
            x.outcome = 'success'
        w.log.add('result.ret', label=x.label, outcome=x.outcome)
    if calls:
        # one S3Transfer object used from several threads at once: every call runs on its own thread
        obls = [(x, watchdog.Obligation(fn, name=f'legacy-{x.kind}-{x.label}').start()) for x, fn in calls]
        r = watchdog.await_or_deadlock(lambda: all(o.done.is_set() for _, o in obls), w.director, w.log,
                                       wall_timeout=obs.spec.get('wall_timeout', 30.0))
        if r != 'done':
            obs.hang = r
            obs.hang_what = 'legacy-concurrent'
            obs.stacks = watchdog.all_stacks()
        else:
            for x, ob in obls:
                if ob.exc is not None:
                    x.outcome, x.exc = 'raised', ob.exc
                else:
                    x.outcome = 'success'
                w.log.add('result.ret', label=x.label, outcome=x.outcome)
    return _finish(obs)


# ---------------------------------------------------------------- process pool
class LoggingMonitor(pp.TransferMonitor):
    """TransferMonitor that logs every notification (the cross-process
    protocol as seen by the shared monitor)."""

    def __init__(self, world):
        super().__init__()
        self.w = world

    def notify_expected_jobs_to_complete(self, transfer_id, num_jobs):
        self.w.log.add('pp.expected', label=f't{transfer_id}', jobs=num_jobs)
        return super().notify_expected_jobs_to_complete(transfer_id, num_jobs)

    def notify_job_complete(self, transfer_id):
        self.w.director.point(self.w.director.occurrence(f't{transfer_id}/pp:job_complete'), 'before')
        # (logged before the call as well: the 'pp.job_complete' event below is written after the count was taken and may
        # therefore reach the log later than another worker's done notification)
        self.w.log.add('pp.job_complete.begin', label=f't{transfer_id}')
        r = super().notify_job_complete(transfer_id)
        self.w.log.add('pp.job_complete', label=f't{transfer_id}', remaining=r)
        return r

    def notify_exception(self, transfer_id, exception):
        self.w.log.add('pp.exception', label=f't{transfer_id}', exc=repr(exception))
        r = super().notify_exception(transfer_id, exception)
        self._late_result(transfer_id)
        return r

    def _late_result(self, transfer_id):
        """A caller that asks for the result only NOW - after a failure / cancellation was recorded, while jobs of the download may
        still be in flight: what it is told must not come before the download is done."""
        obs = getattr(self, 'obs', None)
        if obs is None or transfer_id >= len(obs.xfers) or obs.xfers[transfer_id].future is None:
            return
        started = self.__dict__.setdefault('_late_started', set())
        if transfer_id in started:
            return
        started.add(transfer_id)
        x = obs.xfers[transfer_id]

        self._waiting_result(x, 'pp.late_result')

    def _waiting_result(self, x, kind):
        transfer_id = x.future.meta.transfer_id

        def late():
            try:
                x.future.result()
                outcome = 'success'
            except BaseException as e:  # noqa
                outcome = 'raised'
            ret = self.w.log.add('pp.result_returned', label=x.label, outcome=outcome)  # (first thing after the call came back)
            from .scenario import temp_leftovers

            done, jobs_left, _ = self._peek(transfer_id)
            if done is not None:
                self.w.log.add(kind, label=x.label, outcome=outcome, done=done, jobs_left=jobs_left,
                               temps=temp_leftovers(x.dest) if getattr(x, 'dest', None) else [])

        th = threading.Thread(target=late, name=f'vf-res-{kind.replace(".", "-")}-{x.label}', daemon=True)
        self.__dict__.setdefault('late_threads', []).append(th)
        th.start()

    def notify_done(self, transfer_id):
        self.w.director.point(self.w.director.occurrence(f't{transfer_id}/pp:notify_done'), 'before')
        snap = {}
        obs = getattr(self, 'obs', None)
        if obs is not None and transfer_id < len(obs.xfers):
            x = obs.xfers[transfer_id]
            import os as _os
            from .scenario import temp_leftovers

            snap['temps'] = temp_leftovers(x.dest)
            try:
                with open(x.dest, 'rb') as f:
                    cur = f.read()
            except FileNotFoundError:
                cur = None
            except OSError:
                cur = b'\0<not a regular file>'  # e.g. the destination name is a directory (it must simply still be one)
            if os.path.isdir(x.dest):
                snap['dest'] = 'dir'
            else:
                snap['dest'] = 'absent' if cur is None else ('complete' if cur == x.data else ('prev' if cur == x.prev else 'partial'))
        _, jobs_left, exc = self._peek(transfer_id)
        self.w.log.add('pp.done', label=f't{transfer_id}', jobs_left=jobs_left, exception=repr(exc) if exc else None, **snap)
        return super().notify_done(transfer_id)

    def _peek(self, transfer_id):
        """(done, jobs still to complete, stored exception) as far as the harness can see them.  done / exception come through
        the monitor's own methods; the job counter only exists in its private state table - when that cannot be read the harness
        is blind (recorded: the run is inconclusive), and the library must not be disturbed by it."""
        try:
            done = bool(pp.TransferMonitor.is_done(self, transfer_id))
            exc = pp.TransferMonitor.get_exception(self, transfer_id)
        except Exception as e:  # noqa
            self.w.s3.harness_errors.append(f'LoggingMonitor: {e!r}')
            return None, None, None
        try:
            jobs_left = self._transfer_states[transfer_id].jobs_to_complete
        except Exception as e:  # noqa
            self.w.s3.harness_errors.append(f'LoggingMonitor cannot read the job counter: {e!r}')
            jobs_left = None
        return done, jobs_left, exc

    def get_exception(self, transfer_id):
        self.w.director.point(self.w.director.occurrence(f't{transfer_id}/pp:get_exception'), 'before')
        return super().get_exception(transfer_id)

    def notify_cancel_all_in_progress(self):
        # which downloads had been notified done when the Ctrl-C exit cancelled "all in progress"
        obs = getattr(self, 'obs', None)
        tids = [x.future.meta.transfer_id for x in (obs.xfers if obs is not None else ()) if x.future is not None]
        r = super().notify_cancel_all_in_progress()
        # (read AFTER the library's own pass over the states: a download still not done now was not done when that pass looked at it
        # either, so it has been cancelled; one that finished while the pass was under way is rightly left alone)
        done_before = sorted(tid for tid in tids if self._peek(tid)[0])
        self.w.log.add('pp.cancel_all', done_before=done_before)
        for tid in tids:
            if tid not in done_before:
                self._late_result(tid)
        return r


class PPOSUtils(HookedOSUtils):
    def allocate(self, filename, size):
        d = self.w.director
        label = self._label(filename)
        key = d.occurrence(f'{label}/fs:allocate')
        f = d.point(key, 'before')
        if f is not None:
            from .io import raise_for

            raise_for(f, d, key, 'before', oserr=True)
        r = super().allocate(filename, size)
        self.w.log.add('fs.allocate', label=label, path=filename, size=size)
        return r


def run_procpool(spec):
    """In-process replay of the process-pool protocol: the real
    GetObjectSubmitter / GetObjectWorker loops run as threads over queue.Queue
    with a plain (logging) TransferMonitor and the fake client."""
    obs = _base_obs(spec)
    w = obs.world
    cfgd = spec.get('config', {})
    tcfg = pp.ProcessTransferConfig(
        multipart_threshold=cfgd.get('multipart_threshold', 8 * 1024 * 1024),
        multipart_chunksize=cfgd.get('multipart_chunksize', 8 * 1024 * 1024),
        max_request_processes=cfgd.get('workers', 2),
    )
    c = _Cfg()
    c.multipart_threshold = tcfg.multipart_threshold
    c.multipart_chunksize = tcfg.multipart_chunksize
    c.num_download_attempts = pp.GetObjectWorker._MAX_ATTEMPTS
    obs.config = c
    monitor = LoggingMonitor(w)
    obs.monitor = monitor
    labels = {}
    osu = PPOSUtils(w, labels)
    obs.osutil = osu
    obs.xfers = []
    monitor.obs = obs
    dq = queue.Queue(1000)
    wq = queue.Queue(1000)

    class CF:
        def create_client(self_inner):
            return obs.client

    old_chunk = pp.GetObjectWorker._IO_CHUNKSIZE
    if 'io_chunksize' in cfgd:
        pp.GetObjectWorker._IO_CHUNKSIZE = cfgd['io_chunksize']
    submitter = pp.GetObjectSubmitter(tcfg, CF(), monitor, osu, dq, wq)
    submitter._client = obs.client
    workers = []
    for _ in range(tcfg.max_request_processes):
        wk = pp.GetObjectWorker(wq, CF(), monitor, osu)
        wk._client = obs.client
        workers.append(wk)
    threads = [threading.Thread(target=submitter._do_run, name='vf-pp-submitter', daemon=True)]
    for i, wk in enumerate(workers):
        threads.append(threading.Thread(target=wk._do_run, name=f'vf-pp-worker{i}', daemon=True))
    for t in threads:
        t.start()
    xfers = [Xfer(i, t) for i, t in enumerate(spec['transfers'])]
    obs.xfers = xfers
    obs.done_polls = []
    try:
        if spec.get('dirwatch'):
            from .oracles import DirWatch

            obs.dirwatch = DirWatch(obs)
            w.director.hooks.append(obs.dirwatch.hook)
        else:
            obs.dirwatch = None
        for x in xfers:
            t = x.spec
            x.data = payload(spec.get('seed', 0) * 1000 + x.idx, t.get('size', 0))
            w.s3.labels[(BUCKET, x.key)] = x.label
            w.s3.objects[(BUCKET, x.key)] = x.data
            path = dest_path(obs.tmpdir, x)
            labels[path] = x.label
            if t.get('dst_is_dir'):
                scenario.make_dir_destination(path)
            elif t.get('preexisting'):
                x.prev = b'previous-content-' + str(x.idx).encode()
                with open(path, 'wb') as f:
                    f.write(x.prev)
            x.dest = path
            tid = monitor.notify_new_transfer()
            assert tid == x.idx
            meta = pp.ProcessPoolTransferMeta(call_args=None, transfer_id=tid)
            x.future = pp.ProcessPoolTransferFuture(monitor=monitor, meta=meta)
            # the done-observer: records the state of the world the moment done() first turns true
            dq.put(pp.DownloadFileRequest(transfer_id=tid, bucket=BUCKET, key=x.key, filename=path,
                                          extra_args=dict(t.get('extra_args') or {}),
                                          expected_size=t.get('expected_size')))
        cp = (spec.get('plan') or {}).get('cancel')

        def do_cancel(cpl):
            ev = w.log.add('cancel.begin', how=cpl.get('how', 'future.cancel'), target=cpl.get('target', 0))
            obs.cancel_events.append(ev)
            if cpl.get('how') == 'cancel_all':
                monitor.notify_cancel_all_in_progress()
            else:
                xfers[cpl.get('target', 0)].future.cancel()
            w.log.add('cancel.end')

        w.director.on_cancel_point = do_cancel
        if cp and cp.get('at') == '@after_submit':
            do_cancel(cp)

        obl = []
        for x in xfers:
            o = watchdog.Obligation(lambda x=x: scenario._collect(x, w.log), name=f'result-{x.label}').start()
            x.result_ob = o
            obl.append(o)
        r = watchdog.await_or_deadlock(lambda: all(o.done.is_set() for o in obl), w.director, w.log,
                                       wall_timeout=spec.get('wall_timeout', 30.0))
        scenario._record_outcomes(xfers)
        if r != 'done':
            obs.hang = r
            obs.hang_what = 'pp-result'
            obs.stacks = watchdog.all_stacks()
        else:
            # shutdown protocol
            dq.put(pp.SHUTDOWN_SIGNAL)
            for _ in workers:
                wq.put(pp.SHUTDOWN_SIGNAL)
            r = watchdog.await_or_deadlock(lambda: not any(t.is_alive() for t in threads), w.director, w.log,
                                           wall_timeout=spec.get('wall_timeout', 30.0))
            if r != 'done':
                obs.hang = r
                obs.hang_what = 'pp-shutdown'
                obs.stacks = watchdog.all_stacks()
    finally:
        pp.GetObjectWorker._IO_CHUNKSIZE = old_chunk
    return _finish(obs)


# ------------------------------------------------- real ProcessPoolDownloader, thread-backed
class _FakeManager:
    def shutdown(self):
        pass


def _thread_backed(proc, client, name):
    """Make a (not started) BaseS3TransferProcess run its _do_run loop in a thread."""
    proc._client = client
    th = threading.Thread(target=proc._do_run, name=name, daemon=True)
    proc.start = th.start
    proc.join = th.join
    proc._vf_thread = th
    return proc


def make_inproc_downloader(world, client, osu, tcfg, monitor):
    class InProcDownloader(pp.ProcessPoolDownloader):
        """The real ProcessPoolDownloader (download_file / shutdown / __exit__ code paths) with
        its submitter and workers running as threads over queue.Queue and an in-process monitor."""

        def _start_transfer_monitor_manager(self):
            self._manager = _FakeManager()
            self._transfer_monitor = monitor

        def _start_submitter(self):
            self._submitter = _thread_backed(pp.GetObjectSubmitter(
                transfer_config=self._transfer_config, client_factory=self._client_factory, transfer_monitor=self._transfer_monitor,
                osutil=self._osutil, download_request_queue=self._download_request_queue, worker_queue=self._worker_queue),
                client, 'vf-pp-submitter')
            self._submitter.start()

        def _start_get_object_workers(self):
            for i in range(self._transfer_config.max_request_processes):
                wk = _thread_backed(pp.GetObjectWorker(queue=self._worker_queue, client_factory=self._client_factory,
                                                       transfer_monitor=self._transfer_monitor, osutil=self._osutil),
                                    client, f'vf-pp-worker{i}')
                wk.start()
                self._workers.append(wk)

    d = InProcDownloader(config=tcfg)
    d._download_request_queue = queue.Queue(1000)
    d._worker_queue = queue.Queue(1000)
    d._osutil = osu
    return d


def run_procpool_full(spec):
    """Like run_procpool but through the real ProcessPoolDownloader object:
    spec['exit'] in {'shutdown', 'with', 'with_kbi'}; futures' result() is collected
    after the exit returned (it must not block then)."""
    obs = _base_obs(spec)
    w = obs.world
    cfgd = spec.get('config', {})
    tcfg = pp.ProcessTransferConfig(multipart_threshold=cfgd.get('multipart_threshold', 16), multipart_chunksize=cfgd.get('multipart_chunksize', 8),
                                    max_request_processes=cfgd.get('workers', 2))
    c = _Cfg()
    c.multipart_threshold = tcfg.multipart_threshold
    c.multipart_chunksize = tcfg.multipart_chunksize
    c.num_download_attempts = pp.GetObjectWorker._MAX_ATTEMPTS
    obs.config = c
    monitor = LoggingMonitor(w)
    obs.monitor = monitor
    labels = {}
    osu = PPOSUtils(w, labels)
    obs.osutil = osu
    old_chunk = pp.GetObjectWorker._IO_CHUNKSIZE
    if 'io_chunksize' in cfgd:
        pp.GetObjectWorker._IO_CHUNKSIZE = cfgd['io_chunksize']
    xfers = [Xfer(i, t) for i, t in enumerate(spec['transfers'])]
    obs.xfers = xfers
    obs.dirwatch = None
    obs.exit_exc = None
    obs.done_at_exit = {}
    monitor.obs = obs
    try:
        if spec.get('dirwatch'):
            from .oracles import DirWatch

            obs.dirwatch = DirWatch(obs)
            w.director.hooks.append(obs.dirwatch.hook)
        for x in xfers:
            t = x.spec
            x.data = payload(spec.get('seed', 0) * 1000 + x.idx, t.get('size', 0))
            w.s3.labels[(BUCKET, x.key)] = x.label
            w.s3.objects[(BUCKET, x.key)] = x.data
            path = dest_path(obs.tmpdir, x)
            labels[path] = x.label
            if t.get('dst_is_dir'):
                scenario.make_dir_destination(path)
            elif t.get('preexisting'):
                x.prev = b'previous-content-' + str(x.idx).encode()
                with open(path, 'wb') as f:
                    f.write(x.prev)
            x.dest = path
        dl = make_inproc_downloader(w, obs.client, osu, tcfg, monitor)
        obs.downloader = dl
        cp = (spec.get('plan') or {}).get('cancel')

        def do_cancel(cpl):
            ev = w.log.add('cancel.begin', how=cpl.get('how', 'future.cancel'), target=cpl.get('target', 0))
            obs.cancel_events.append(ev)
            fx = xfers[cpl.get('target', 0)]
            if fx.future is not None:
                fx.future.cancel()
            w.log.add('cancel.end')

        w.director.on_cancel_point = do_cancel
        mode = spec.get('exit', 'shutdown')

        def session():
            def submit_one(x):
                t = x.spec
                w.log.add('submit.begin', label=x.label)
                try:
                    x.future = dl.download_file(BUCKET, x.key, x.dest, extra_args=dict(t.get('extra_args') or {}) or None,
                                                expected_size=t.get('expected_size'))
                except Exception as e:  # noqa - rejected at call time (e.g. an argument outside the allow-list)
                    x.submit_exc = e
                    w.log.add('submit.end', label=x.label, error=repr(e))
                    return
                w.log.add('submit.end', label=x.label)
                # a caller that waits in result() from the very start (the exit below returns only after the downloads are done)
                monitor._waiting_result(x, 'pp.early_result')

            def submit_all():
                if spec.get('concurrent_submit'):
                    # one downloader used from several threads: every download_file call on its own thread
                    ths = [threading.Thread(target=submit_one, args=(x,), name=f'vf-pp-submit-{x.label}', daemon=True) for x in xfers]
                    for th in ths:
                        th.start()
                    for th in ths:
                        th.join(20)
                else:
                    for x in xfers:
                        submit_one(x)
                if cp and cp.get('at') == '@after_submit':
                    do_cancel(cp)
            if mode == 'shutdown':
                submit_all()
                w.log.add('shutdown.begin')
                dl.shutdown()
            elif mode == 'with':
                with dl:
                    submit_all()
                    w.log.add('shutdown.begin')
            elif mode == 'with_kbi':
                try:
                    with dl:
                        submit_all()
                        for k in spec.get('kbi_after_done', ()):
                            # Ctrl-C arrives when these downloads have finished and the others have not
                            xfers[k].future.result()
                        ev = w.log.add('cancel.begin', how='with_kbi')
                        obs.cancel_events.append(ev)
                        w.director.cancel_began = True
                        w.log.add('shutdown.begin')
                        raise KeyboardInterrupt()
                except KeyboardInterrupt:
                    pass
            obs.done_at_exit = {x.label: (x.future.done() if x.future is not None else None) for x in xfers}
            w.log.add('shutdown.end')

        ob = _await_call(obs, session, 'pp-session')
        if ob is not None:
            obs.exit_exc = ob.exc
            obl = []
            for x in xfers:
                if x.future is None:
                    continue
                o = watchdog.Obligation(lambda x=x: scenario._collect(x, w.log), name=f'result-{x.label}').start()
                x.result_ob = o
                obl.append(o)
            r = watchdog.await_or_deadlock(lambda: all(o.done.is_set() for o in obl), w.director, w.log,
                                           wall_timeout=spec.get('wall_timeout', 30.0))
            scenario._record_outcomes(xfers)
            if r != 'done':
                obs.hang = r
                obs.hang_what = 'pp-result-after-exit'
                obs.stacks = watchdog.all_stacks()
            scenario._settle(w, budget=6.0)
            obs.live_threads = [t.name for t in threading.enumerate() if t.name.startswith('vf-pp-') and t.is_alive()]
    finally:
        pp.GetObjectWorker._IO_CHUNKSIZE = old_chunk
    return _finish(obs)
