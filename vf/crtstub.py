"""Stub ``awscrt`` package so that s3transfer.crt can be imported and its
Python glue exercised without the (absent) native library.  The stub client
honours the documented callback contract: on_progress/on_body any number of
times, then on_done(error=...) exactly once, then finished_future resolves."""
import concurrent.futures
import enum
import sys
import threading
import types


def install():
    """Put the stub into sys.modules (botocore must be imported first so that it
    keeps its own CRT features off) and return the s3transfer.crt module."""
    import botocore  # noqa: F401  (must come first)
    import botocore.session  # noqa: F401

    if 'awscrt' in sys.modules and not getattr(sys.modules['awscrt'], '_vf_stub', False):
        raise RuntimeError('a real awscrt is installed; the stub is not needed')
    if 'awscrt' not in sys.modules:
        pkg = types.ModuleType('awscrt')
        pkg.__version__ = '0.0.0'
        pkg._vf_stub = True
        pkg.__path__ = []
        http = types.ModuleType('awscrt.http')
        s3 = types.ModuleType('awscrt.s3')
        auth = types.ModuleType('awscrt.auth')
        io_ = types.ModuleType('awscrt.io')

        class HttpHeaders:
            def __init__(self, pairs=None):
                self._h = list(pairs or [])

            def get(self, name):
                for k, v in self._h:
                    if k.lower() == name.lower():
                        return v
                return None

            def set(self, name, value):
                self.remove(name)
                self._h.append((name, value))

            def add(self, name, value):
                self._h.append((name, value))

            def remove(self, name):
                self._h = [(k, v) for k, v in self._h if k.lower() != name.lower()]

        class HttpRequest:
            def __init__(self, method='GET', path='/', headers=None, body_stream=None):
                self.method, self.path, self.headers, self.body_stream = method, path, headers or HttpHeaders(), body_stream

        http.HttpHeaders, http.HttpRequest = HttpHeaders, HttpRequest

        class S3RequestType(enum.Enum):
            DEFAULT = 0
            GET_OBJECT = 1
            PUT_OBJECT = 2

        class S3RequestTlsMode(enum.Enum):
            ENABLED = 0
            DISABLED = 1

        class S3ChecksumAlgorithm(enum.Enum):
            CRC32C = 1
            CRC32 = 2
            SHA1 = 3
            SHA256 = 4
            CRC64NVME = 5

        class S3ChecksumLocation(enum.Enum):
            HEADER = 1
            TRAILER = 2

        class S3ChecksumConfig:
            def __init__(self, algorithm=None, location=None, validate_response=False):
                self.algorithm, self.location, self.validate_response = algorithm, location, validate_response

        class S3ResponseError(Exception):
            def __init__(self, code=0, name='', message='', status_code=500, headers=None, body=b'', operation_name=None):
                super().__init__(message)
                self.status_code, self.headers, self.body, self.operation_name = status_code, headers or [], body, operation_name

        class CrossProcessLock:
            def __init__(self, name):
                self.name = name

            def acquire(self):
                pass

        class S3Client:
            def __init__(self, **kw):
                self.kw = kw

        s3.S3RequestType, s3.S3RequestTlsMode, s3.S3ChecksumAlgorithm = S3RequestType, S3RequestTlsMode, S3ChecksumAlgorithm
        s3.S3ChecksumLocation, s3.S3ChecksumConfig, s3.S3ResponseError = S3ChecksumLocation, S3ChecksumConfig, S3ResponseError
        s3.CrossProcessLock, s3.S3Client = CrossProcessLock, S3Client
        s3.get_recommended_throughput_target_gbps = lambda: None

        class _Any:
            def __init__(self, *a, **k):
                pass

            @classmethod
            def new_delegate(cls, *a, **k):
                return cls()

        class AwsSigningAlgorithm(enum.Enum):
            V4 = 0
            V4_ASYMMETRIC = 1
            V4_S3EXPRESS = 2

        auth.AwsCredentials = _Any
        auth.AwsCredentialsProvider = _Any
        auth.AwsSigningAlgorithm = AwsSigningAlgorithm
        auth.AwsSigningConfig = _Any
        for n in ('ClientBootstrap', 'ClientTlsContext', 'DefaultHostResolver', 'EventLoopGroup', 'TlsContextOptions'):
            setattr(io_, n, _Any)
        pkg.http, pkg.s3, pkg.auth, pkg.io = http, s3, auth, io_
        sys.modules.update({'awscrt': pkg, 'awscrt.http': http, 'awscrt.s3': s3, 'awscrt.auth': auth, 'awscrt.io': io_})
    import s3transfer.crt as crt

    return crt


class StubRequest:
    def __init__(self, client, idx, kwargs):
        self.client = client
        self.idx = idx
        self.kwargs = kwargs
        self.finished_future = concurrent.futures.Future()
        self.cancelled = False
        self.completed = False
        self.lock = threading.Lock()

    def cancel(self):
        self.client.log.add('crt.cancel', idx=self.idx)
        with self.lock:
            self.cancelled = True
        self.client.on_cancel(self)


class StubCRTClient:
    """make_request() records the request; the harness later completes requests
    (from 'CRT threads') in the order it chooses."""

    def __init__(self, log, tls, fail_make=()):
        self.log = log
        self.tls = tls
        self.requests = []
        self.fail_make = set(fail_make)
        self.lock = threading.Lock()
        self.cancel_hook = None
        self.n_make = 0

    def make_request(self, **kwargs):
        idx = getattr(self.tls, 'submitting', None)
        with self.lock:
            self.n_make += 1
        if idx in self.fail_make:
            self.log.add('crt.make_request.fail', idx=idx)
            raise RuntimeError(f'vf-make-request-failure-{idx}')
        r = StubRequest(self, idx, kwargs)
        with self.lock:
            self.requests.append(r)
        self.log.add('crt.make_request', idx=idx, type=str(kwargs.get('type')), recv_filepath=kwargs.get('recv_filepath'))
        hook = getattr(self, 'inline_hook', None)
        if hook is not None:
            res = hook(r)
            if res is not None:
                # the request finishes - its whole done chain runs, on this very thread - BEFORE make_request() has returned
                # (a tiny object, an immediate error): a legal completion order for the CRT
                self.complete(r, *res)
        return r

    def on_cancel(self, req):
        if self.cancel_hook:
            self.cancel_hook(req)

    def complete(self, req, outcome, data=b''):
        """Deliver the completion of one request on the calling thread."""
        with req.lock:
            if req.completed:
                return False
            req.completed = True
        self.tls.completing = req.idx
        kw = req.kwargs
        err = None
        try:
            if outcome == 'ok' and not req.cancelled:
                if kw.get('recv_filepath'):
                    with open(kw['recv_filepath'], 'wb') as f:
                        f.write(data)
                elif kw.get('on_body') is not None and data:
                    kw['on_body'](chunk=data, offset=0)
                if kw.get('on_progress') is not None and data:
                    kw['on_progress'](len(data))
            else:
                if kw.get('recv_filepath') and not getattr(req, 'no_partial_file', False):
                    # the CRT may have created / partially written the file before failing (or it may have failed before it
                    # created anything: then there is no temporary file to remove)
                    with open(kw['recv_filepath'], 'wb') as f:
                        f.write(data[: len(data) // 2])
                err = RuntimeError(f'vf-crt-{"cancelled" if req.cancelled else "error"}-{req.idx}')
            self.log.add('crt.on_done.begin', idx=req.idx, error=repr(err) if err else None)
            try:
                kw['on_done'](error=err)
                cb_exc = None
            except BaseException as e:  # noqa  the real CRT logs and swallows exceptions from callbacks
                cb_exc = e
            self.log.add('crt.on_done.end', idx=req.idx, callback_exc=repr(cb_exc) if cb_exc else None)
        finally:
            self.tls.completing = None
        if err is None:
            req.finished_future.set_result(None)
        else:
            req.finished_future.set_exception(err)
        return True
