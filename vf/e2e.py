"""Glue between scenarios, oracles and the runner's result format."""
import hashlib
import json

from . import oracles, scenario
from .events import jsonable, trim


def interleaving_sig(obs):
    seq = [(e['kind'], e.get('key') or e.get('label')) for e in obs.events
           if e['kind'] in ('s3.begin', 's3.end', 'dst.write', 'fs.write', 'cb.on_done', 'cancel.begin', 'fault')]
    return hashlib.sha1(json.dumps(seq).encode()).hexdigest()[:12]


def shape_of(spec):
    """Scenario shape without sizes' random content: used for distinct-case keys."""
    ts = []
    for t in spec['transfers']:
        ts.append((t['kind'], t.get('src'), t.get('dst'), t.get('size'), t.get('start'), bool(t.get('preexisting'))))
    plan = spec.get('plan') or {}
    faults = tuple((f['at'], f.get('phase', 'before'), f['kind'], f.get('bytes')) for f in plan.get('faults', ()))
    cancel = plan.get('cancel')
    c = (cancel.get('at'), cancel.get('phase'), cancel.get('how')) if cancel else None
    return json.dumps([ts, sorted((spec.get('config') or {}).items()), sorted((spec.get('client') or {}).items()),
                       faults, c, spec.get('mode'), spec.get('front_end'), spec.get('min_part'), spec.get('body_read_sizes'), spec.get('get_read_caps')],
                      default=repr)


def hang_result(obs, prop_is_liveness=False):
    return {
        'verdict': 'violated' if prop_is_liveness and obs.hang == 'deadlock' else 'inconclusive',
        'key': None,
        'violations': [],
        'stats': {'hang_' + str(obs.hang): 1},
        'summary': {'hang': obs.hang, 'what': getattr(obs, 'hang_what', None),
                    'stacks': obs.stacks, 'tail': [trim(e) for e in obs.events[-25:]] if hasattr(obs, 'events') else None,
                    # exceptions that escaped a task of a stage (e.g. a hand-over refused by a full stage)
                    'escaped': [trim(e) for e in obs.events if e.get('kind') == 'exec.finish' and e.get('escaped')][:5] if hasattr(obs, 'events') else []},
        'fatal': True,
    }


class debug_logging:
    """The package's loggers at DEBUG for the duration (what `aws --debug` / boto3.set_stream_logger do)."""

    def __init__(self, on):
        self.on = on

    def __enter__(self):
        if self.on:
            import logging

            self.lg = logging.getLogger('s3transfer')
            self.old = self.lg.level
            class Formatting(logging.Handler):
                """Formats every record (as a stream / file / monitoring handler would) and throws the text away."""

                def emit(self, record):
                    self.format(record)

                def handleError(self, record):  # an exception while formatting is the library's, let it be seen
                    raise

            self.h = Formatting()
            self.lg.addHandler(self.h)
            self.lg.setLevel(logging.DEBUG)

    def __exit__(self, *a):
        if self.on:
            self.lg.setLevel(self.old)
            self.lg.removeHandler(self.h)


def run_any(spec):
    with debug_logging(spec.get('debug_log')):
        return _run_any(spec)


def _run_any(spec):
    fe = spec.get('front_end', 'manager')
    if fe == 'manager':
        return scenario.run(spec)
    from . import frontends

    inj = None
    ycfg = spec.get('yield')
    if ycfg:
        # line-level yield injection / one pause window for the other front-ends (legacy: s3transfer/__init__.py; process pool:
        # processpool.py)
        from . import yieldinj

        w = ycfg.get('window')
        wins = [{'file': w['file'], 'line': w['lineno'], 'nth': w.get('nth', 0), 'action': 'pause', 'name': w.get('name'),
                 'wait': w.get('wait', 0.2), 'rmw': bool(w.get('rmw'))}] if w else ()
        inj = yieldinj.Injector(p=ycfg.get('p', 0.0), seed=spec.get('seed', 0), windows=wins,
                                files=ycfg.get('files') or (['__init__.py'] if fe == 'legacy' else ['processpool.py'])).install()
    try:
        if fe == 'procpool_full':
            obs = frontends.run_procpool_full(spec)  # the real ProcessPoolDownloader object over in-process workers
        else:
            obs = frontends.run_legacy(spec) if fe == 'legacy' else frontends.run_procpool(spec)
    finally:
        if inj is not None:
            inj.uninstall()
    obs.injector = inj
    return obs


def run_with(spec, evaluate, liveness=False):
    """Run a scenario, evaluate oracles, clean up, build a result dict.

    ``evaluate(obs) -> (violations, stats, nontrivial: bool, summary)``
    """
    obs = run_any(spec)
    try:
        if obs.hang is not None:
            if not hasattr(obs, 'events'):
                obs.events = obs.world.log.snapshot()
            if callable(liveness):
                liveness = bool(liveness(obs))  # decided from what was observed (e.g. only once a cancel had been issued)
            r = hang_result(obs, liveness)
            if liveness and obs.hang == 'deadlock':
                r['violations'] = [oracles.V(
                    f'deadlock: process quiescent with unfinished obligation "{obs.hang_what}"; blocked in: '
                    f'{json.dumps(lib_frames(obs.stacks))[:900]}',
                    **deadlock_mech(obs))]
            return r
        if obs.world.s3.harness_errors:
            return {'verdict': 'inconclusive', 'key': None, 'violations': [], 'stats': {'harness_error': 1},
                    'summary': {'harness_errors': obs.world.s3.harness_errors[:3]}}
        viol, stats, nontrivial, summary = evaluate(obs)
        sig = interleaving_sig(obs)
        key = None
        if nontrivial:
            key = hashlib.sha1((shape_of(spec) + sig).encode()).hexdigest()[:16]
        stats = dict(stats or {})
        stats['events'] = len(obs.events)
        stats['director_points'] = obs.world.director.points
        stats['faults_raised'] = len(obs.world.director.raised)
        res = {
            'verdict': 'violated' if viol else 'held',
            'key': key,
            'violations': viol,
            'stats': stats,
            'summary': summary,
        }
        if viol:
            res['trace'] = [trim(e) for e in obs.events[:400]]
        return res
    finally:
        if obs.hang is None:
            scenario.cleanup(obs)


def lib_frames(stacks):
    out = {}
    for name, st in (stacks or {}).items():
        lib = [line.split('/s3transfer/')[1] for line in st if '/s3transfer/' in line]
        if lib:
            out[name] = lib[-5:]
    return out


def deadlock_mech(obs):
    """Mechanism fields of a deadlock witness: which library frames are blocked
    and which re-entrant subscriber call (if any) never returned."""
    mech = {'sym': 'deadlock', 'blocked_call': getattr(obs, 'hang_what', None)}
    under_cancel = False
    for name, st in (obs.stacks or {}).items():
        lib = [line for line in st if '/s3transfer/' in line]
        names = [line.rsplit(' ', 1)[-1] for line in lib]
        if 'cancel' in names and 'announce_done' in names and names.index('cancel') < names.index('announce_done'):
            under_cancel = True
    mech['announce_under_cancel_lock'] = under_cancel
    pending = None
    evs = getattr(obs, 'events', None) or obs.world.log.snapshot()
    open_calls = {}
    for e in evs:
        if e['kind'] == 'cb.reenter':
            open_calls[(e['label'], e['sub'], e['where'], e['act'])] = e
        elif e['kind'] == 'cb.reenter.ret':
            open_calls.pop((e['label'], e['sub'], e['where'], e['act']), None)
    if open_calls:
        k = sorted(open_calls)[0]
        mech['reenter_where'] = k[2]
        mech['reenter_act'] = k[3]
    else:
        mech['reenter_where'] = None
        mech['reenter_act'] = None
    return mech


def default_outcomes(obs):
    return {x.label: scenario.describe_outcome(x) for x in obs.xfers}
