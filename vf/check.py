"""Entry point: python -m vf.check C01 --tier quick|thorough"""
import argparse
import importlib
import os
import sys


def main():
    ap = argparse.ArgumentParser()
    ap.add_argument('prop')
    ap.add_argument('--tier', default=os.environ.get('VERIF_TIER', 'quick'))
    ap.add_argument('--seed', type=int, default=int(os.environ.get('VERIF_SEED', '0')))
    a = ap.parse_args()
    os.environ.setdefault('PYTHONHASHSEED', '0')
    import vf

    vf.check_repo_import()
    from vf import runner

    mod = importlib.import_module(f'vf.props.{a.prop.lower()}')
    rc = runner.run_check(mod, a.tier, a.seed)
    sys.exit(rc)


if __name__ == '__main__':
    main()
