#!/bin/bash
# Usage: tools/verify_seed.sh <seed dir name, e.g. C06-a>   (expects /tmp/seeds/<name> worktree and /tmp/seeds/<name>.out/{patch.diff,demo.py})
# Confirms independently: the worktree diff equals patch.diff; repo tests pass with the change; demo fails with and passes without it.
n="$1"; wt=/tmp/seeds/$n; out=/tmp/seeds/$n.out
cd "$wt" || exit 9
git checkout -q -- . ; git apply "$out/patch.diff" || { echo "PATCH DOES NOT APPLY"; exit 9; }
echo "--- files changed:"; git diff --stat | tail -3
echo "--- tests with change:"; PYTHONPATH=$wt timeout 900 /venv/bin/python -m pytest -q -p no:cacheprovider tests/unit tests/functional 2>&1 | grep -E "passed|failed|error" | tail -1
echo "--- demo WITH change:"; (cd $out && PYTHONPATH=$wt timeout 180 /venv/bin/python demo.py >/tmp/seeds/$n.with.log 2>&1; echo "exit=$?"); tail -3 /tmp/seeds/$n.with.log
git apply -R "$out/patch.diff"
echo "--- demo WITHOUT change:"; (cd $out && PYTHONPATH=$wt timeout 180 /venv/bin/python demo.py >/tmp/seeds/$n.without.log 2>&1; echo "exit=$?"); tail -2 /tmp/seeds/$n.without.log
git apply "$out/patch.diff"
