# Table read by tools/gen_manifest.py (exec'd): HOOKS, ENGINES, NOTES, chk(...) calls.

HOOKS = {
    'guard': 'S3TRANSFER_VERIF',
    'enable': 'no source hooks exist: every monitor attaches at a boundary the library already exposes '
              '(botocore events, osutil=, executor_cls=, time_utils=, subscribers, user file objects); the guard '
              'name is reserved and unused',
    'baseline_off_cmd': 'cd /repo && /venv/bin/python -m pytest -ra -q -p no:cacheprovider --timeout=900 '
                        '--continue-on-collection-errors',
    'source_commits': [],
    'add_only': True,
}

ENGINES = [
    {'name': 'world', 'path': 'vf/fakes3.py vf/io.py vf/scenario.py', 'serves_properties': [],
     'kind_free_text': 'wire-level fake S3 behind a real botocore client + hooked OSUtils/streams/subscribers/executors; shared event log'},
    {'name': 'director', 'path': 'vf/director.py', 'serves_properties': [],
     'kind_free_text': 'fault / delay / park (gate) / cancel injection at boundary events; quiescence-driven gate controller'},
    {'name': 'watchdog', 'path': 'vf/watchdog.py', 'serves_properties': [],
     'kind_free_text': '/proc-based quiescence detector and logical deadlock verdict'},
    {'name': 'runner', 'path': 'vf/runner.py vf/worker.py vf/check.py vf/replay.py', 'serves_properties': [],
     'kind_free_text': 'shards cases over 16 worker subprocesses, classifies against known_findings.json, writes evidence/replays'},
]

NOTES = ('Technique family: runtime monitoring. Every check runs the real code from /repo (imported from the working '
         'tree) under generated workloads, injected faults/delays and steered schedules, with oracles over the recorded '
         'event log. Exit 0 held / 1 VIOLATION / 2 INCONCLUSIVE (monitors observed too little). See DESIGN.md.')

chk('C01', 'exploration',
    'Held on every explored execution: ~1000 (quick) / ~3000 (thorough) real TransferManager uploads and copies over all '
    'source kinds, boundary sizes, small limit settings, both checksum modes and schemes, forced body rewinds and gated '
    'part-completion orders, each compared byte-for-byte and part-by-part against a fake S3 that validates ETags and '
    'checksums like S3. Exploration is the right level: the quantifier is over inputs x configurations x schedules and '
    'this family samples/steers schedules rather than enumerating them.',
    'Trusts the fake S3 to mirror S3 where the library depends on it; minimum part size is scaled down except in the '
    'real-constant family; schedules sampled by delays and request-boundary gates.',
    'end-to-end content oracle over fake-S3 object table and multipart log', '4 C01', 'world,director,runner')
