# Table read by tools/gen_manifest.py (exec'd): HOOKS, ENGINES, NOTES, chk(...) calls.

HOOKS = {
    'guard': 'S3TRANSFER_VERIF',
    'enable': 'no source hooks exist: every monitor attaches at a boundary the library already exposes '
              '(botocore events, osutil=, executor_cls=, time_utils=, subscribers, user file objects); the guard '
              'name is reserved and unused',
    'baseline_off_cmd': 'cd /repo && /venv/bin/python -m pytest -ra -q -p no:cacheprovider --timeout=900 '
                        '--continue-on-collection-errors',
    'source_commits': [],
    'add_only': True,
}

ENGINES = [
    {'name': 'world', 'path': 'vf/fakes3.py vf/io.py vf/scenario.py', 'serves_properties': [],
     'kind_free_text': 'wire-level fake S3 behind a real botocore client + hooked OSUtils/streams/subscribers/executors; shared event log'},
    {'name': 'director', 'path': 'vf/director.py', 'serves_properties': [],
     'kind_free_text': 'fault / delay / park (gate) / cancel injection at boundary events; quiescence-driven gate controller'},
    {'name': 'watchdog', 'path': 'vf/watchdog.py', 'serves_properties': [],
     'kind_free_text': '/proc-based quiescence detector and logical deadlock verdict'},
    {'name': 'runner', 'path': 'vf/runner.py vf/worker.py vf/check.py vf/replay.py', 'serves_properties': [],
     'kind_free_text': 'shards cases over 16 worker subprocesses, classifies against known_findings.json, writes evidence/replays'},
]

NOTES = ('Technique family: runtime monitoring. Every check runs the real code from /repo (imported from the working '
         'tree) under generated workloads, injected faults/delays and steered schedules, with oracles over the recorded '
         'event log. Exit 0 held / 1 VIOLATION / 2 INCONCLUSIVE (monitors observed too little). See DESIGN.md.')

chk('C01', 'exploration',
    'Held on every explored execution: ~1000 (quick) / ~3000 (thorough) real TransferManager uploads and copies over all '
    'source kinds, boundary sizes, small limit settings, both checksum modes and schemes, forced body rewinds and gated '
    'part-completion orders, each compared byte-for-byte and part-by-part against a fake S3 that validates ETags and '
    'checksums like S3. Exploration is the right level: the quantifier is over inputs x configurations x schedules and '
    'this family samples/steers schedules rather than enumerating them.',
    'Trusts the fake S3 to mirror S3 where the library depends on it; minimum part size is scaled down except in the '
    'real-constant family; schedules sampled by delays and request-boundary gates.',
    'end-to-end content oracle over fake-S3 object table and multipart log', '4 C01', 'world,director,runner')

chk('C02', 'fault_enumeration',
    'Per range every sequence of fewer than num_download_attempts retryable stream faults (5 kinds) at boundary byte positions, '
    'with short reads whose chunk boundaries differ between attempts and gated part orders, across transfer manager (4 '
    'destination kinds), legacy download_file and the process-pool worker loop; destination bytes compared with the object.',
    'Fault positions/kinds are enumerated on small objects; schedules are sampled. Fake response bodies raise the urllib3/socket '
    'exceptions botocore translates.', 'end-to-end content oracle under enumerated stream faults', '4 C02', 'world,director,runner')
chk('C03', 'fault_enumeration',
    'A dry run lists every boundary event of each transfer type/mode; one run per (event, before/mid/after effect, fault kind), '
    'retry-budget exhaustion per range, and (thorough) fault pairs; result() is compared with the log of faults actually raised.',
    'Fault kinds are Exception subclasses; abort/cleanup/on_done faults excluded as the statement does.',
    'outcome oracle over the raised-fault log', '4 C03', 'world,director,runner')
chk('C04', 'exploration',
    'Every run must return from result()/cancel()/shutdown() before a /proc-based quiescence detector finds all threads asleep '
    'with obligations outstanding (logical deadlock verdict with stack witness). Families: small-limit lattice, 2-4 contending '
    'transfers with gates, cancel-before-start, named race windows, re-entrant subscribers, line-level yield-injection stress.',
    'No scheduler owns CPython thread switching: interleavings are randomized and steered, not enumerated to a preemption bound; '
    'unbounded liveness restated as never-quiescent-while-unfinished.',
    'quiescence-based deadlock detection on real threads', '4 C04', 'world,director,watchdog,yieldinj,runner')
chk('C05', 'fault_enumeration',
    'Per multipart upload id delivered to the library the fake S3 begin/end log is checked after one run per fault position and '
    'per cancel point (uploads x 3 source kinds, copies, legacy uploader): completed once xor aborted before done; no request '
    'after abort; abort only after all other requests returned.',
    'Crash points are in-process faults; killed processes are out of scope.', 'per-upload protocol oracle over fake-S3 call log',
    '4 C05', 'world,director,runner')
chk('C06', 'fault_enumeration',
    'Destination directory and the bytes under the destination name are inspected at every boundary event of every thread and at '
    'the end, for one run per fault in open/write/close/rename/request/body and per cancel point, through manager, legacy and '
    'process-pool (in-process) front-ends.',
    'All file-system effects pass through hooked OSUtils/file wrappers; below-syscall tearing not observable.',
    'directory-state monitor at every boundary event', '4 C06', 'world,director,runner')
chk('C07', 'fault_enumeration',
    'Cancel at every boundary event (before/after its effect) x entry points (future.cancel from event/user thread, '
    'shutdown(cancel=True,msg), with-block exception, with-block KeyboardInterrupt), plus behaviourally established '
    'cancel-before-start, cancel-after-done and race windows of the final task; result() type+message, no requests for '
    'not-started transfers, cleanup oracles.',
    'A cancel racing the final step may yield success iff the effect is complete.', 'cancel-point enumeration with outcome and cleanup oracles',
    '4 C07', 'world,director,watchdog,yieldinj,runner')
