# Table read by tools/gen_manifest.py (exec'd): HOOKS, ENGINES, NOTES, chk(...) calls.

HOOKS = {
    'guard': 'S3TRANSFER_VERIF',
    'enable': 'no source hooks exist: every monitor attaches at a boundary the library already exposes '
              '(botocore events, osutil=, executor_cls=, time_utils=, subscribers, user file objects); the guard '
              'name is reserved and unused',
    'baseline_off_cmd': 'cd /repo && /venv/bin/python -m pytest -ra -q -p no:cacheprovider --timeout=900 '
                        '--continue-on-collection-errors',
    'source_commits': [],
    'add_only': True,
}

ENGINES = [
    {'name': 'world', 'path': 'vf/fakes3.py vf/io.py vf/scenario.py', 'serves_properties': [],
     'kind_free_text': 'wire-level fake S3 behind a real botocore client + hooked OSUtils/streams/subscribers/executors; shared event log'},
    {'name': 'director', 'path': 'vf/director.py', 'serves_properties': [],
     'kind_free_text': 'fault / delay / park (gate) / cancel injection at boundary events; quiescence-driven gate controller'},
    {'name': 'watchdog', 'path': 'vf/watchdog.py', 'serves_properties': [],
     'kind_free_text': '/proc-based quiescence detector and logical deadlock verdict'},
    {'name': 'yieldinj', 'path': 'vf/yieldinj.py', 'serves_properties': [],
     'kind_free_text': 'sys.monitoring LINE / INSTRUCTION-event yield injection and race-window steering on s3transfer code objects only'},
    {'name': 'windows', 'path': 'vf/windows.py vf/yieldinj.py', 'serves_properties': ['C02', 'C04', 'C07', 'C08', 'C16', 'C17', 'C19', 'C20'],
     'kind_free_text': 'one-preemption sweeps: a thread is held at a statement line (LINE events) or INSIDE a read-modify-write '
                       'statement between its load and its store (INSTRUCTION events) until every other thread has run as far as it can'},
    {'name': 'lockset', 'path': 'vf/lockset.py', 'serves_properties': ['C10', 'C11', 'C12', 'C13', 'C17'],
     'kind_free_text': 'Eraser-style single-lock discipline monitor on the shared fields of the semaphores, the coordinator and the '
                       'bandwidth scheduler (writes and reads checked against the owner of the object\'s own lock)'},
    {'name': 'oshook', 'path': 'vf/oshook.py', 'serves_properties': ['C03', 'C06', 'C19'],
     'kind_free_text': 'sys.addaudithook observer of open / os.rename / os.remove on watched destinations: directory snapshots at every '
                       'file-system step, and failpoints for system calls made below the OSUtils wrapper'},
    {'name': 'model', 'path': 'vf/props/c12.py vf/props/c16.py vf/props/c17.py', 'serves_properties': ['C12', 'C16', 'C17'],
     'kind_free_text': 'reference models written from the statements, compared with the real classes over the reachable state graph'},
    {'name': 'vtime', 'path': 'vf/vtime.py', 'serves_properties': ['C13'],
     'kind_free_text': 'baton-scheduled virtual-time simulator around the real LeakyBucket / BandwidthLimitedStream'},
    {'name': 'procpool', 'path': 'vf/frontends.py', 'serves_properties': ['C02', 'C06', 'C14', 'C15', 'C19'],
     'kind_free_text': 'legacy S3Transfer and thread-backed real ProcessPoolDownloader front-ends on the same fake world'},
    {'name': 'crtstub', 'path': 'vf/crtstub.py', 'serves_properties': ['C20'],
     'kind_free_text': 'stub awscrt package + scriptable CRT client'},
    {'name': 'runner', 'path': 'vf/runner.py vf/worker.py vf/check.py vf/replay.py', 'serves_properties': [],
     'kind_free_text': 'shards cases over 16 worker subprocesses, classifies against known_findings.json, writes evidence/replays'},
]

NOTES = ('Technique family: runtime monitoring. Every check runs the real code from /repo (imported from the working '
         'tree) under generated workloads, injected faults/delays and steered schedules, with oracles over the recorded '
         'event log. Exit 0 held / 1 VIOLATION / 2 INCONCLUSIVE (monitors observed too little). See DESIGN.md.')

chk('C01', 'exploration',
    'Held on every explored execution: ~1000 (quick) / ~3000 (thorough) real TransferManager uploads and copies over all '
    'source kinds, boundary sizes, small limit settings, both checksum modes and schemes, forced body rewinds and gated '
    'part-completion orders, each compared byte-for-byte and part-by-part against a fake S3 that validates ETags and '
    'checksums like S3. Exploration is the right level: the quantifier is over inputs x configurations x schedules and '
    'this family samples/steers schedules rather than enumerating them.',
    'Trusts the fake S3 to mirror S3 where the library depends on it; minimum part size is scaled down except in the '
    'real-constant family; schedules sampled by delays and request-boundary gates.',
    'end-to-end content oracle over fake-S3 object table and multipart log', '4 C01', 'world,director,runner')

chk('C02', 'fault_enumeration',
    'Per range every sequence of fewer than num_download_attempts retryable stream faults (5 kinds) at boundary byte positions, '
    'with short reads whose chunk boundaries differ between attempts and gated part orders, across transfer manager (4 '
    'destination kinds), legacy download_file and the process-pool worker loop; destination bytes compared with the object.',
    'Fault positions/kinds are enumerated on small objects; schedules are sampled. Fake response bodies raise the urllib3/socket '
    'exceptions botocore translates. A destination that stalls is represented by stalls of 2.5-6 s of real time only.', 'end-to-end content oracle under enumerated stream faults', '4 C02', 'world,director,windows,procpool,runner')
chk('C03', 'fault_enumeration',
    'A dry run lists every boundary event of each transfer type/mode; one run per (event, before/mid/after effect, fault kind), '
    'retry-budget exhaustion per range, and (thorough) fault pairs; result() is compared with the log of faults actually raised.',
    'Fault kinds are Exception subclasses; abort/cleanup/on_done faults excluded as the statement does.',
    'outcome oracle over the raised-fault log', '4 C03', 'world,director,oshook,procpool,runner')
chk('C04', 'exploration',
    'Every run must return from result()/cancel()/shutdown() before a /proc-based quiescence detector finds all threads asleep '
    'with obligations outstanding (logical deadlock verdict with stack witness). Families: small-limit lattice, 2-4 contending '
    'transfers with gates, cancel-before-start, named race windows, re-entrant subscribers, line-level yield-injection stress.',
    'No scheduler owns CPython thread switching: interleavings are randomized and steered, not enumerated to a preemption bound; '
    'unbounded liveness restated as never-quiescent-while-unfinished.',
    'quiescence-based deadlock detection on real threads', '4 C04', 'world,director,watchdog,yieldinj,windows,runner')
chk('C05', 'fault_enumeration',
    'Per multipart upload id delivered to the library the fake S3 begin/end log is checked after one run per fault position and '
    'per cancel point (uploads x 3 source kinds, copies, legacy uploader): completed once xor aborted before done; no request '
    'after abort; abort only after all other requests returned.',
    'Crash points are in-process faults; killed processes are out of scope.', 'per-upload protocol oracle over fake-S3 call log',
    '4 C05', 'world,director,runner')
chk('C06', 'fault_enumeration',
    'Destination directory and the bytes under the destination name are inspected at every boundary event of every thread and at '
    'the end, for one run per fault in open/write/close/rename/request/body and per cancel point, through manager, legacy and '
    'process-pool (in-process) front-ends.',
    'All file-system effects pass through hooked OSUtils/file wrappers; below-syscall tearing not observable.',
    'directory-state monitor at every boundary event', '4 C06', 'world,director,oshook,procpool,runner')
chk('C07', 'fault_enumeration',
    'Cancel at every boundary event (before/after its effect) x entry points (future.cancel from event/user thread, '
    'shutdown(cancel=True,msg), with-block exception, with-block KeyboardInterrupt), plus behaviourally established '
    'cancel-before-start, cancel-after-done, race windows of the final task, and several user threads submitting at once (one held inside the id-counter update) before a manager-wide cancel; result() type+message, no requests for '
    'not-started transfers, cleanup oracles.',
    'A cancel racing the final step may yield success iff the effect is complete.', 'cancel-point enumeration with outcome and cleanup oracles',
    '4 C07', 'world,director,watchdog,yieldinj,windows,runner')

chk('C08', 'exploration',
    'Recording subscribers and the fake S3 share one event counter; after runs covering every transfer type x success / each fault '
    'position / each cancel position and entry point, cancel-before-start and cancels steered into the double-announce windows, the '
    'merged log is checked for on_queued/on_done exactly-once, ordering against requests, cleanups and on_progress, raising on_done '
    'isolation and HeadObject suppression.',
    'Interleavings are steered (line windows, yields) not enumerated; a slow sibling request is represented by stalls of 10-14 s of real time only.', 'offline trace checker over merged callback / S3 log',
    '4 C08', 'world,director,watchdog,yieldinj,windows,runner')
chk('C09', 'exploration',
    'Running-sum monitor inside the recording subscriber over uploads/downloads/copies with forced body rewinds at every partial '
    'consumption point, http signing reads, both checksum modes, stream faults with short reads, bodies around the 256 KiB '
    'aggregation threshold.',
    'Negative deliveries are not demanded (aggregator nets them); legacy callbacks out of scope.', 'online running-sum monitor',
    '4 C09', 'world,director,runner')
chk('C10', 'exploration',
    'Offline sweep over begin/end events of fake-S3 calls, destination writes and a counting executor for 2-4 mixed transfers under '
    'asymmetric small limits, with quiescence-driven gates so the maxima are actually reached (evidence reports bound_reached per stage).',
    'Counts are lower bounds of the real quantities, so alarms are sound; schedules steered, not enumerated.',
    'interval-overlap monitor over the event log', '4 C10', 'world,director,watchdog,lockset,runner')
chk('C11', 'exploration',
    'Byte-level buffer accounting for stream uploads, part look-ahead for non-seekable downloads and IO-queue occupancy, under small '
    'limits with gates making the lowest part the slowest; thorough adds real 5 MiB parts with a tracemalloc peak; pending IO bytes count every bytes-like object an IO task carries; a lockset monitor sits on the window semaphores of the manager.',
    'Measured quantities are lower bounds; evaluated on the fault-free prefix.', 'buffer/look-ahead monitors over the event log',
    '4 C11', 'world,director,lockset,runner')
chk('C12', 'exploration',
    'Real semaphores vs a reference model over the complete reachable (model,real) state graph up to the length bound (exhaustive), '
    'blocking acquirers as real threads against every release order under yield injection (quiescence = lost wake-up verdict), a waiter that has to wait 5 s / 20 s of real time, and a '
    'behavioural capacity probe after end-to-end runs with faults/cancels.',
    'Double release of a valid token is outside the statement; probe reaches executors through manager attributes; a wait that gives up only after more than 20 s is out of reach.',
    'reference-model differential + quiescence + capacity probe', '4 C12', 'model,watchdog,yieldinj,lockset,world,runner')
chk('C16', 'exploration',
    'All delivery histories the download loop can produce up to the bound (exhaustive), random longer ones, and histories pushed by '
    'one thread per part through the real non-seekable output manager and IO executor into a recording sink.',
    'Attempts deliver identical bytes for identical positions.', 'exhaustive history enumeration against a set-of-positions reference',
    '4 C16', 'model,yieldinj,windows,world,runner')
chk('C17', 'exploration',
    'Real coordinator/future vs a reference state machine over the complete reachable state graph to the length bound (exhaustive), '
    '2-3 thread splits checked for linearizability against the model under yield injection, an Eraser-style lockset monitor, and the '
    'same assertions inside real transfers.',
    'Non-done to non-done transitions are not demanded to be rejected.', 'reference-model differential + linearizability + lockset',
    '4 C17', 'model,yieldinj,windows,lockset,world,runner')
chk('C18', 'exploration',
    'Each mix of 2-4 transfers is run twice (baseline and with a subset failing/cancelled); shutdown is issued while transfers run; '
    'event numbers after the return marker (checked after quiescence), surviving stage threads, bystander outcomes/bytes vs baseline, '
    'a fresh transfer and the capacity probe are checked.',
    'Schedules sampled; fault positions sampled per victim.', 'barrier trace check + differential isolation runs', '4 C18',
    'world,director,watchdog,runner')

chk('C13', 'exploration',
    'Real LeakyBucket/BandwidthLimitedStream objects on real threads under a baton-scheduled virtual clock (default and coarse '
    'profiles, late wake-ups, 1-8 streams, adversarial read sizes / think times, streams abandoned at each wait point) with offline '
    'oracles O1-O6 over the read and sleep logs, plus an end-to-end smoke through TransferManager(max_bandwidth).',
    'Wall-clock behaviour is represented by the lateness parameter only; the burst allowance B is deliberately loose. Two genuine '
    'defects (F6, F7) are recorded in known_findings.json and reported as KNOWN-FINDING.',
    'virtual-time simulation with offline rate / wait-bound oracles', '4 C13', 'vtime,lockset,world,runner')
chk('C14', 'exploration',
    'Real transfers against the API-level fake: the complete scaled domain (size 0..64 x threshold 1..16 x chunksize 1..16; thorough '
    'exhaustive, quick a seeded third) and real-scale boundary sizes up to 5 TiB incl. 10000-part plans, for uploads, copies and the '
    'three download front-ends; tiling / part-number / S3-limit oracle over the request log.',
    'Bodies are never read (virtual sizes); unknown-size streams cannot be planned and are excluded.',
    'request-log tiling oracle at API level', '4 C14', 'world,runner')
chk('C15', 'exploration',
    'Exhaustive table: every allowed extra-argument name x method x mode (incl. failing multipart so the abort is seen) x front-end, '
    'one real transfer per cell (also with empty values, and pairs of transfers with different arguments under one-preemption windows), captured keyword arguments (and the duplicates in the DEBUG log) compared with the installed botocore S3 model; all checksum-name '
    'subsets; all non-allowed names rejected before any request.',
    'Compared against botocore 1.43.x as installed; copy HeadObject judged by the mapped names only. Two findings (F10, F11b) are '
    'recorded as KNOWN-FINDING.', 'exhaustive argument-routing table vs service model', '4 C15', 'world,runner')
chk('C19', 'exploration',
    'The real ProcessPoolDownloader with its submitter/worker loops as threads and a logging in-process TransferMonitor: one run per '
    'cancel point, job fault, allocate/rename fault, exit mode, gates and yield injection; the directory is inspected inside the done '
    'notification; plus real-process (fork) runs.',
    'Real cross-process interleavings are not steered; worker death out of scope.', 'protocol trace checker + directory oracle',
    '4 C19', 'procpool,director,yieldinj,windows,oshook,runner')
chk('C20', 'exploration',
    'The real CRTTransferManager Python layer against a stub awscrt: all outcome assignments over {ok,error,cancel,serialize-fail,'
    'make-fail} for <=3/4 transfers x completion orders, random runs with far more transfers than permits, exits with pending '
    'requests and slow on_done, calls the manager refuses, transfers chained from on_done callbacks; per-transfer permit-release attribution, semaphore value at quiescence, ordering and temp-file oracles.',
    'awscrt itself is absent: only the Python glue is exercised against a stub that honours the documented callback contract.',
    'stub-driven glue monitor', '4 C20', 'crtstub,watchdog,windows,runner')
