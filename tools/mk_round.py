#!/usr/bin/env python3
"""tools/mk_round.py <round letter, e.g. d> [PROP ...]: prepares one round of independent seeded-change sub-agents.

For every property (or the ones named) creates a scratch git worktree of /repo HEAD at /tmp/seeds/<ID>-<letter>, an output
directory /tmp/seeds/<ID>-<letter>.out and a prompt file /tmp/seeds/<ID>-<letter>.prompt holding ONLY the property text, the
generic instructions (tools/seed_prompt.tmpl) and one line per seeded change already stored under seeded/ (so that a new agent
looks for a different mechanism).  Nothing from /verif's machinery is given to the agents."""
import json
import os
import subprocess
import sys

ROOT = os.path.dirname(os.path.dirname(os.path.abspath(__file__)))
letter = sys.argv[1]
only = sys.argv[2:]
props = [json.loads(l) for l in open(os.path.join(ROOT, 'properties.jsonl'))]
tmpl = open(os.path.join(ROOT, 'tools', 'seed_prompt.tmpl')).read()
used = []
for name in sorted(os.listdir(os.path.join(ROOT, 'seeded'))):
    mp = os.path.join(ROOT, 'seeded', name, 'meta.json')
    if os.path.exists(mp):
        m = json.load(open(mp))
        used.append(f'- ({name}) {m["needs_to_manifest"].split("; missed at first")[0]}')
CRT_NOTE = ("\nNote for this property: the `awscrt` native package is NOT installed, so `import s3transfer.crt` fails unless you first put a "
            "small stub `awscrt` package into sys.modules (modules awscrt, awscrt.http, awscrt.s3, awscrt.auth, awscrt.io with the names "
            "crt.py imports; give the package `__version__ = '0.0.0'` and import botocore BEFORE installing the stub). Your demo must do "
            "that itself and drive CRTTransferManager with a stub CRT client whose make_request() returns an object with `finished_future` "
            "(a concurrent.futures.Future) and `cancel()`, calling the `on_done(error=...)` callback it was given and then resolving "
            "finished_future.\n")
os.makedirs('/tmp/seeds', exist_ok=True)
n = 0
for p in props:
    pid = p['id']
    if only and pid not in only:
        continue
    name = f'{pid}-{letter}'
    wt, out = f'/tmp/seeds/{name}', f'/tmp/seeds/{name}.out'
    if not os.path.exists(wt):
        subprocess.check_call(['git', '-C', '/repo', 'worktree', 'add', '-q', '--detach', wt, 'HEAD'])
    os.makedirs(out, exist_ok=True)
    text = f"{pid} — {p.get('title', '')}\n\nStatement: {p.get('statement', '')}\n"
    q = p.get('quantifier')
    if q:
        text += f"\nQuantifier: {q.get('text') if isinstance(q, dict) else q}\n"
    files = (p.get('anchors') or {}).get('files') or []
    if files:
        text += f"\nCode anchors (files): {', '.join(files)}\n"
    body = tmpl.replace('@WT@', wt).replace('@OUT@', out).replace('@PROP@', text)
    if pid == 'C20':
        body += CRT_NOTE
    body += ('\nSeeded changes that were ALREADY written by others (for this and neighbouring properties). Do NOT repeat any of these '
             'mechanisms or trivial variations of them; find a genuinely different way to break the property (a different module, '
             'front-end, input class, configuration, fault kind or interleaving):\n' + '\n'.join(used) + '\n')
    open(f'/tmp/seeds/{name}.prompt', 'w').write(body)
    n += 1
print('prepared', n, 'prompts; used-mechanism lines:', len(used))
