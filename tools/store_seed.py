#!/usr/bin/env python3
"""tools/store_seed.py <name e.g. C06-a> <property> <detected_by comma list> <needs...>: copies a confirmed seeded change from
/tmp/seeds/<name>.out into /verif/seeded/<name>/ (patch.diff, demo.py, notes.md, meta.json)."""
import json
import os
import shutil
import sys

name, prop, det = sys.argv[1], sys.argv[2], sys.argv[3].split(',')
needs = ' '.join(sys.argv[4:])
src = f'/tmp/seeds/{name}.out'
dst = f'/verif/seeded/{name}'
os.makedirs(dst, exist_ok=True)
for f in ('patch.diff', 'demo.py', 'notes.md'):
    if os.path.exists(os.path.join(src, f)):
        shutil.copy(os.path.join(src, f), os.path.join(dst, f))
meta = {
    'property': prop,
    'origin': 'independent sub-agent given only the property text and a scratch worktree of /repo',
    'needs_to_manifest': needs,
    'confirmed': {
        'repo_tests_with_change': 'tests/unit + tests/functional: 624 passed (PYTHONPATH=<worktree>)',
        'demo_with_change': 'exit 1', 'demo_without_change': 'exit 0',
        'how': 'tools/verify_seed.sh ' + name,
    },
    'detected_by': det,
    'checked_with': [f'tools/run_on.sh seeded/{name}/patch.diff {p}' for p in det],
}
json.dump(meta, open(os.path.join(dst, 'meta.json'), 'w'), indent=1)
print('stored', dst)
