#!/bin/bash
# tools/load_sweep.sh [seed] [tier]: all twenty checks AT THE SAME TIME on the unchanged tree (about 20 x 16 workers on 16 cores):
# a sweep for verdicts that depend on timing.  Evidence / replays go to a scratch directory; any VIOLATION here is a false alarm.
seed="${1:-0}"; tier="${2:-quick}"
out=$(mktemp -d /dev/shm/vf-load-XXXXXX)
cd /verif
for p in C01 C02 C03 C04 C05 C06 C07 C08 C09 C10 C11 C12 C13 C14 C15 C16 C17 C18 C19 C20; do
  ( VERIF_SEED=$seed VERIF_EVIDENCE_DIR=$out/ev VERIF_REPLAY_DIR=$out/rp /venv/bin/python -m vf.check $p --tier $tier > $out/$p.log 2>&1; echo "$p exit=$?" >> $out/exits ) &
done
wait
sort $out/exits | tr '\n' ' '; echo
grep -h -A1 "^VIOLATION" $out/*.log | cut -c1-400 | head -40
grep -h "tier=" $out/*.log | grep -v "inconclusive=0 violations=0" | cut -c1-200
mkdir -p /tmp/load-keep; cp -r $out/rp /tmp/load-keep/rp-$seed-$tier 2>/dev/null
rm -rf $out
