#!/bin/bash
# tools/take_neutral.sh <name e.g. N-tasks> : confirm the repo tests pass with the sub-agent's behaviour-preserving patch, store it as
# neutral/a_<name>.patch and remove the scratch worktree.
n="$1"; wt=/tmp/seeds/$n; out=/tmp/seeds/$n.out
cd "$wt" || exit 9
git reset -q; git checkout -q -- . ; git clean -fdq s3transfer; git apply "$out/patch.diff" || { echo "PATCH DOES NOT APPLY"; exit 9; }
res=$(PYTHONPATH=$wt timeout 900 /venv/bin/python -m pytest -q -p no:cacheprovider tests/unit tests/functional 2>&1 | grep -E "passed|failed|error" | tail -1)
echo "$n: $res; $(git diff --stat | tail -1)"
case "$res" in *failed*|*error*) echo "NOT TAKEN"; exit 1;; esac
low=$(echo "$n" | tr 'A-Z' 'a-z' | tr '-' '_')
{ echo "# neutral: behaviour-preserving refactor written by an independent sub-agent ($n); its own argument is in a_${low}.notes.md"; cat "$out/patch.diff"; } > /verif/neutral/a_${low}.patch
cp "$out/notes.md" /verif/neutral/a_${low}.notes.md 2>/dev/null
cd /verif; git -C /repo worktree remove --force "$wt"; rm -rf "$out" "$wt.prompt"
