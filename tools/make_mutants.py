#!/usr/bin/env python3
"""Generates /verif/mutants/*.patch (seeded breaks for the self-test) from the table below,
by editing a scratch worktree of /repo HEAD and taking `git diff`.  Each patch starts with
comment lines naming the property it must trip.  Run: python3 tools/make_mutants.py"""
import os
import subprocess
import sys
import tempfile

HERE = os.path.dirname(os.path.dirname(os.path.abspath(__file__)))
M = []


def mut(name, prop, path, old, new, note=''):
    M.append((name, prop, path, old, new, note))


U, D, F, T, UT, MG, BW, CP, PP, CRT = ('s3transfer/upload.py', 's3transfer/download.py', 's3transfer/futures.py', 's3transfer/tasks.py',
                                        's3transfer/utils.py', 's3transfer/manager.py', 's3transfer/bandwidth.py', 's3transfer/copies.py',
                                        's3transfer/processpool.py', 's3transfer/crt.py')

mut('c01_seekable_put_size', 'C01', U, "        size = fileobj.tell() + transfer_future.meta.size\n", "        size = transfer_future.meta.size\n",
    'seekable stream at a non-zero start offset, single PutObject: body truncated')
mut('c01_parts_completion_order', 'C01', T, "            MultipartUpload={'Parts': parts},\n            **extra_args,",
    "            MultipartUpload={'Parts': sorted(parts, key=lambda p: p['ETag'])},\n            **extra_args,", 'parts not listed in ascending order')
mut('c01_chunk_seek_offset', 'C01', UT, "        self._fileobj.seek(max(where, self._start_byte))", "        self._fileobj.seek(max(where - self._start_byte, 0))",
    'rewind of a part body (client retry) seeks to the wrong file position')
mut('c02_retry_index_not_reset', 'C02', D, "            try:\n                current_index = start_index\n                response = client.get_object(",
    "            try:\n                response = client.get_object(", 'NameError -> replaced below')
mut('c02_iowrite_ignores_offset', 'C02', D, "        fileobj.seek(offset)\n        fileobj.write(data)", "        fileobj.write(data)", 'ranged writes land in arrival order')
mut('c03_nonfinal_exception_dropped', 'C03', T, "            except Exception as e:\n                self._log_and_set_exception(e)\n            finally:",
    "            except Exception as e:\n                if self._is_final:\n                    self._log_and_set_exception(e)\n            finally:",
    'failure of a non-final task is not recorded')
mut('c03_one_attempt_too_many', 'C03', D, "        for i in range(max_attempts):\n            try:\n                current_index = start_index",
    "        for i in range(max_attempts + 1):\n            try:\n                current_index = start_index", 'one GetObject more than num_download_attempts')
mut('c04_no_notify', 'C04', UT, "                self._count += 1\n                self._condition.notify()\n", "                self._count += 1\n", 'lost wake-up in sliding window')
mut('c04_submission_error_no_announce', 'C04', T, "            self._wait_for_all_submitted_futures_to_complete()\n\n            # Announce the transfer as done, which will run any cleanups\n            # and done callbacks as well.\n            self._transfer_coordinator.announce_done()",
    "            self._wait_for_all_submitted_futures_to_complete()", 'submission failure never announces done')
mut('c04_finalize_not_firing', 'C04', UT, "            self._is_finalized = True\n            if self._count == 0:\n                self._callback()", "            self._is_finalized = True",
    'all ranged parts finished before finalize(): final task never submitted')
mut('c05_no_cleanup_on_cancel', 'C05', F, "        if self.status != 'success':\n            self._run_failure_cleanups()", "        if self.status == 'failed':\n            self._run_failure_cleanups()",
    'cancelled multipart upload is not aborted')
mut('c05_announce_before_wait', 'C05', T, "            self._log_and_set_exception(e)\n\n            # Wait for all possibly associated futures that may have spawned\n            # from this submission task have finished before we announce the\n            # transfer done.\n            self._wait_for_all_submitted_futures_to_complete()\n\n            # Announce the transfer as done, which will run any cleanups\n            # and done callbacks as well.\n            self._transfer_coordinator.announce_done()",
    "            self._log_and_set_exception(e)\n            self._transfer_coordinator.announce_done()\n            self._wait_for_all_submitted_futures_to_complete()",
    'abort issued while parts are still in flight')
mut('c06_temp_not_removed', 'C06', D, "        self._transfer_coordinator.add_failure_cleanup(\n            self._osutil.remove_file, self._temp_filename\n        )\n", "", 'temp file left after failure')
mut('c07_cancel_ignores_msg', 'C07', F, "                self._exception = exc_type(msg)", "                self._exception = exc_type()", 'cancellation message lost')
mut('c07_exit_always_fatal', 'C07', MG, "            if isinstance(exc_value, KeyboardInterrupt):\n                cancel_exc_type = CancelledError", "            pass", 'KeyboardInterrupt in with-block reported as FatalError')
mut('c08_callbacks_before_event', 'C04', F, "        self._done_event.set()\n        self._run_done_callbacks()", "        self._run_done_callbacks()\n        self._done_event.set()",
    'result() called from on_done blocks forever')
mut('c08_callbacks_not_cleared', 'C08', F, "            self._run_callbacks(self._done_callbacks)\n            self._done_callbacks = []", "            self._run_callbacks(self._done_callbacks)",
    'on_done runs twice when done is announced twice')
mut('c09_rewind_sign', 'C09', D, "                    callbacks, start_index - current_index\n", "                    callbacks, current_index - start_index\n", 'download retry adds instead of rewinding progress')
mut('c09_no_flush', 'C09', U, "        return [callback.flush for callback in aggregated_progress_callbacks]", "        return []", 'progress below 256 KiB never delivered')
mut('c09_copy_last_part_size', 'C09', CP, "            return total_transfer_size - (part_index * part_size)\n        return part_size", "            return part_size\n        return part_size",
    'multipart copy reports a full part for the short last part')
mut('c10_request_pool_size', 'C10', MG, "            max_num_threads=self._config.max_request_concurrency,", "            max_num_threads=self._config.max_submission_concurrency,",
    'request stage sized by the submission limit')
mut('c10_io_two_threads', 'C10', MG, "            max_size=self._config.max_io_queue_size,\n            max_num_threads=1,", "            max_size=self._config.max_io_queue_size,\n            max_num_threads=2,",
    'two IO writers')
mut('c11_no_download_tag', 'C11', D, "    def get_download_task_tag(self):\n        return IN_MEMORY_DOWNLOAD_TAG", "    def get_download_task_tag(self):\n        return None",
    'non-seekable ranged download not window-limited')
mut('c11_seekable_parts_untagged', 'C11', U, "        if operation_name == 'put_object':\n            return False\n        else:\n            return True", "        return False",
    'in-memory parts of seekable streams not limited')
mut('c12_pending_sorted_ascending', 'C12', UT, "                self._pending_release[tag].sort(reverse=True)", "                self._pending_release[tag].sort()", 'out-of-order releases stall')
mut('c12_pending_count_skipped', 'C12', UT, "                        queued.pop()\n                        self._lowest_sequence[tag] += 1\n                        self._count += 1",
    "                        queued.pop()\n                        self._lowest_sequence[tag] += 1", 'capacity leaks on out-of-order release')
mut('c13_total_wait_not_decremented', 'C13', BW, "        self._total_wait = max(\n            self._total_wait - scheduled_retry['time_to_consume'], 0\n        )", "        pass", 'waits grow for ever')
mut('c13_bytes_not_reset', 'C13', BW, "                self._bytes_seen = 0\n                return", "                return", 'consumed amount keeps growing')
mut('c13_always_admit', 'C13', BW, "        return projected_rate > self._max_rate", "        return False", 'no throttling at all')
mut('c14_threshold_le', 'C14', D, "        if transfer_future.meta.size < config.multipart_threshold:", "        if transfer_future.meta.size <= config.multipart_threshold:", 'size == threshold downloaded in one request')
mut('c14_range_overlap', 'C14', UT, "        end_range = start_range + part_size - 1", "        end_range = start_range + part_size", 'ranges overlap by one byte')
mut('c14_max_parts_ge', 'C14', UT, "        while num_parts > self.max_parts:", "        while num_parts >= self.max_parts:", 'chunk size doubled although exactly 10000 parts fit')
mut('c15_part_args_drop', 'C15', U, "        'SSECustomerKeyMD5',\n        'RequestPayer',\n        'ExpectedBucketOwner',\n    ]\n\n    COMPLETE_MULTIPART_ARGS", "        'SSECustomerKeyMD5',\n        'ExpectedBucketOwner',\n    ]\n\n    COMPLETE_MULTIPART_ARGS",
    'RequestPayer not forwarded to UploadPart')
mut('c15_copy_complete_args_drop', 'C15', CP, "    COMPLETE_MULTIPART_ARGS = [\n        'SSECustomerKey',", "    COMPLETE_MULTIPART_ARGS = [", 'SSECustomerKey not forwarded to CompleteMultipartUpload of copies')
mut('c16_strict_offset_match', 'C16', D, "        while self._writes and self._writes[0][0] <= self._next_offset:", "        while self._writes and self._writes[0][0] == self._next_offset:",
    'overlapping re-delivery stalls the queue')
mut('c17_set_exception_unguarded', 'C17', F, "            if not self.done() or override:\n                self._exception = exception\n                self._status = 'failed'",
    "            self._exception = exception\n            self._status = 'failed'", 'later failure overwrites the first')
mut('c17_set_result_keeps_exception', 'C17', F, "            self._exception = None\n            self._result = result", "            self._result = result", 'success with a stale exception')
mut('c18_no_wait_on_executors', 'C18', F, "    def shutdown(self, wait=True):\n        self._executor.shutdown(wait)", "    def shutdown(self, wait=True):\n        self._executor.shutdown(False)",
    'shutdown returns while tasks still run')
mut('c19_done_before_finalize', 'C19', PP, "        if self._transfer_monitor.get_exception(transfer_id):\n            self._osutil.remove_file(temp_filename)\n        else:\n            self._do_file_rename(transfer_id, temp_filename, filename)\n        self._transfer_monitor.notify_done(transfer_id)",
    "        self._transfer_monitor.notify_done(transfer_id)\n        if self._transfer_monitor.get_exception(transfer_id):\n            self._osutil.remove_file(temp_filename)\n        else:\n            self._do_file_rename(transfer_id, temp_filename, filename)",
    'done notified before rename/remove')
mut('c19_finalize_at_one', 'C19', PP, "            if not remaining:\n", "            if remaining <= 1:\n", 'finalized while a job is still running')
mut('c20_no_release_on_construct_failure', 'C20', CRT, "                future, 'done', after_subscribers=on_done_after_calls\n", "                future, 'done', after_subscribers=[afterdone]\n",
    'permit leaked when request construction fails')
mut('c20_temp_kept_on_error', 'C20', CRT, "        if error:\n            self._osutil.remove_file(self._temp_filename)\n        else:", "        if error:\n            pass\n        else:",
    'temp file left when the CRT request fails')

mut('c06_write_to_final_name', 'C06', D, "        self._temp_filename = self._osutil.get_temp_filename(fileobj)", "        self._temp_filename = fileobj",
    'download written directly under the destination name')
mut('c06_final_task_not_behind_writes', 'C06', D, "        final_task = download_manager.get_final_io_task()\n        return FunctionContainer(\n            self._transfer_coordinator.submit, io_executor, final_task\n        )",
    "        final_task = download_manager.get_final_io_task()\n        return final_task", 'rename runs in the request thread, not queued behind the writes')
mut('c08_run_callback_narrow_except', 'C08', F, "        except Exception:\n            logger.debug(f\"Exception raised in {callback}.\", exc_info=True)", "        except ValueError:\n            logger.debug(f\"Exception raised in {callback}.\", exc_info=True)",
    'a raising on_done prevents the later subscribers')
mut('c10_release_before_run', 'C10', F, "        future = ExecutorFuture(self._executor.submit(task, get_context()))\n        # Add the Semaphore.release() callback to the future such that\n        # it is invoked once the future completes.\n        future.add_done_callback(release_callback)",
    "        future = ExecutorFuture(self._executor.submit(task, get_context()))\n        release_callback()", 'permit returned at submission time')
mut('c12_lowest_not_advanced', 'C12', UT, "                        queued.pop()\n                        self._lowest_sequence[tag] += 1\n                        self._count += 1",
    "                        queued.pop()\n                        self._count += 1", 'lowest sequence not advanced while draining pending releases')
mut('c13_retry_own_time_only', 'C13', BW, "        return self._total_wait\n\n    def process_scheduled_consumption", "        return time_to_consume\n\n    def process_scheduled_consumption",
    'a refused read waits only its own time, not behind the reads already waiting')
mut('c13_no_coordinator_recheck', 'C13', BW, "        while not self._transfer_coordinator.exception:\n            try:", "        while True:\n            try:",
    'a failed transfer keeps waiting / reading instead of raising')
mut('c19_no_exception_check_in_finalize', 'C19', PP, "        if self._transfer_monitor.get_exception(transfer_id):\n            self._osutil.remove_file(temp_filename)\n        else:\n            self._do_file_rename(transfer_id, temp_filename, filename)\n        self._transfer_monitor.notify_done(transfer_id)",
    "        self._do_file_rename(transfer_id, temp_filename, filename)\n        self._transfer_monitor.notify_done(transfer_id)", 'failed download still renamed into place')
mut('c19_jobs_announced_after_queueing', 'C19', PP, "        self._notify_jobs_to_complete(\n            download_file_request.transfer_id, num_parts\n        )\n        for i in range(num_parts):",
    "        for i in range(num_parts):", 'NOTE replaced below')
mut('c20_afterdone_before_subscribers', 'C20', CRT, "                future, 'done', on_done_before_calls, on_done_after_calls\n", "                future, 'done', on_done_before_calls + on_done_after_calls, []\n",
    'permit released / done reported before the subscribers ran')


def main():
    out = os.path.join(HERE, 'mutants')
    os.makedirs(out, exist_ok=True)
    for f in os.listdir(out):
        if f.endswith('.patch'):
            os.unlink(os.path.join(out, f))
    wt = tempfile.mkdtemp(prefix='vf-mut-', dir='/tmp')
    subprocess.check_call(['git', '-C', '/repo', 'worktree', 'add', '-q', '--detach', wt, 'HEAD'])
    ok = 0
    try:
        for (name, prop, path, old, new, note) in M:
            p = os.path.join(wt, path)
            s = open(p).read()
            if name == 'c02_retry_index_not_reset':
                # move the reset out of the retry loop
                old = "        last_exception = None\n        for i in range(max_attempts):\n            try:\n                current_index = start_index\n"
                new = "        last_exception = None\n        current_index = start_index\n        for i in range(max_attempts):\n            try:\n"
            if name == 'c19_jobs_announced_after_queueing':
                old = "        self._notify_jobs_to_complete(\n            download_file_request.transfer_id, num_parts\n        )\n        for i in range(num_parts):"
                new = "        for i in range(num_parts):"
                s = s.replace("                filename=download_file_request.filename,\n            )\n\n    def _submit_get_object_job(self, **get_object_job_kwargs):",
                              "                filename=download_file_request.filename,\n            )\n        self._notify_jobs_to_complete(\n            download_file_request.transfer_id, num_parts\n        )\n\n    def _submit_get_object_job(self, **get_object_job_kwargs):")
            if s.count(old) != 1:
                print(f'SKIP {name}: anchor found {s.count(old)} times')
                continue
            open(p, 'w').write(s.replace(old, new))
            diff = subprocess.check_output(['git', '-C', wt, 'diff']).decode()
            subprocess.check_call(['git', '-C', wt, 'checkout', '-q', '--', '.'])
            with open(os.path.join(out, f'{name}.patch'), 'w') as f:
                f.write(f'# property: {prop}\n# note: {note}\n{diff}')
            ok += 1
    finally:
        subprocess.call(['git', '-C', '/repo', 'worktree', 'remove', '--force', wt])
    print(f'{ok} mutants written to {out}')


if __name__ == '__main__':
    main()
