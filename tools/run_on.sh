#!/bin/bash
# Usage: tools/run_on.sh <git-rev-of-/repo | path-to-patch> <PROP> [tier]
# Runs a check against a scratch worktree of /repo (at a revision, or HEAD + patch) without touching
# /repo or the committed evidence.  The worktree and all outputs are removed afterwards.
set -u
what="$1"; prop="$2"; tier="${3:-quick}"
wt=$(mktemp -d /tmp/vf-wt-XXXXXX)
out=$(mktemp -d /dev/shm/vf-out-XXXXXX)
if [ -f "$what" ]; then
  git -C /repo worktree add -q --detach "$wt" HEAD && git -C "$wt" apply "$what" || { echo "patch failed"; git -C /repo worktree remove --force "$wt"; exit 9; }
else
  git -C /repo worktree add -q --detach "$wt" "$what" || exit 9
fi
cd /verif
VERIF_REPO="$wt" VERIF_EVIDENCE_DIR="$out/ev" VERIF_REPLAY_DIR="$out/rp" /venv/bin/python -m vf.check "$prop" --tier "$tier" 2>&1 | cut -c1-400 | head -${HEAD_LINES:-12}
rc=${PIPESTATUS[0]}
git -C /repo worktree remove --force "$wt"
rm -rf "$out"
echo "exit=$rc"
exit $rc
