#!/usr/bin/env python3
"""Regenerates /verif/MANIFEST.json from the table below (keeps it valid while
checks are added).  Run: python3 tools/gen_manifest.py"""
import json
import os

HERE = os.path.dirname(os.path.dirname(os.path.abspath(__file__)))
PY = '/venv/bin/python'

CHECKS = {}
NOT_YET = {}


def chk(pid, category, text, note, technique, design_ref, engines):
    CHECKS[pid] = dict(category=category, text=text, note=note, technique=technique, design_ref=design_ref, engines=engines)


exec(open(os.path.join(HERE, 'tools', 'manifest_table.py')).read())

props = [json.loads(l) for l in open(os.path.join(HERE, 'properties.jsonl'))]
checks = []
na = []
for p in props:
    pid = p['id']
    if pid in CHECKS:
        c = CHECKS[pid]
        checks.append({
            'property_id': pid,
            'quick_cmd': f'{PY} -m vf.check {pid} --tier quick',
            'thorough_cmd': f'{PY} -m vf.check {pid} --tier thorough',
            'evidence_file': f'/verif/evidence/{pid}.json',
            'replay_cmd_template': f'{PY} -m vf.replay {{path}}',
            'engine': c['engines'],
            'level_claimed': {'category': c['category'], 'text': c['text'], 'design_ref': c['design_ref']},
            'level_note': c['note'],
            'technique': c['technique'],
        })
    else:
        na.append({'property_id': pid, 'reason': NOT_YET.get(pid, 'check under construction in this session; not claimed until it runs clean on the unchanged tree')})

manifest = {
    'version': 1,
    'setup_cmd': f'{PY} -m compileall -q vf && {PY} -c "import botocore, s3transfer; print(botocore.__version__, s3transfer.__version__)"',
    'hooks': HOOKS,
    'engines': ENGINES,
    'checks': checks,
    'notes': NOTES,
    'not_applicable': na,
}
with open(os.path.join(HERE, 'MANIFEST.json'), 'w') as f:
    json.dump(manifest, f, indent=1)
print(f'{len(checks)} checks, {len(na)} not claimed')
